"""C17 — Instrument dtype/device contract holds over any cast/simulate sequence.

correspondence: random and exhaustive (depth <= 3 quick / 4 thorough) sequences of
to()/float()/double()/half()/bfloat16()/to(tensor)/to(instrument)/simulate()/register_buffer and
changes of the global default dtype on all 8 primaries (and through derivatives) vs the Lean state
machine (Model/DType.lean): after every operation the declared dtype, the dtype of every buffer and
the dtype of payoff / features / hedge / P&L are compared.  CPU only.
predicate-only scenarios (not part of the model): casts to complex dtypes in every to() form and in the constructor
(TypeError, state unchanged); a LISTED derivative on the instrument whose price / Spot feature / hedge P&L are read after
every operation (so before and after each cast); Hedger.compute_loss / price with n_times in {1,2,3} at the end of a history; ONE Hedger
object (parameter-free: Whalley-Wilmott, Naked / a parameter-free module on prev_hedge, with one and two hedging instruments, Black-Scholes)
used again and again while its instruments are cast and re-simulated with the same number of paths (exhaustive over {no cast, float32,
float64} to depth 2 / 3, random histories incl. half precisions and ambient changes): hedge, hedger inputs, portfolio, P&L, loss and price
follow the instruments; EVERY feature (incl. Barrier up / down, Ones, Zeros, Empty, ModuleOutput of parameter-free modules) in BOTH forms
get(None) / get(i), and the inputs / hedge / portfolio / P&L of parameter-free hedgers fed with it (beside state-independent companions only,
and beside prev_hedge), on the grid ambient default x instrument dtype (all cast forms, all stock classes, 4 derivative classes, a change of
the ambient default between simulation and evaluation): all in the dtype of the instrument's buffers (keys dtype:feature:*, dtype:hedger-feature:*);
EVERY criterion of the library (EntropicRiskMeasure, EntropicLoss, IsoelasticLoss, ExpectedShortfall, QuadraticCVaR, OCE) and a user criterion on the
inherited cash search: loss (1-D / 2-D / with target), cash, Hedger.compute_loss, Hedger.price on the grid ambient default x instrument dtype (keys
dtype:criterion:*); VALUES rather than labels of the simulated buffers of every primary (declared by constructor / casts around an earlier simulation /
ambient default): a float64 series is not float32-representable throughout, a narrower instrument reproduces seed for seed the fresh instrument of its
dtype and is not the rounded ambient-default run (keys dtype:simulate:values:*).
correspondence with the SYSTEM model (Model/InstrSys.lean, op "instr_sys"): (a) all the sequences above, re-read as histories of a
system (one primary, the derivative on it, the listed option when there is one) with the result queries the predicate part computes;
(b) exhaustive sequences (depth 3 over 10 letters; thorough: also depth 4 over 7 letters) of derivative-level operations on a Heston stock with two derivatives of
different maturities (casts through either, simulation through either with different path counts, list / delist, register_buffer,
cast to the sibling, ambient default); (c) random systems (1-3 primaries of all 8 classes, 1-3 derivatives of 4 classes sharing
underliers) with random histories and queries.  In half of the random systems and in an exhaustive family the real side keeps one Hedger
object per hedger configuration alive over the whole history (scen["reuse_hedgers"]; the model's answers depend on the instruments only).
After every operation: declared dtype, every buffer's dtype / shape, tensor identity
against the model's generation numbers, the record of the last simulate; every query: dtype, shape or error kind, exactly.
"""
import itertools
from common import *  # noqa

DT = {"f16": "float16", "bf16": "bfloat16", "f32": "float32", "f64": "float64", "i64": "int64", "i32": "int32",
      "c64": "complex64", "c128": "complex128"}
CPLX = ("c64", "c128")          # non-floating like the integers, but unknown to the Lean model: predicate only
PRIMS = {
    "BrownianStock": ["spot"], "HestonStock": ["spot", "variance"], "CIRRate": ["spot"], "VasicekRate": ["spot"],
    "MertonJumpStock": ["spot"], "KouJumpStock": ["spot"], "RoughBergomiStock": ["spot", "variance"],
    "LocalVolatilityStock": ["spot", "volatility"],
}


def tdt(torch, name):
    return None if name is None else getattr(torch, DT[name])


def short(torch, dtype):
    for k, v in DT.items():
        if getattr(torch, v) == dtype:
            return k
    return str(dtype)


def make(torch, I, prim, dtype):
    kw = {"dtype": tdt(torch, dtype)}
    if prim == "LocalVolatilityStock":
        return I.LocalVolatilityStock(lambda t, s: torch.full_like(s, 0.2), **kw)
    return getattr(I, prim)(**kw)


def gen_ops(g, prim, n):
    ops = []
    fl = ["f16", "bf16", "f32", "f64"]
    for _ in range(n):
        k = g.weighted([("to", 4), ("method", 2), ("to_none", 1), ("to_tensor", 1.5), ("to_inst", 1.5), ("simulate", 5),
                        ("register", 1.5), ("default", 1), ("to_int", 0.7), ("to_cplx", 0.7)])
        if k == "to":
            ops.append(["to", g.choice(fl)])
        elif k == "method":
            ops.append(["method", g.choice(fl)])
        elif k == "to_none":
            ops.append(["to", None])
        elif k == "to_tensor":
            ops.append(["to_tensor", g.choice(fl + ["i64"])])
        elif k == "to_inst":
            ops.append(["to_inst", g.choice(fl + [None])])
        elif k == "simulate":
            ops.append(["simulate", PRIMS[prim]])
        elif k == "register":
            ops.append(["register", g.choice(["spot", "extra"]), g.choice(fl + ["i64"])])
        elif k == "default":
            ops.append(["default", g.choice(["f32", "f64"])])
        elif k == "to_cplx":
            ops.append(["to_cplx", g.choice(["dtype", "kw", "device_dtype", "kw_device_dtype", "tensor"]), g.choice(list(CPLX))])
        else:
            ops.append(["to", g.choice(["i64", "i32"])])
    return ops


def apply_op(torch, I, inst, op, via_derivative=None):
    """returns ('ok', None) | ('err', kind) | ('backend', msg)"""
    target = via_derivative if via_derivative is not None else inst
    try:
        if op[0] == "to":
            if op[1] is None:
                target.to(torch.device("cpu"))
            else:
                target.to(tdt(torch, op[1]))
        elif op[0] == "method":
            {"f16": target.half, "bf16": target.bfloat16, "f32": target.float, "f64": target.double}[op[1]]()
        elif op[0] == "to_tensor":
            target.to(torch.zeros(1, dtype=tdt(torch, op[1])))
        elif op[0] == "to_inst":
            target.to(I.BrownianStock(dtype=tdt(torch, op[1])))
        elif op[0] == "to_cplx":
            cd = tdt(torch, op[2])
            if op[1] == "dtype":
                target.to(cd)
            elif op[1] == "kw":
                target.to(dtype=cd)
            elif op[1] == "device_dtype":
                target.to(torch.device("cpu"), cd)
            elif op[1] == "kw_device_dtype":
                target.to(device="cpu", dtype=cd)
            else:
                target.to(torch.zeros(1, dtype=cd))
        elif op[0] == "simulate":
            if via_derivative is not None:
                via_derivative.simulate(n_paths=2)
            else:
                inst.simulate(n_paths=2, time_horizon=3 / 250)
        elif op[0] == "register":
            inst.register_buffer(op[1], torch.ones(2, 4, dtype=tdt(torch, op[2])))
        elif op[0] == "default":
            torch.set_default_dtype(tdt(torch, op[1]))
        return ("ok", None)
    except RecursionError:
        return ("err", "recursion_error")
    except TypeError as e:
        return ("err", "type_error")
    except (RuntimeError, NotImplementedError) as e:
        msg = str(e)
        if "not implemented for" in msg or "not supported" in msg.lower() or "Half" in msg or "BFloat16" in msg:
            return ("backend", msg[:80])
        return ("err", "runtime_error")
    except Exception as e:  # noqa
        return ("err", canon_error(e))


def to_model_op(op):
    if op[0] == "method":
        return ["to", op[1]]
    return op


def observe(torch, inst):
    return {"declared": None if inst.dtype is None else short(torch, inst.dtype),
            "buffers": [[n, short(torch, b.dtype)] for n, b in inst.named_buffers()]}


def _isys_snapshot(torch, inst, keep):
    """shapes and the tensor objects of the buffers, the ambient default (for the system model)"""
    nb = list(inst.named_buffers())
    keep.extend(b for _, b in nb)
    return {"shapes": {n: list(b.shape) for n, b in nb}, "objs": {n: b for n, b in nb}, "ambient": short(torch, torch.get_default_dtype())}


_EXPU = []


def _ExpU():
    if not _EXPU:
        from pfhedge.nn import HedgeLoss

        class ExpU(HedgeLoss):
            def forward(self, input, target=0.0):
                return (-(input - target)).exp().mean(0)
        _EXPU.append(ExpU)
    return _EXPU[0]()


def _listed_pricer(d):
    # a listed price computed from the underlier's current buffers (intrinsic value + a time value), in their dtype
    return (d.ul().spot - d.strike).relu() + d.time_to_maturity()


def run_case(torch, I, ctx, prim, init, ambient, ops, use_deriv, listed=False, n_times=None):
    from pfhedge.nn import Hedger, Naked
    from pfhedge.features import Spot
    torch.set_default_dtype(tdt(torch, ambient))
    case = {"primary": prim, "init": init, "ambient": ambient, "ops": ops, "via_derivative": use_deriv, "listed": listed, "n_times": n_times}
    try:
        inst = make(torch, I, prim, init)
    except TypeError:
        torch.set_default_dtype(torch.float32)
        return case, None, [("err", "type_error")], None
    deriv = I.EuropeanOption(inst, maturity=3 / 250) if prim not in ("CIRRate", "VasicekRate") else None
    if deriv is None:
        use_deriv = False
        case["via_derivative"] = False
        case["listed"] = listed = False
        case["n_times"] = n_times = None
    lst = None
    if listed:
        # a second, exchange-traded option on the same underlier; casts / simulations "through a derivative" go through it
        lst = I.EuropeanOption(inst, strike=1.05, maturity=3 / 250)
        lst.list(_listed_pricer, cost=1e-4)
    obs0 = observe(torch, inst)
    keep = []
    snap0 = _isys_snapshot(torch, inst, keep)
    steps = []
    for op in ops:
        via = (lst or deriv) if (use_deriv and op[0] in ("to", "method", "to_tensor", "to_inst", "to_cplx", "simulate")) else None
        st = apply_op(torch, I, inst, op, via)
        o = observe(torch, inst)
        extra = {"_isys": _isys_snapshot(torch, inst, keep)}
        if st[0] == "ok" and deriv is not None and any(n == "spot" for n, _ in o["buffers"]) and \
                all(b.shape == inst.spot.shape for _, b in inst.named_buffers()) and inst.spot.dtype.is_floating_point:
            # dtype of computations from the instrument; derivative aliases its underlier
            try:
                with torch.no_grad():
                    res = {"payoff": deriv.payoff().dtype, "moneyness": deriv.moneyness().dtype, "ttm": deriv.time_to_maturity().dtype}
                    if deriv.dtype != inst.dtype:
                        extra["alias"] = "derivative.dtype differs from its underlier's"
                    h = Hedger(Naked(), ["moneyness", "time_to_maturity", "zeros"])
                    res["hedge"] = h.compute_hedge(deriv).dtype
                    pl_ = h.compute_pl(deriv)
                    res["pl"] = pl_.dtype
                    res["loss"] = h.criterion(pl_).dtype
                    res["cash"] = h.criterion.cash(pl_).dtype
                    if pl_.dtype in (torch.float32, torch.float64):
                        # a user criterion relying on HedgeLoss.cash (the search precision 1e-6 is below half-precision resolution)
                        res["cash_default_search"] = _ExpU().cash(pl_).dtype
                    if lst is not None:
                        # listed price, the Spot feature of the listed option, and hedging `deriv` with the listed option
                        res["listed_price"] = lst.spot.dtype
                        if lst.dtype != inst.dtype:
                            extra["alias"] = "derivative.dtype differs from its underlier's"
                        ft = Spot().of(lst)
                        res["spot_feature"] = ft.get(None).dtype
                        res["spot_feature_step"] = ft.get(0).dtype
                        res["portfolio_listed_hedge"] = h.compute_portfolio(deriv, hedge=[lst]).dtype
                        res["pl_listed_hedge"] = h.compute_pl(deriv, hedge=[lst]).dtype
                extra["results"] = {k: short(torch, v) for k, v in res.items()}
            except (RuntimeError, NotImplementedError) as e:
                extra["results_backend"] = str(e)[:60]
        steps.append((st, o, extra))
    if n_times is not None and steps and all(b.dtype.is_floating_point for b in inst.buffers()) and \
            (inst.dtype is None or inst.dtype.is_floating_point):
        # end of the history: loss and price re-simulate the instrument (so nothing may follow) and average over n_times evaluations
        ens = {}
        try:
            with torch.no_grad():
                h = Hedger(Naked(), ["moneyness", "time_to_maturity", "zeros"])
                ens["loss"] = short(torch, h.compute_loss(deriv, n_paths=2, n_times=n_times, enable_grad=False).dtype)
                snap1 = (observe(torch, inst), _isys_snapshot(torch, inst, keep))
                ens["price"] = short(torch, h.price(deriv, n_paths=2, n_times=n_times).dtype)
                snap2 = (observe(torch, inst), _isys_snapshot(torch, inst, keep))
                ens["instrument"] = short(torch, inst.spot.dtype)
                ens["payoff"] = short(torch, deriv.payoff().dtype)
            steps[-1][2]["ensemble"] = ens
            steps[-1][2]["_isys_ensemble"] = [snap1, snap2]
        except (RuntimeError, NotImplementedError) as e:
            steps[-1][2]["ensemble_backend"] = str(e)[:60]
    torch.set_default_dtype(torch.float32)
    return case, obs0, steps, snap0


# ==================================================================================================
# ONE hedger object kept alive while its instruments go through casts and re-simulations (a fitted hedger evaluated in another
# precision).  The hedgers are parameter-free (nobody has a reason to cast the hedger itself) and most of them are state-dependent
# (prev_hedge reads the hedger's `prev_output`): whatever a hedger carries over from its previous use must not leak into the dtype of
# hedge / hedger inputs / portfolio / P&L / loss / price, which are the instruments'.

REUSE_HEDGERS = ["WhalleyWilmott", "Naked+prev_hedge", "ParamFree+prev_hedge", "Naked+prev_hedge:two_hedges", "BlackScholes"]
_PARAMFREE = []


def _ParamFree():
    if not _PARAMFREE:
        import torch

        class ParamFree(torch.nn.Module):
            """a parameter-free strategy: a bounded function of the first feature and of the previous position"""
            def forward(self, input):
                return (input[..., :1] - input[..., -1:]).tanh()
        _PARAMFREE.append(ParamFree)
    return _PARAMFREE[0]()


def reuse_make(torch, I, kind, prim, init):
    """(hedger, derivative, hedging instruments or None)"""
    from pfhedge.nn import Hedger, Naked, WhalleyWilmott, BlackScholes, ExpectedShortfall
    kw = {"dtype": tdt(torch, init)}
    if kind in ("WhalleyWilmott", "BlackScholes"):
        stock = I.BrownianStock(cost=1e-3, **kw)
    elif prim == "LocalVolatilityStock":
        stock = I.LocalVolatilityStock(lambda t, s: torch.full_like(s, 0.2), cost=1e-4, **kw)
    else:
        stock = getattr(I, prim)(cost=1e-4, **kw)
    deriv = I.EuropeanOption(stock, call=(kind != "ParamFree+prev_hedge"), maturity=3 / 250)
    refs = None
    if kind == "WhalleyWilmott":
        m = WhalleyWilmott(deriv)
        h = Hedger(m, m.inputs())
    elif kind == "BlackScholes":
        m = BlackScholes(deriv)
        h = Hedger(m, m.inputs())
    elif kind == "Naked+prev_hedge":
        h = Hedger(Naked(), ["moneyness", "prev_hedge"], criterion=ExpectedShortfall(0.5))
    elif kind == "ParamFree+prev_hedge":
        h = Hedger(_ParamFree(), ["log_moneyness", "time_to_maturity", "prev_hedge"])
    else:
        lst = I.EuropeanOption(stock, strike=1.05, maturity=3 / 250)
        lst.list(_listed_pricer, cost=1e-4)
        refs = [stock, lst]
        h = Hedger(Naked(2), ["moneyness", "prev_hedge"])
    return h, deriv, refs


def reuse_gen_steps(g, n):
    """[cast or None, form, n_paths, ambient change or None, n_times of a compute_loss / price evaluation (0: none)] per step"""
    steps = []
    n_paths = g.choice([2, 3])
    for _ in range(n):
        cast = g.weighted([(None, 2), ("f32", 3), ("f64", 3), ("f16", 1), ("bf16", 1)])
        if g.chance(0.15):
            n_paths = g.choice([2, 3])          # (mostly the same number of paths from one use to the next)
        steps.append([cast, g.choice(["to", "method", "prim_to", "kw"]), n_paths, g.choice([None, None, None, "f32", "f64"]), g.choice([0, 0, 0, 1, 2])])
    return steps


def run_reuse_case(torch, I, kind, prim, init, ambient, steps):
    """-> (case, [(status, instrument dtype, {quantity: dtype})] per step); status 'ok' | 'backend' | ('err', kind)"""
    case = {"hedger_reuse": kind, "primary": prim if kind not in ("WhalleyWilmott", "BlackScholes") else "BrownianStock", "init": init,
            "ambient": ambient, "steps": steps}
    torch.set_default_dtype(tdt(torch, ambient))
    out = []
    try:
        h, d, refs = reuse_make(torch, I, kind, prim, init)
        for cast, form, n_paths, amb, ens in steps:
            try:
                with torch.no_grad():
                    if amb is not None:
                        torch.set_default_dtype(tdt(torch, amb))
                    if cast is not None:
                        if form == "method":
                            {"f16": d.half, "bf16": d.bfloat16, "f32": d.float, "f64": d.double}[cast]()
                        elif form == "prim_to":
                            d.ul().to(tdt(torch, cast))
                        elif form == "kw":
                            d.to(dtype=tdt(torch, cast))
                        else:
                            d.to(tdt(torch, cast))
                    d.simulate(n_paths=n_paths)
                    res = {"payoff": d.payoff().dtype}
                    res["hedge"] = h.compute_hedge(d, hedge=refs).dtype
                    res["hedger_input"] = h.inputs.of(d, h).get(0).dtype      # what the model is fed with (prev_hedge: the hedger's state)
                    res["portfolio"] = h.compute_portfolio(d, hedge=refs).dtype
                    pl_ = h.compute_pl(d, hedge=refs)
                    res["pl"] = pl_.dtype
                    res["loss_of_pl"] = h.criterion(pl_).dtype
                    if ens:
                        # (these simulate again themselves, with the same number of paths)
                        res["compute_loss"] = h.compute_loss(d, hedge=refs, n_paths=n_paths, n_times=ens, enable_grad=False).dtype
                        res["price"] = h.price(d, hedge=refs, n_paths=n_paths, n_times=ens).dtype
                    res["payoff_after"] = d.payoff().dtype
                want = d.ul().spot.dtype
                declared = d.ul().dtype
                out.append(("ok", short(torch, want), {k: short(torch, v) for k, v in res.items()},
                            None if declared is None else short(torch, declared), short(torch, torch.get_default_dtype())))
            except (RuntimeError, NotImplementedError) as e:
                msg = str(e)
                if isinstance(e, NotImplementedError) or "not implemented for" in msg or "not supported" in msg.lower() or "Half" in msg or "BFloat16" in msg:
                    out.append(("backend", msg[:80], None, None, None))
                else:
                    out.append((("err", "runtime_error: " + msg[:160]), None, None, None, None))
                break
            except Exception as e:  # noqa
                out.append((("err", canon_error(e)), None, None, None, None))
                break
    finally:
        torch.set_default_dtype(torch.float32)
    return case, out


# ==================================================================================================
# EVERY feature in BOTH of its forms -- get(None) (all time steps at once: what a hedger whose inputs are all state-independent
# asks for) and get(i) (one step: what a state-dependent hedger asks for) -- is in the dtype of the instrument's buffers, whatever
# the ambient default dtype is at the time of the evaluation; and so are the inputs / hedge / portfolio / P&L of a hedger with
# parameter-free model that has the feature among its inputs (beside state-independent companions only, and beside prev_hedge).

FB_FEATS = ["moneyness", "log_moneyness", "time_to_maturity", "underlier_spot", "underlier_log_spot", "volatility", "variance",
            "zeros", "ones", "empty", "barrier_up", "barrier_down", "max_moneyness", "max_log_moneyness", "spot",
            "module_output:mix", "module_output:naked", "module_output:black_scholes"]
FB_COMPANIONS = ["moneyness", "log_moneyness", "time_to_maturity", "zeros", "ones", "underlier_spot", "max_moneyness"]
FB_DERIVS = ["EuropeanOption", "LookbackOption", "EuropeanBinaryOption", "AmericanBinaryOption"]
_MIX = []


def _Mix():
    if not _MIX:
        import torch

        class Mix(torch.nn.Module):
            """a parameter-free module: a bounded function of all its input features"""
            def forward(self, input):
                return input.sum(-1, keepdim=True).tanh()
        _MIX.append(Mix)
    return _MIX[0]()


def fb_feature(name, d, thr):
    """a fresh (unbound) feature object"""
    import pfhedge.features as F
    from pfhedge.nn import Naked, BlackScholes
    if name == "barrier_up":
        return F.Barrier(thr, up=True)
    if name == "barrier_down":
        return F.Barrier(thr, up=False)
    if name == "module_output:mix":
        return F.ModuleOutput(_Mix(), inputs=["log_moneyness", F.Barrier(thr, up=True), F.Ones()])
    if name == "module_output:naked":
        return F.ModuleOutput(Naked(), inputs=["empty", "time_to_maturity", F.Barrier(thr, up=False)])
    if name == "module_output:black_scholes":
        m = BlackScholes(d)
        return F.ModuleOutput(m, inputs=m.inputs())
    return isys_feature(name)


def fb_gen_case(g, ambient, dt):
    stocks = ["BrownianStock", "HestonStock", "MertonJumpStock", "KouJumpStock", "RoughBergomiStock", "LocalVolatilityStock"]
    how = g.choice(["init", "to", "method", "kw", "prim_to", "after_simulate", "after_simulate+resimulate"]) if dt is not None else None
    return {"feature_battery": True, "primary": g.choice(stocks), "derivative": g.choice(FB_DERIVS), "dtype": dt, "cast": how,
            "ambient": ambient, "ambient_eval": g.choice([None, None, "f32", "f64"]), "n_paths": g.choice([1, 2, 3]),
            "maturity_steps": g.choice([2, 3, 5]), "threshold": g.choice([0.9, 1.0, 1.02, 3.0]), "listed": g.chance(0.5),
            "companion": g.choice(FB_COMPANIONS), "step": g.choice([0, 1, "last"]),
            "prev_hedge": sorted(set(g.choice(FB_FEATS) for _ in range(5))),     # the features that ALSO go through a state-dependent hedger
            "model": g.choice(["naked", "param_free"])}


def run_feature_case(torch, I, case):
    """-> ('ok', instrument dtype, {feature: {quantity: dtype | ['backend', msg] | ['error', kind]}}) | ('backend', msg)"""
    from pfhedge.nn import Hedger, Naked
    torch.set_default_dtype(tdt(torch, case["ambient"]))
    dt, how = case["dtype"], case["cast"]
    tdtype = tdt(torch, dt)
    try:
        with torch.no_grad():
            kw = {"dtype": tdtype} if how == "init" else {}
            if case["primary"] == "LocalVolatilityStock":
                stock = I.LocalVolatilityStock(lambda t, s: torch.full_like(s, 0.2), cost=1e-4, **kw)
            else:
                stock = getattr(I, case["primary"])(cost=1e-4, **kw)
            m = case["maturity_steps"]
            d = getattr(I, case["derivative"])(stock, maturity=m / 250)

            def cast():
                if how in ("to", "after_simulate", "after_simulate+resimulate"):
                    d.to(tdtype)
                elif how == "method":
                    {"f16": d.half, "bf16": d.bfloat16, "f32": d.float, "f64": d.double}[dt]()
                elif how == "kw":
                    d.to(dtype=tdtype)
                elif how == "prim_to":
                    stock.to(tdtype)
            if how in ("to", "method", "kw", "prim_to"):
                cast()
            if case["listed"]:
                d.list(_listed_pricer, cost=1e-4)
            try:
                d.simulate(n_paths=case["n_paths"])
                if how in ("after_simulate", "after_simulate+resimulate"):
                    cast()
                if how == "after_simulate+resimulate":
                    d.simulate(n_paths=case["n_paths"])
            except (RuntimeError, NotImplementedError) as e:
                return ("backend", str(e)[:80])
            if case["ambient_eval"] is not None:
                torch.set_default_dtype(tdt(torch, case["ambient_eval"]))
            spot = stock.spot
            want = spot.dtype
            n_steps = spot.size(1)
            step = n_steps - 1 if case["step"] == "last" else min(case["step"], n_steps - 1)
            out = {}
            for name in FB_FEATS:
                if name == "spot" and not case["listed"]:
                    continue
                if name in ("volatility", "variance"):
                    try:
                        getattr(stock, name)
                    except AttributeError:
                        continue
                res = out[name] = {}

                def rec(key, fn):
                    try:
                        res[key] = short(torch, fn().dtype)
                    except Exception as e:  # noqa
                        k = isys_kind_of_error(e)
                        res[key] = ["backend", k[1]] if k[0] == "backend" else ["error", k[1] + ": " + str(e)[:120]]
                f = fb_feature(name, d, case["threshold"]).of(d)
                rec("get(None)", lambda: f.get(None))
                rec("get(i)", lambda: f.get(step))
                rec("get(0)", lambda: f.get(0))
                variants = [False] + ([True] if name in case["prev_hedge"] else [])
                for sd in variants:
                    inputs = [fb_feature(name, d, case["threshold"]), isys_feature(case["companion"])] + (["prev_hedge"] if sd else [])
                    h = Hedger(Naked() if case["model"] == "naked" else _ParamFree(), inputs)
                    tag = "hedger+prev_hedge:" if sd else "hedger:"
                    rec(tag + "hedge", lambda: h.compute_hedge(d))
                    if not sd:
                        rec(tag + "input(None)", lambda: h.get_input(d, None))
                        rec(tag + "input(i)", lambda: h.get_input(d, step))
                    else:
                        # (what the model of a state-dependent hedger is fed with: prev_hedge reads the hedger's state)
                        rec(tag + "input(i)", lambda: h.inputs.of(d, h).get(step))
                    rec(tag + "portfolio", lambda: h.compute_portfolio(d))
                    rec(tag + "pl", lambda: h.compute_pl(d))
            return ("ok", short(torch, want), out)
    finally:
        torch.set_default_dtype(torch.float32)


def fb_isys_scenario(g, ambient, dt):
    """the same class for the system model: every feature of the model's vocabulary (get(None)) and a hedger on each, on an instrument of
    every dtype under both ambient defaults, with a change of the ambient default between the simulation and the evaluation"""
    stocks = ["BrownianStock", "HestonStock", "MertonJumpStock", "KouJumpStock", "RoughBergomiStock", "LocalVolatilityStock"]
    m = g.choice([2, 3, 5])
    by_init = dt is None or g.chance(0.5)
    scen = {"ambient": ambient, "prims": [[g.choice(stocks), dt if by_init else None]],
            "derivs": [[g.choice(FB_DERIVS), 0, m], ["EuropeanOption", 0, m]], "cmds": [], "forms": []}

    def add(c, form=None):
        scen["cmds"].append(c)
        scen["forms"].append(form)
    if not by_init:
        add(["deriv_to", g.choice([0, 1]), ["dtype", dt]], g.choice(["to", "method", "kw"]))
    add(["list", 1, "spot"], "intrinsic")
    add(["deriv_sim", g.choice([0, 1]), g.choice([1, 2, 3]), isys_steps(m / 250)])
    if g.chance(0.5):
        add(["default", g.choice(["f32", "f64"])])
    for name in ISYS_FEATS:
        k = g.choice([0, 1])
        add(["ask", ["feature", k, name]])
        if name != "prev_hedge":
            add(["ask", [g.choice(["hedge", "pl", "portfolio"]), k,
                         {"model": "naked", "feats": [name, g.choice(["moneyness", "zeros", "time_to_maturity"])], "hedge": None}]])
    # loss and price on the same grid (they simulate again themselves; nothing follows)
    for form in ("loss", "price"):
        add(["run", g.choice([0, 1]), ISYS_NAKED3, g.choice([1, 2, 3]), isys_steps(m / 250), g.choice([1, 2])], form)
    return scen


# ==================================================================================================
# the SYSTEM model (lean/PfVerif/Model/InstrSys.lean, driver op "instr_sys"): primaries, derivatives over them, listed
# derivatives, hedgers; after every operation the declared dtype, every buffer's dtype / shape / tensor identity and the dtype /
# shape / error kind of payoff, features, listed price, hedge, portfolio, P&L, loss and price are compared exactly.

ISYS_KIND = {"BrownianStock": "flat", "MertonJumpStock": "flat", "KouJumpStock": "flat", "HestonStock": "stochVar",
             "RoughBergomiStock": "stochVar", "LocalVolatilityStock": "localVol", "CIRRate": "rate", "VasicekRate": "rate"}
ISYS_SIM = {"flat": ["spot"], "stochVar": ["spot", "variance"], "localVol": ["spot", "volatility"], "rate": ["spot"]}
ISYS_DERIV = {"EuropeanOption": "arith", "LookbackOption": "arith", "EuropeanBinaryOption": "indicator", "AmericanBinaryOption": "indicator"}
ISYS_FEATS = ["moneyness", "log_moneyness", "time_to_maturity", "underlier_spot", "underlier_log_spot", "spot", "volatility", "variance",
              "zeros", "ones", "empty", "barrier", "max_moneyness", "max_log_moneyness", "prev_hedge"]
ISYS_DT = 1 / 250


def isys_steps(horizon, dt=ISYS_DT):
    """number of time steps of a simulation over `horizon` (the grid rule; C13 owns it)"""
    import math
    return math.ceil(horizon / dt - 1e-8) + 1


def isys_kind_of_error(e):
    """('err', kind) | ('backend', msg): kind of a Python exception as the model names it"""
    msg = str(e)
    if isinstance(e, NotImplementedError):
        return ("backend", msg[:80])
    if isinstance(e, RecursionError):
        return ("err", "recursion_error")
    if isinstance(e, IndexError):
        return ("err", "index_error")
    if isinstance(e, RuntimeError):
        if "same dtype" in msg:
            return ("err", "runtime_error")          # F.linear on mismatching dtypes
        if "not implemented for" in msg or "not supported" in msg.lower():
            return ("backend", msg[:80])
        return ("err", "runtime_error")
    if isinstance(e, TypeError):
        return ("err", "type_error")
    if isinstance(e, ValueError):
        return ("err", "value_error")
    if isinstance(e, AttributeError):
        return ("err", "attribute_error")
    if isinstance(e, KeyError):
        return ("err", "key_error")
    return ("err", "other:" + type(e).__name__)


def isys_feature(name):
    import pfhedge.features.features as F
    return {"moneyness": F.Moneyness, "log_moneyness": F.LogMoneyness, "time_to_maturity": F.TimeToMaturity,
            "underlier_spot": F.UnderlierSpot, "underlier_log_spot": F.UnderlierLogSpot, "spot": F.Spot,
            "volatility": F.Volatility, "variance": F.Variance, "zeros": F.Zeros, "ones": F.Ones, "empty": F.Empty,
            "barrier": lambda: F.Barrier(1.0, up=True), "max_moneyness": F.MaxMoneyness, "max_log_moneyness": F.MaxLogMoneyness,
            "prev_hedge": F.PrevHedge}[name]()


class ISysReal:
    """the real objects of a scenario and the execution of its commands"""

    def __init__(self, torch, I, scen):
        self.torch, self.I, self.scen = torch, I, scen
        torch.set_default_dtype(tdt(torch, scen["ambient"]))
        self.prims = [make(torch, I, cls, init) for cls, init in scen["prims"]]
        self.derivs = []
        for cls, ul, msteps in scen["derivs"]:
            self.derivs.append(getattr(I, cls)(self.prims[ul], maturity=msteps / 250))
        self.keep = []          # every tensor that ever was a buffer (keeps `id`s distinct)
        self.hedgers = {}       # scen["reuse_hedgers"]: the Hedger objects of the history, one per configuration (see _hedger)

    # ---- observation
    def observe(self):
        torch = self.torch
        prims, objs = [], []
        for p in self.prims:
            nb = list(p.named_buffers())
            self.keep.extend(b for _, b in nb)
            prims.append({"declared": None if p.dtype is None else short(torch, p.dtype),
                          "buffers": [[n, short(torch, b.dtype), list(b.shape)] for n, b in nb]})
            objs.append({n: b for n, b in nb})
        return {"prims": prims, "listed": [bool(d.is_listed) for d in self.derivs],
                "ambient": short(torch, torch.get_default_dtype())}, objs

    # ---- operations
    def _target(self, t, form):
        torch, I = self.torch, self.I
        if t[0] == "dtype":
            return (torch.device("cpu"),) if t[1] is None else (tdt(torch, t[1]),)
        if t[0] == "tensor":
            return (torch.zeros(1, dtype=tdt(torch, t[1])),)
        if t[0] == "prim":
            return (self.prims[t[1]],)
        if t[0] == "deriv":
            return (self.derivs[t[1]],)
        return (I.BrownianStock(dtype=tdt(torch, t[1])),)

    def _to(self, obj, t, form):
        torch = self.torch
        if t[0] == "dtype" and t[1] in ("f16", "bf16", "f32", "f64") and form == "method":
            {"f16": obj.half, "bf16": obj.bfloat16, "f32": obj.float, "f64": obj.double}[t[1]]()
        elif t[0] == "dtype" and t[1] is not None and form == "kw":
            obj.to(dtype=tdt(torch, t[1]))
        else:
            obj.to(*self._target(t, form))

    def _pricer(self, buf, form):
        if buf == "spot" and form == "intrinsic":
            return _listed_pricer
        return lambda d: d.ul().get_buffer(buf) * 0.5 + 0.25

    def apply(self, c, form=None):
        torch = self.torch
        try:
            k = c[0]
            if k == "prim_to":
                self._to(self.prims[c[1]], c[2], form)
            elif k == "deriv_to":
                self._to(self.derivs[c[1]], c[2], form)
            elif k == "prim_sim":
                self.prims[c[1]].simulate(n_paths=c[2], time_horizon=(c[3] - 1) / 250)
            elif k == "deriv_sim":
                self.derivs[c[1]].simulate(n_paths=c[2])
            elif k == "prim_reg":
                self.prims[c[1]].register_buffer(c[2], torch.ones(*c[4], dtype=tdt(torch, c[3])))
            elif k == "list":
                self.derivs[c[1]].list(self._pricer(c[2], form), cost=1e-4)
            elif k == "delist":
                self.derivs[c[1]].delist()
            elif k == "default":
                torch.set_default_dtype(tdt(torch, c[1]))
            else:
                raise InternalError(f"unknown command {c}")
            return ("ok", None)
        except InternalError:
            raise
        except Exception as e:  # noqa
            return isys_kind_of_error(e)

    # ---- queries
    def _refs(self, k, cfg):
        if cfg["hedge"] is None:
            return None, 1
        return [self.prims[r[1]] if r[0] == "prim" else self.derivs[r[1]] for r in cfg["hedge"]], len(cfg["hedge"])

    def _hedger(self, cfg, H):
        """the hedger of a query.  The model's answers depend on the instruments and the configuration only; with scen["reuse_hedgers"]
        the real side keeps ONE Hedger object per configuration alive over the whole history (as one does with a fitted hedger), so the
        state a hedger carries from one use to the next (`prev_output`, the bound features) sees every cast / re-simulation in between.
        (A linear layer without an explicit dtype is created in the ambient default: the ambient of its creation is part of the key.)"""
        if not self.scen.get("reuse_hedgers"):
            return self._new_hedger(cfg, H)
        key = json.dumps(cfg, sort_keys=True) + "|" + short(self.torch, self.torch.get_default_dtype())
        if key not in self.hedgers:
            self.hedgers[key] = self._new_hedger(cfg, H)
        return self.hedgers[key]

    def _new_hedger(self, cfg, H):
        from pfhedge.nn import Hedger, Naked
        torch = self.torch
        feats = [isys_feature(n) for n in cfg["feats"]]
        if cfg["model"] == "naked":
            m = Naked(H)
        else:
            m = torch.nn.Linear(sum(H if n == "prev_hedge" else 1 for n in cfg["feats"]), H)
        h = Hedger(m, feats)
        if cfg["model"] != "naked" and cfg["model"][1] is not None:
            h.to(tdt(torch, cfg["model"][1]))
        return h

    def _tensor(self, t):
        return ("tensor", short(self.torch, t.dtype), list(t.shape))

    def ask(self, q):
        torch = self.torch
        k = q[0]
        d = self.derivs[q[1]]
        if k in ("dtype", "payoff", "listed"):
            fn = {"dtype": lambda: d.dtype, "payoff": d.payoff, "listed": lambda: d.spot}[k]
        elif k == "feature":
            ft = isys_feature(q[2]).of(d)
            fn = lambda: ft.get(None)       # noqa
        elif k in ("hedge", "pl", "portfolio"):
            refs, H = self._refs(q[1], q[2])
            h = self._hedger(q[2], H)
            fn = {"hedge": lambda: h.compute_hedge(d, hedge=refs), "pl": lambda: h.compute_pl(d, hedge=refs),
                  "portfolio": lambda: h.compute_portfolio(d, hedge=refs)}[k]
        else:
            raise InternalError(f"unknown query {q}")
        try:
            with torch.no_grad():
                v = fn()
        except Exception as e:  # noqa
            return isys_kind_of_error(e)
        if k == "dtype":
            return ("dtype", None if v is None else short(torch, v))
        return self._tensor(v)

    def run(self, c, form):
        torch = self.torch
        d = self.derivs[c[1]]
        refs, H = self._refs(c[1], c[2])
        h = self._hedger(c[2], H)
        try:
            with torch.no_grad():
                if form == "price":
                    v = h.price(d, hedge=refs, n_paths=c[3], n_times=c[5])
                else:
                    v = h.compute_loss(d, hedge=refs, n_paths=c[3], n_times=c[5], enable_grad=False)
        except Exception as e:  # noqa
            return isys_kind_of_error(e)
        return self._tensor(v)


def isys_run_real(torch, I, scen):
    """execute a scenario on the real objects: [(kind, outcome, observation, objects)] per command"""
    try:
        rs = ISysReal(torch, I, scen)
    except TypeError:
        torch.set_default_dtype(torch.float32)
        return None, None
    obs0 = rs.observe()
    out = []
    try:
        for c, form in zip(scen["cmds"], scen["forms"]):
            if c[0] == "ask":
                out.append(("ask", rs.ask(c[1]), None, None))
            elif c[0] == "run":
                r = rs.run(c, form)
                o, ob = rs.observe()
                out.append(("run", r, o, ob))
            else:
                r = rs.apply(c, form)
                o, ob = rs.observe()
                out.append(("op", r, o, ob))
    finally:
        torch.set_default_dtype(torch.float32)
    return obs0, out


def isys_observe_single(torch, inst, keep):
    """observation of a system that consists of one primary (used by harness/c11.py): (observation, tensor objects)"""
    nb = list(inst.named_buffers())
    keep.extend(b for _, b in nb)
    return ({"prims": [{"declared": None if inst.dtype is None else short(torch, inst.dtype),
                        "buffers": [[n, short(torch, b.dtype), list(b.shape)] for n, b in nb]}],
             "listed": [], "ambient": short(torch, torch.get_default_dtype())}, [{n: b for n, b in nb}])


def isys_request(scen):
    return {"op": "instr_sys", "ambient": scen["ambient"],
            "prims": [[ISYS_KIND[cls], init] for cls, init in scen["prims"]],
            "derivs": [[ul, ISYS_DERIV[cls]] for cls, ul, _ in scen["derivs"]],
            "cmds": scen["cmds"]}


def _isys_model_obs(st):
    return {"prims": [{"declared": p["declared"], "buffers": [[b[0], b[1], b[2]] for b in p["buffers"]]} for p in st["prims"]],
            "listed": [d["listed"] is not None for d in st["derivs"]], "ambient": st["ambient"]}


def isys_compare(ctx, scen, real, mo, tag="instr_sys"):
    """compare the real execution with the model's replies, exactly; returns the number of compared answers"""
    obs0, out = real

    def _dis(tag_, case_, impl_, model_):
        ctx.stats["instr_sys:disagreements"] += 1
        ctx.disagree(tag_, case_, impl_, model_)
    case = {k: scen[k] for k in ("ambient", "prims", "derivs")} | {"cmds": scen["cmds"], "forms": scen["forms"]}
    if scen.get("reuse_hedgers"):
        case["reuse_hedgers"] = True
    if "ok" not in mo["init"]:
        _dis(tag, case, "constructed", mo["init"])
        return 0
    st_m = mo["init"]["ok"]
    (o_prev, objs_prev) = obs0
    if _isys_model_obs(st_m) != o_prev:
        _dis(tag, case | {"step": "init"}, o_prev, _isys_model_obs(st_m))
        return 0
    compared = 0
    last_sim = [None] * len(scen["prims"])          # what the harness knows: shape of the last successful simulate per primary
    for i, ((kind, r, o, objs), mm, c) in enumerate(zip(out, mo["steps"], scen["cmds"])):
        c2 = case | {"step": i, "command": c}
        mr = mm["r"]
        if r[0] == "backend":
            ctx.stats["backend_unsupported"] += 1
            if kind == "ask":
                continue
            break               # an operation the CPU backend cannot do in this dtype: the history ends here
        if r == ("err", "recursion_error"):
            break               # (Vasicek defect, reported by the predicate part)
        # ---- the reply
        if r[0] == "ok":
            same = "done" in mr
        elif r[0] == "err":
            same = mr.get("err") == r[1]
        elif r[0] == "dtype":
            same = "dtype" in mr and mr["dtype"] == r[1]
        else:
            same = "tensor" in mr and mr["tensor"]["dtype"] == r[1] and (r[2] is None or mr["tensor"]["shape"] == r[2])
        nonfloat = any(b[1] not in ("f16", "bf16", "f32", "f64") for p in o_prev["prims"] for b in p["buffers"])
        if kind != "op" and nonfloat and not (kind == "ask" and c[1][0] == "dtype"):
            ctx.stats["isys:nonfloating_buffer_skipped"] += 1      # outside the model's domain (see Model/InstrSys.lean header)
            same = True if kind == "ask" else same
            if kind == "run":
                break
        else:
            compared += 1
            ctx.stats[f"isys:{c[0] if c[0] != 'ask' else 'ask_' + c[1][0]}:{r[0] if r[0] != 'err' else r[1]}"] += 1
        if not same:
            _dis(tag, c2, list(r), mr)
            break
        if kind == "ask":
            continue
        # ---- the state after an operation / a run
        st_m2 = mm["state"]
        if _isys_model_obs(st_m2) != o:
            _dis(tag, c2 | {"what": "state"}, o, _isys_model_obs(st_m2))
            break
        bad = None
        for pi, (pm_old, pm_new) in enumerate(zip(st_m["prims"], st_m2["prims"])):
            old = {b[0]: b for b in pm_old["buffers"]}
            for b in pm_new["buffers"]:
                if b[0] in old and b[0] in objs_prev[pi] and b[0] in objs[pi]:
                    same_obj = objs[pi][b[0]] is objs_prev[pi][b[0]]
                    model_same = (b[3] == old[b[0]][3] and b[1] == old[b[0]][1])
                    if same_obj != model_same:
                        bad = {"primary": pi, "buffer": b[0], "same_tensor_object": same_obj, "model_generation": [old[b[0]][3], b[3]],
                               "model_dtype": [old[b[0]][1], b[1]]}
            # the model's record of the last simulate against the harness's own
            if r[0] == "ok" and c[0] in ("prim_sim", "deriv_sim"):
                tgt = c[1] if c[0] == "prim_sim" else scen["derivs"][c[1]][1]
                if tgt == pi:
                    last_sim[pi] = [c[2], c[3]]
            if kind == "run" and scen["derivs"][c[1]][1] == pi and c[5] >= 1:
                last_sim[pi] = [c[3], c[4]]
            ls = pm_new["last_sim"]
            if (ls[0] if ls is not None else None) != last_sim[pi]:
                bad = {"primary": pi, "last_simulate_shape_model": ls, "harness": last_sim[pi]}
        if bad:
            _dis(tag, c2 | {"what": "buffer identity / generation"}, bad, "generation unchanged <=> same tensor object")
            break
        st_m, o_prev, objs_prev = st_m2, o, objs
    return compared


def _isys_cfg(g, scen, k, rich):
    """a hedger configuration for derivative k"""
    nd, npr = len(scen["derivs"]), len(scen["prims"])
    hedge = None
    if rich and g.chance(0.45):
        pool = [["prim", i] for i in range(npr)] + [["deriv", j] for j in range(nd)]
        hedge = [g.choice(pool) for _ in range(g.choice([1, 1, 2]))]
    nf = g.choice([1, 2, 2, 3])
    pool = ["moneyness", "log_moneyness", "time_to_maturity", "underlier_spot", "volatility", "variance", "zeros", "ones", "barrier",
            "max_moneyness", "prev_hedge", "prev_hedge", "spot", "underlier_log_spot", "max_log_moneyness"]
    feats = [g.choice(pool) for _ in range(nf)]
    model = g.weighted([("naked", 2), ("lin_none", 2), ("lin", 3)])
    model = "naked" if model == "naked" else ["linear", None if model == "lin_none" else g.choice(["f16", "bf16", "f32", "f64"])]
    return {"model": model, "feats": feats, "hedge": hedge}


def _isys_queries(g, scen, n, rich=True, pins=None):
    """`pins`: hedger configurations of the history that come back in several queries (with scen["reuse_hedgers"]: the same Hedger object)"""
    qs = []
    nd = len(scen["derivs"])
    for _ in range(n):
        k = g.randint(0, nd - 1)
        kind = g.weighted([("dtype", 1), ("payoff", 1.5), ("feature", 3), ("listed", 1.5), ("hedge", 3), ("pl", 2), ("portfolio", 1.5)])
        if kind in ("dtype", "payoff", "listed"):
            qs.append(["ask", [kind, k]])
        elif kind == "feature":
            qs.append(["ask", ["feature", k, g.choice(ISYS_FEATS)]])
        elif pins and g.chance(0.6):
            qs.append(["ask", [kind, k, g.choice(pins)]])
        else:
            qs.append(["ask", [kind, k, _isys_cfg(g, scen, k, rich)]])
    return qs


def _isys_pins(g, scen):
    """one or two hedger configurations that a history uses again and again; the first one is state-dependent (prev_hedge) with a model that
    nobody casts (Naked, or a linear layer in the ambient default dtype)"""
    pins = []
    for i in range(g.choice([1, 2])):
        cfg = _isys_cfg(g, scen, 0, True)
        if i == 0:
            if "prev_hedge" not in cfg["feats"]:
                cfg["feats"] = cfg["feats"][:2] + ["prev_hedge"]
            cfg["model"] = g.choice(["naked", "naked", ["linear", None]])
        pins.append(cfg)
    return pins


def isys_gen_scenario(g, length, nq):
    """a random system and a random history with queries after every operation"""
    fl = ["f16", "bf16", "f32", "f64"]
    stocks = ["BrownianStock", "HestonStock", "MertonJumpStock", "KouJumpStock", "RoughBergomiStock", "LocalVolatilityStock"]
    npr = g.choice([1, 1, 2])
    prims = [[g.choice(stocks), g.choice([None, None, "f32", "f64", "f16", "bf16"])] for _ in range(npr)]
    if g.chance(0.15):
        prims.append([g.choice(["CIRRate", "VasicekRate"]), g.choice([None, "f32", "f64"])])
    nstock = npr
    nd = g.choice([1, 2, 2, 3])
    derivs = [[g.choice(list(ISYS_DERIV)), g.randint(0, nstock - 1), g.choice([1, 2, 3, 3, 5])] for _ in range(nd)]
    scen = {"ambient": g.choice(["f32", "f32", "f64"]), "prims": prims, "derivs": derivs, "cmds": [], "forms": []}
    pins = None
    if g.chance(0.5):
        scen["reuse_hedgers"] = True
        pins = _isys_pins(g, scen)

    def add(c, form=None):
        scen["cmds"].append(c)
        scen["forms"].append(form)

    def target():
        t = g.weighted([("dtype", 5), ("none", 1), ("tensor", 1.5), ("prim", 1), ("deriv", 1), ("ext", 1), ("int", 0.6)])
        if t == "dtype":
            return ["dtype", g.choice(fl)]
        if t == "none":
            return ["dtype", None]
        if t == "tensor":
            return ["tensor", g.choice(fl + ["i64"])]
        if t == "prim":
            return ["prim", g.randint(0, len(prims) - 1)]
        if t == "deriv":
            return ["deriv", g.randint(0, nd - 1)]
        if t == "ext":
            return ["ext", g.choice(fl + [None])]
        return ["dtype", g.choice(["i64", "i32"])]
    for _ in range(length):
        k = g.weighted([("prim_to", 2), ("deriv_to", 3), ("prim_sim", 2), ("deriv_sim", 4), ("prim_reg", 1.2), ("list", 1.5), ("delist", 0.6),
                        ("default", 0.6), ("run", 1.0)])
        if k in ("prim_to", "deriv_to"):
            add([k, g.randint(0, (len(prims) if k == "prim_to" else nd) - 1), target()], g.choice(["to", "method", "kw"]))
        elif k == "prim_sim":
            i = g.randint(0, len(prims) - 1)
            # (generate_rough_bergomi needs at least two time steps: a horizon of zero is not simulated on it, as in harness/c11.py)
            add(["prim_sim", i, g.choice([1, 2, 3]), g.choice([2, 3, 4, 6] if prims[i][0] == "RoughBergomiStock" else [1, 2, 3, 4, 6])])
        elif k == "deriv_sim":
            j = g.randint(0, nd - 1)
            add(["deriv_sim", j, g.choice([1, 2, 3]), isys_steps(derivs[j][2] / 250)])
        elif k == "prim_reg":
            i = g.randint(0, len(prims) - 1)
            name = g.choice(["extra", "extra", "spot"] + ISYS_SIM[ISYS_KIND[prims[i][0]]])
            dt_ = g.choice(fl + ["f32", "f64"]) if g.chance(0.85) else "i64"
            add(["prim_reg", i, name, dt_, [g.choice([1, 2, 3]), g.choice([1, 2, 4, 4])]])
        elif k == "list":
            j = g.randint(0, nd - 1)
            buf = g.choice(["spot", "spot"] + ISYS_SIM[ISYS_KIND[prims[derivs[j][1]][0]]] + ["extra"])
            add(["list", j, buf], g.choice(["intrinsic", "affine"]))
        elif k == "delist":
            add(["delist", g.randint(0, nd - 1)])
        elif k == "default":
            add(["default", g.choice(["f32", "f64"])])
        else:
            j = g.randint(0, nd - 1)
            add(["run", j, g.choice(pins) if (pins and g.chance(0.5)) else _isys_cfg(g, scen, j, True), g.choice([1, 2, 3]),
                 isys_steps(derivs[j][2] / 250), g.choice([1, 1, 2, 3])], g.choice(["loss", "price"]))
        for q in _isys_queries(g, scen, nq, pins=pins):
            add(q)
    return scen


ISYS_NAKED3 = {"model": "naked", "feats": ["moneyness", "time_to_maturity", "zeros"], "hedge": None}


def isys_from_case(case, obs0, steps, snap0, ops):
    """one of the sequences of the predicate part (run_case), re-read as a history of a system: (scenario, real execution) in the
    format of isys_run_real.  Result dtypes the predicate part computed become queries (their shapes were not recorded)."""
    prim, listed = case["primary"], case["listed"]
    has_deriv = prim not in ("CIRRate", "VasicekRate")
    derivs = ([["EuropeanOption", 0, 3]] + ([["EuropeanOption", 0, 3]] if listed else [])) if has_deriv else []
    scen = {"ambient": case["ambient"], "prims": [[prim, case["init"]]], "derivs": derivs, "cmds": [], "forms": []}
    via_k = 1 if listed else 0
    lflags = [False, True] if listed else ([False] if has_deriv else [])

    def obs(o, snap, flags):
        return ({"prims": [{"declared": o["declared"], "buffers": [[n, d, snap["shapes"][n]] for n, d in o["buffers"]]}],
                 "listed": list(flags), "ambient": snap["ambient"]}, [snap["objs"]])
    real0 = obs(obs0, snap0, [False] * len(lflags))
    out = []

    def add(c, entry):
        scen["cmds"].append(c)
        scen["forms"].append(None)
        out.append(entry)
    prev = (obs0, snap0)
    if listed:
        o_, ob_ = obs(obs0, snap0, lflags)
        add(["list", 1, "spot"], ("op", ("ok", None), o_, ob_))
    for op, (st, o, extra) in zip(ops, steps):
        if op[0] == "to_cplx":
            continue
        via = case["via_derivative"] and has_deriv and op[0] in ("to", "method", "to_tensor", "to_inst", "simulate")
        if op[0] in ("to", "method"):
            c = ["deriv_to", via_k, ["dtype", op[1]]] if via else ["prim_to", 0, ["dtype", op[1]]]
        elif op[0] == "to_tensor":
            c = ["deriv_to", via_k, ["tensor", op[1]]] if via else ["prim_to", 0, ["tensor", op[1]]]
        elif op[0] == "to_inst":
            c = ["deriv_to", via_k, ["ext", op[1]]] if via else ["prim_to", 0, ["ext", op[1]]]
        elif op[0] == "simulate":
            c = ["deriv_sim", via_k, 2, isys_steps(3 / 250)] if via else ["prim_sim", 0, 2, isys_steps(3 / 250)]
        elif op[0] == "register":
            c = ["prim_reg", 0, op[1], op[2], [2, 4]]
        else:
            c = ["default", op[1]]
        snap = extra["_isys"]
        o_, ob_ = obs(o, snap, lflags)
        add(c, ("op", tuple(st), o_, ob_))
        if st[0] == "backend" or st == ("err", "recursion_error"):
            break
        if "results" in extra:
            res = extra["results"]
            qs = [("payoff", ["payoff", 0]), ("moneyness", ["feature", 0, "moneyness"]), ("ttm", ["feature", 0, "time_to_maturity"]),
                  ("hedge", ["hedge", 0, ISYS_NAKED3]), ("pl", ["pl", 0, ISYS_NAKED3])]
            if listed:
                lh = ISYS_NAKED3 | {"hedge": [["deriv", 1]]}
                qs += [("listed_price", ["listed", 1]), ("spot_feature", ["feature", 1, "spot"]),
                       ("portfolio_listed_hedge", ["portfolio", 0, lh]), ("pl_listed_hedge", ["pl", 0, lh])]
            for key, q in qs:
                if key in res:
                    add(["ask", q], ("ask", ("tensor", res[key], None), None, None))
        if "_isys_ensemble" in extra:
            ens = extra["ensemble"]
            for key, (o2, snap2) in zip(("loss", "price"), extra["_isys_ensemble"]):
                o_, ob_ = obs(o2, snap2, lflags)
                add(["run", 0, ISYS_NAKED3, 2, isys_steps(3 / 250), case["n_times"]], ("run", ("tensor", ens[key], None), o_, ob_))
    return scen, (real0, out)


ISYS_EXH_ALPHABET = [
    (["deriv_to", 0, ["dtype", "f64"]], "to"), (["deriv_to", 1, ["dtype", "f16"]], "method"), (["prim_to", 0, ["dtype", None]], "to"),
    (["deriv_sim", 0, 2, 4], None), (["deriv_sim", 1, 3, 3], None), (["prim_reg", 0, "extra", "i64", [2, 3]], None),
    (["list", 1, "spot"], "affine"), (["delist", 1], None), (["default", "f64"], None), (["prim_to", 0, ["deriv", 1]], "to"),
]
ISYS_EXH_END = [
    ["ask", ["dtype", 0]], ["ask", ["payoff", 0]], ["ask", ["feature", 1, "time_to_maturity"]], ["ask", ["feature", 0, "volatility"]],
    ["ask", ["listed", 1]],
    ["ask", ["hedge", 0, {"model": ["linear", None], "feats": ["moneyness", "volatility"], "hedge": None}]],
    ["ask", ["hedge", 0, {"model": ["linear", "f64"], "feats": ["moneyness", "prev_hedge"], "hedge": None}]],
    ["ask", ["pl", 0, {"model": "naked", "feats": ["moneyness", "time_to_maturity"], "hedge": [["deriv", 1]]}]],
    ["run", 1, {"model": ["linear", "f16"], "feats": ["log_moneyness"], "hedge": None}, 2, 3, 2],
    ["ask", ["payoff", 1]],
]


ISYS_PREV = {"model": "naked", "feats": ["moneyness", "prev_hedge"], "hedge": None}


def isys_exhaustive(depth, letters, reuse=False, battery=True):
    """all sequences of `depth` operations over the given letters of ISYS_EXH_ALPHABET on: a Heston stock (dtype None / float64), a European option
    (maturity 3/250) and a lookback option (maturity 2/250) on it; two cheap queries after every operation, a battery at the end.
    `reuse`: one state-dependent, parameter-free hedger (Naked on moneyness and prev_hedge) lives through the whole history and computes the
    hedge of the European option after every operation"""
    scens = []
    for init in (None, "f64"):
        for seq in itertools.product([ISYS_EXH_ALPHABET[i] for i in letters], repeat=depth):
            scen = {"ambient": "f32", "prims": [["HestonStock", init]], "derivs": [["EuropeanOption", 0, 3], ["LookbackOption", 0, 2]],
                    "cmds": [], "forms": []}
            if reuse:
                scen["reuse_hedgers"] = True
            for c, form in seq:
                scen["cmds"] += [c, ["ask", ["dtype", 1]], ["ask", ["payoff", 0]]]
                scen["forms"] += [form, None, None]
                if reuse:
                    scen["cmds"].append(["ask", ["hedge", 0, ISYS_PREV]])
                    scen["forms"].append(None)
            if battery:
                scen["cmds"] += ISYS_EXH_END
                scen["forms"] += [None] * 8 + ["loss", None]
            scens.append(scen)
    return scens


# ==================================================================================================
# EVERY criterion the library offers (and a user criterion relying on the inherited HedgeLoss.cash) on the grid ambient default x
# instrument dtype: criterion(pl), criterion(pl, target), criterion.cash(pl) (1-D and (N, 2) samples), Hedger.compute_loss and
# Hedger.price are in the instruments' dtype.  Some criteria run an internal root search (QuadraticCVaR, the default cash) whose
# auxiliary tensors are created at call time in the AMBIENT default dtype: the class "instruments narrower than the ambient
# default" (float32 instruments under a float64 default) was not evaluated with them before.
# The hedger is parameter-free; the derivative carries a clause that turns it into a short position plus one unit of cash, so the
# P&L is positive (IsoelasticLoss is defined on positive wealth).  A criterion that has a parameter of its own (OCE.w) is cast to the
# instruments' dtype, as one does with a model that has parameters.

CRIT_NAMES = ["EntropicRiskMeasure", "EntropicLoss", "IsoelasticLoss", "IsoelasticLoss:log", "ExpectedShortfall", "QuadraticCVaR", "OCE",
              "user:ExpU"]


def _oce_utility(x):
    return 1 - (-x).exp()


def _short_plus_cash(derivative, payoff):
    return -payoff - 1.0


def crit_make(name, par):
    from pfhedge.nn import EntropicRiskMeasure, EntropicLoss, IsoelasticLoss, ExpectedShortfall, QuadraticCVaR
    from pfhedge.nn.modules.loss import OCE
    if name == "EntropicRiskMeasure":
        return EntropicRiskMeasure(par["a"])
    if name == "EntropicLoss":
        return EntropicLoss(par["a"])
    if name == "IsoelasticLoss":
        return IsoelasticLoss(0.5)
    if name == "IsoelasticLoss:log":
        return IsoelasticLoss(1.0)
    if name == "ExpectedShortfall":
        return ExpectedShortfall(par["p"])
    if name == "QuadraticCVaR":
        return QuadraticCVaR(par["lam"])
    if name == "OCE":
        return OCE(_oce_utility)
    return _ExpU()


def crit_gen_case(g, ambient, dt, name, grid=True):
    # (the ambient default changes between simulation and evaluation only for instruments that declare a dtype: compute_loss / price
    #  simulate again, and an instrument without a declared dtype would legitimately follow the new default)
    stocks = ["BrownianStock", "HestonStock", "MertonJumpStock", "KouJumpStock", "LocalVolatilityStock"]
    how = g.choice(["init", "to", "method", "kw", "prim_to", "after_simulate"]) if dt is not None else None
    return {"criterion_battery": True, "criterion": name, "params": {"a": g.choice([0.5, 1.0, 2.0]), "p": g.choice([0.1, 0.3, 0.5, 1.0]),
                                                                      "lam": g.choice([1.0, 2.0, 10.0])},
            "hedger": g.choice(["naked", "naked", "black_scholes", "whalley_wilmott"]), "primary": g.choice(stocks), "dtype": dt, "cast": how,
            "ambient": ambient, "ambient_eval": None if (grid or dt is None) else g.choice([None, "f32", "f64"]), "n_paths": g.choice([4, 8, 9]),
            "maturity_steps": g.choice([2, 3, 5]), "n_times": g.choice([1, 2])}


def run_criterion_case(torch, I, case):
    """-> ('ok', instrument dtype, {quantity: dtype | ['backend', msg] | ['error', kind]}) | ('backend', msg)"""
    from pfhedge.nn import Hedger, Naked, BlackScholes, WhalleyWilmott, HedgeLoss
    torch.set_default_dtype(tdt(torch, case["ambient"]))
    dt, how = case["dtype"], case["cast"]
    tdtype = tdt(torch, dt)
    try:
        with torch.no_grad():
            kw = {"dtype": tdtype} if how == "init" else {}
            prim = case["primary"] if case["hedger"] == "naked" else "BrownianStock"
            if prim == "LocalVolatilityStock":
                stock = I.LocalVolatilityStock(lambda t, s: torch.full_like(s, 0.2), cost=1e-4, **kw)
            else:
                stock = getattr(I, prim)(cost=1e-4, **kw)
            d = I.EuropeanOption(stock, maturity=case["maturity_steps"] / 250)
            d.add_clause("short_plus_cash", _short_plus_cash)

            def cast():
                if how in ("to", "after_simulate"):
                    d.to(tdtype)
                elif how == "method":
                    {"f16": d.half, "bf16": d.bfloat16, "f32": d.float, "f64": d.double}[dt]()
                elif how == "kw":
                    d.to(dtype=tdtype)
                elif how == "prim_to":
                    stock.to(tdtype)
            if how in ("to", "method", "kw", "prim_to"):
                cast()
            try:
                d.simulate(n_paths=case["n_paths"])
                if how == "after_simulate":
                    cast()
            except (RuntimeError, NotImplementedError) as e:
                return ("backend", str(e)[:80])
            crit = crit_make(case["criterion"], case["params"])
            want = stock.spot.dtype
            if any(True for _ in crit.parameters()):
                crit.to(want)
            if case["hedger"] == "naked":
                h = Hedger(Naked(), ["moneyness", "time_to_maturity"], criterion=crit)
            else:
                m = (BlackScholes if case["hedger"] == "black_scholes" else WhalleyWilmott)(d)
                h = Hedger(m, m.inputs(), criterion=crit)
            if case["ambient_eval"] is not None:
                torch.set_default_dtype(tdt(torch, case["ambient_eval"]))
            res = {}

            def rec(key, fn):
                try:
                    res[key] = short(torch, fn().dtype)
                except Exception as e:  # noqa
                    k = isys_kind_of_error(e)
                    res[key] = ["backend", k[1]] if k[0] == "backend" else ["error", k[1] + ": " + str(e)[:120]]
            half = want in (torch.float16, torch.bfloat16)
            # (a root search to the absolute precision 1e-6 cannot terminate in half precision: as above, the searches are left to
            #  float32 / float64 instruments)
            search_cash = type(crit).cash is HedgeLoss.cash
            search_loss = case["criterion"] == "QuadraticCVaR"
            try:
                pl = h.compute_pl(d)
            except (RuntimeError, NotImplementedError) as e:
                return ("backend", str(e)[:80])
            res["pl"] = short(torch, pl.dtype)
            pl2 = torch.stack([pl, pl * 0.5 + 0.25], dim=-1)
            if not (half and search_loss):
                rec("loss", lambda: crit(pl))
                rec("loss:target", lambda: crit(pl + 1.0, torch.ones_like(pl)))
                rec("loss:2d", lambda: crit(pl2))
                rec("compute_loss", lambda: h.compute_loss(d, n_paths=case["n_paths"], n_times=case["n_times"], enable_grad=False))
            if not (half and (search_loss or search_cash)):
                rec("cash", lambda: crit.cash(pl))
                rec("cash:2d", lambda: crit.cash(pl2))
                rec("price", lambda: h.price(d, n_paths=case["n_paths"], n_times=case["n_times"]))
            res["payoff_after"] = short(torch, d.payoff().dtype)
            return ("ok", short(torch, want), res)
    finally:
        torch.set_default_dtype(torch.float32)


# ==================================================================================================
# VALUES, not labels: "subsequent simulations are produced in the declared dtype".  register_buffer casts whatever simulate() hands it,
# so a simulation that ran in another precision still carries the right dtype label.  What tells them apart is the values:
#  - a noisy series that was produced in float64 is not float32-representable throughout (x.float().double() == x for ALL entries of the
#    simulated steps means single-precision numbers were widened afterwards);
#  - an instrument that declares a dtype narrower than float64 computes in that dtype whatever the ambient default is: seed for seed its
#    buffers are those of a FRESH instrument of the same class constructed with that dtype under the float32 default.  The scalar
#    coefficients (dt, sqrt(dt), kappa, ...) are made tensors in the ambient default and rounded to the computation dtype afterwards, which
#    moves them by an ulp; the comparison therefore allows VAL_NARROW_ULPS ulps of the declared dtype relative to the largest entry of the
#    series.  (The random streams of torch.randn in float32 and float64 are unrelated for >= 16 draws, so a series that was produced in
#    the other dtype differs by the size of the noise, ~1e-2.)  torch.distributions draws the Kou jump sizes in the ambient default dtype,
#    so for that class the random stream itself follows the ambient default and the seed-for-seed comparison across ambients says nothing.
#  - a float32 instrument under the float64 default (every class) does not hold, throughout, the float64 run of the same seed rounded to
#    float32 (within 2 ulps: the initial state goes through the declared dtype first).
# Histories: the dtype is declared by the constructor, by a cast (all forms, directly / through a derivative) before or after an earlier
# simulation in another dtype, or not at all (ambient default); the last simulation runs directly or through the derivative.

VAL_N_PATHS, VAL_STEPS = 8, 10
VAL_STREAM_FOLLOWS_AMBIENT = ("KouJumpStock",)
VAL_NARROW_ULPS = 32


def val_make(torch, I, prim, dtype):
    kw = {"dtype": tdt(torch, dtype)}
    if prim == "LocalVolatilityStock":
        return I.LocalVolatilityStock(lambda t, s: 0.2 + 0.1 * (s - 1.0).tanh() + 0.05 * t, **kw)
    return getattr(I, prim)(**kw)


def val_gen_case(g, prim, ambient, final, kind):
    """kind: 'init' (declared by the constructor) | 'recast' (simulate in another dtype, cast, simulate) | 'random'"""
    fl = ["f16", "bf16", "f32", "f64"]
    has_deriv = prim not in ("CIRRate", "VasicekRate")
    forms = ["to", "method", "kw", "to_tensor"] + (["deriv_to", "deriv_method"] if has_deriv else [])
    ops = []
    if kind == "init" or final is None:
        init = final
        if final is None and kind != "init":
            ops = [["simulate"]]
    elif kind == "recast":
        other = "f32" if final == "f64" else "f64"
        init = g.choice([None, other])
        ops = [["simulate"], [g.choice(forms), other], ["simulate"], [g.choice(forms), final]]
    else:
        init = g.choice([None, None] + fl)
        for _ in range(g.randint(0, 3)):
            k = g.weighted([("cast", 3), ("simulate", 2), ("default", 0.7), ("device", 0.5)])
            ops.append([g.choice(forms), g.choice(["f32", "f64", "f64", g.choice(fl)])] if k == "cast" else
                       ["default", g.choice(["f32", "f64"])] if k == "default" else ["to_device"] if k == "device" else ["simulate"])
        ops.append([g.choice(forms), final])
    return {"value_battery": True, "primary": prim, "ambient": ambient, "init": init, "ops": ops, "declares": final,
            "last_simulate": g.choice(["direct", "derivative"]) if has_deriv else "direct", "seed": g.randint(0, 2 ** 31 - 1)}


def _val_simulate(inst, deriv, through):
    if through:
        deriv.simulate(n_paths=VAL_N_PATHS)
    else:
        inst.simulate(n_paths=VAL_N_PATHS, time_horizon=VAL_STEPS / 250)


def run_value_case(torch, I, case):
    """-> ('ok', declared, ambient at the end, {buffer: tensor}) | ('backend', msg) | ('error', msg)"""
    prim = case["primary"]
    torch.set_default_dtype(tdt(torch, case["ambient"]))
    try:
        inst = val_make(torch, I, prim, case["init"])
        deriv = I.EuropeanOption(inst, maturity=VAL_STEPS / 250) if prim not in ("CIRRate", "VasicekRate") else None
        try:
            for op in case["ops"]:
                if op[0] == "simulate":
                    _val_simulate(inst, deriv, False)
                elif op[0] == "default":
                    torch.set_default_dtype(tdt(torch, op[1]))
                elif op[0] == "to_device":
                    inst.to(torch.device("cpu"))
                else:
                    tgt = deriv if op[0].startswith("deriv_") else inst
                    form = op[0].replace("deriv_", "")
                    if form == "method":
                        {"f16": tgt.half, "bf16": tgt.bfloat16, "f32": tgt.float, "f64": tgt.double}[op[1]]()
                    elif form == "kw":
                        tgt.to(dtype=tdt(torch, op[1]))
                    elif form == "to_tensor":
                        tgt.to(torch.zeros(1, dtype=tdt(torch, op[1])))
                    else:
                        tgt.to(tdt(torch, op[1]))
            torch.manual_seed(case["seed"])
            _val_simulate(inst, deriv, case["last_simulate"] == "derivative")
        except RecursionError:
            return ("error", "recursion_error")
        except Exception as e:  # noqa
            k = isys_kind_of_error(e)
            msg = str(e)
            if k[0] == "backend" or "Half" in msg or "BFloat16" in msg:
                return ("backend", msg[:80])
            return ("error", k[1] + ": " + msg[:160])
        return ("ok", None if inst.dtype is None else short(torch, inst.dtype), short(torch, torch.get_default_dtype()),
                {n: b.detach().clone() for n, b in inst.named_buffers()})
    finally:
        torch.set_default_dtype(torch.float32)


def val_reference(torch, I, prim, dtype, seed, ambient="f32"):
    """the simulation of a fresh instrument constructed with `dtype` under the ambient default `ambient`, same seed: {buffer: tensor} | None"""
    torch.set_default_dtype(tdt(torch, ambient))
    try:
        inst = val_make(torch, I, prim, dtype)
        torch.manual_seed(seed)
        inst.simulate(n_paths=VAL_N_PATHS, time_horizon=VAL_STEPS / 250)
        return {n: b.detach().clone() for n, b in inst.named_buffers()}
    except Exception:  # noqa
        return None
    finally:
        torch.set_default_dtype(torch.float32)


def check(ctx):
    torch, pfhedge = import_impl()
    import pfhedge.instruments as I
    g = ctx.gen
    ctx.lean_gate()
    cases = []
    # exhaustive over a small alphabet to bounded depth on BrownianStock and HestonStock
    depth = 3 if ctx.tier == "quick" else 4
    alpha = [["to", "f64"], ["to", "f16"], ["to", None], ["simulate", None], ["register", "extra", "i64"], ["to_inst", None], ["default", "f64"]]
    for prim in (["BrownianStock"] if ctx.tier == "quick" else ["BrownianStock", "HestonStock"]):
        for init in (None, "f64"):
            for seq in itertools.product(alpha, repeat=depth):
                ops = [(["simulate", PRIMS[prim]] if o[0] == "simulate" else list(o)) for o in seq]
                cases.append((prim, init, "f32", ops, False, False, None))
    ctx.extra["exhaustive_depth"] = depth
    ctx.extra["exhaustive_sequences"] = len(cases)
    nrand = 1500 if ctx.tier == "quick" else 6000
    for _ in range(nrand):
        prim = g.choice(list(PRIMS))
        init = g.choice([None, None, "f32", "f64", "f16", "bf16", "i64", g.choice(list(CPLX))])
        amb = g.choice(["f32", "f32", "f64"])
        ln = g.randint(1, 12 if ctx.tier == "quick" else 40)
        cases.append((prim, init, amb, gen_ops(g, prim, ln), g.chance(0.4), g.chance(0.5), g.choice([None, 1, 2, 2, 3])))
    reqs, metas = [], []
    sys_records = []
    torch.manual_seed(ctx.seed % (2 ** 31))
    for prim, init, amb, ops, use_deriv, listed, n_times in cases:
        case, obs0, steps, snap0 = run_case(torch, I, ctx, prim, init, amb, ops, use_deriv, listed, n_times)
        if obs0 is not None and init not in CPLX:
            sys_records.append((case, obs0, steps, snap0, ops))
        ctx.case(case, nontrivial=len(ops) >= 2, tag="dt_seq")
        ctx.traces += 1
        ctx.stats[f"primary={prim}"] += 1
        ctx.stats[f"len={min(len(ops), 13)}"] += 1
        if case["listed"]:
            ctx.stats["listed_derivative"] += 1
        if init not in CPLX:
            # complex casts are expected to be rejected without a change of state: they are left out of the model's history
            reqs.append({"op": "dt_seq", "init": init, "ambient": amb, "ops": [to_model_op(o) for o in ops if o[0] != "to_cplx"]})
            metas.append((case, obs0, [s_ for o, s_ in zip(ops, steps) if o[0] != "to_cplx"]))
        # ---- predicate (independent of the model): the property statement
        if obs0 is None:
            if init in ("f16", "bf16", "f32", "f64", None):
                ctx.fail("constructing an instrument with a floating dtype raised TypeError", case, key="dtype:init-rejected")
            continue
        if init in ("i64", "i32"):
            ctx.fail("a non-floating dtype was accepted by the constructor", case, key="dtype:int-accepted")
        if init in CPLX:
            ctx.fail("a complex (non-floating) dtype was accepted by the constructor", case, key="dtype:complex-accepted:constructor",
                     detail={"declared": obs0["declared"]})
            continue
        amb_now = amb
        for i, (op, (st, o, extra)) in enumerate(zip(ops, steps)):
            c2 = case | {"step": i}
            if op[0] == "default" and st[0] == "ok":
                amb_now = op[1]
            if st[0] == "backend":
                ctx.stats["backend_unsupported"] += 1
                break
            if st == ("err", "recursion_error") and prim == "VasicekRate":
                ctx.fail("VasicekRate.simulate raises RecursionError (generate_vasicek recursion)", c2, key="vasicek:recursion")
                break
            if op[0] == "to_cplx":
                ctx.stats[f"to_cplx:{op[1]}"] += 1
                prev = obs0 if i == 0 else steps[i - 1][1]
                if st != ("err", "type_error"):
                    ctx.fail("a complex (non-floating) dtype was not rejected with TypeError by to()", c2, key=f"dtype:complex-accepted:{op[1]}",
                             detail={"form": op[1], "dtype": op[2], "outcome": list(st), "declared": o["declared"], "buffers": o["buffers"],
                                     "via_derivative": case["via_derivative"]})
                    break
                if o != prev:
                    ctx.fail("a rejected cast to a complex dtype changed the instrument's declared dtype or buffers", c2,
                             key="dtype:complex-rejected-state-changed", detail={"before": prev, "after": o})
                    break
                continue
            wants_int = (op[0] in ("to", "to_tensor", "to_inst") and op[1] in ("i64", "i32"))
            if wants_int and st[0] == "ok":
                ctx.fail("a non-floating dtype was accepted by to()", c2, key="dtype:int-accepted")
            if (not wants_int) and st[0] == "err":
                ctx.fail("a cast/simulate operation raised", c2, key=f"dtype:op-error:{op[0]}", detail=st[1])
                break
            if st[0] == "ok" and op[0] in ("to", "method", "to_tensor") and op[1] in ("f16", "bf16", "f32", "f64") and o["declared"] != op[1]:
                # to(dtype) / float() / double() / half() / bfloat16() / to(tensor): the instrument must now declare the requested dtype
                ctx.fail("after a cast the instrument does not declare the requested dtype", c2, key="dtype:cast-target",
                         detail={"requested": op[1], "form": op[0], "declared": o["declared"], "via_derivative": case["via_derivative"]})
                break
            if o["declared"] is not None:
                badb = [b for b in o["buffers"] if b[1] != o["declared"]]
                if badb:
                    ctx.fail("a buffer does not have the dtype the instrument declares", c2, key="dtype:buffer-mismatch",
                             detail={"declared": o["declared"], "buffers": o["buffers"]})
                    break
            if op[0] == "simulate" and st[0] == "ok":
                want = o["declared"] or amb_now
                prod = [b for b in o["buffers"] if b[0] in op[1]]
                if len(prod) != len(op[1]) or any(b[1] != want for b in prod):
                    ctx.fail("simulate() did not produce its buffers in the declared (or default) dtype", c2, key="dtype:simulate",
                             detail={"want": want, "buffers": o["buffers"]})
                    break
            if "alias" in extra:
                ctx.fail("a derivative's dtype differs from its underlier's", c2, key="dtype:derivative-alias")
            if "results" in extra:
                spot_dt = dict(map(tuple, o["buffers"]))["spot"]
                wrong = {k: v for k, v in extra["results"].items() if v != spot_dt}
                if wrong:
                    listed_keys = ("listed_price", "spot_feature", "spot_feature_step", "portfolio_listed_hedge", "pl_listed_hedge")
                    only_listed = all(k in listed_keys for k in wrong)
                    ctx.fail("a quantity computed from the instrument is not in the instrument's dtype" if not only_listed else
                             "the listed price of a derivative (or the Spot feature / hedge P&L built on it) is not in the dtype of its underlier",
                             c2, key="dtype:results:listed" if only_listed else "dtype:results",
                             detail={"instrument": spot_dt, "results": extra["results"]})
                    break
        else:
            # the whole history was consistent: loss / price at its end
            if steps and "ensemble" in steps[-1][2]:
                ens = steps[-1][2]["ensemble"]
                ctx.stats[f"ensemble:n_times={case['n_times']}:{ens['instrument']}"] += 1
                wrong = {k: v for k, v in ens.items() if v != ens["instrument"]}
                if wrong:
                    ctx.fail("Hedger.compute_loss / Hedger.price (averaged over n_times simulations) is not in the instrument's dtype", case,
                             key="dtype:loss-price:n_times>=2" if case["n_times"] >= 2 else "dtype:loss-price", detail=ens)
    try:
        outs = ctx.driver(reqs)
    except DriverBroken as e:
        ctx.ties_broken.append({"kind": "driver", "detail": str(e)[:1500]})
        outs = []
    for (case, obs0, steps), mo in zip(metas, outs):
        if obs0 is None:
            if "err" not in mo["init"]:
                ctx.disagree("dt_init", case, "type_error", mo["init"])
            continue
        if "ok" not in mo["init"] or mo["init"]["ok"]["declared"] != obs0["declared"]:
            ctx.disagree("dt_init", case, obs0, mo["init"])
            continue
        for i, ((st, o, extra), mm) in enumerate(zip(steps, mo["steps"])):
            if st[0] == "backend" or st == ("err", "recursion_error"):
                break        # backend limitation / Vasicek defect: stop comparing this history
            if st[0] == "err":
                if mm.get("err") != st[1]:
                    ctx.disagree("dt_seq", case | {"step": i}, st, mm)
                    break
                continue
            if "ok" not in mm or mm["ok"]["declared"] != o["declared"] or mm["ok"]["buffers"] != o["buffers"]:
                ctx.disagree("dt_seq", case | {"step": i}, o, mm)
                break
            if "results" in extra and mm["ok"]["result"] is not None:
                if any(v != mm["ok"]["result"] for v in extra["results"].values()):
                    ctx.disagree("dt_results", case | {"step": i}, extra["results"], mm["ok"]["result"])
                    break
    # ---------------- one hedger object over a history of casts of its instruments (predicate only; the system model replays the
    # same idea with scen["reuse_hedgers"] below)
    reuse_cases = []
    stocks = ["BrownianStock", "HestonStock", "MertonJumpStock", "KouJumpStock", "RoughBergomiStock", "LocalVolatilityStock"]
    # exhaustive: all sequences of two (quick) / three (thorough) rounds of (cast, simulate, evaluate) over {no cast, float32, float64}, on
    # instruments constructed without a dtype and in float64, every hedger: every pair (dtype of the previous use, dtype of this use)
    rdepth = 2 if ctx.tier == "quick" else 3
    for kind in REUSE_HEDGERS:
        for init in (None, "f64"):
            for seq in itertools.product([None, "f32", "f64"], repeat=rdepth):
                form = g.choice(["to", "method", "prim_to", "kw"])
                reuse_cases.append((kind, g.choice(stocks), init, g.choice(["f32", "f32", "f64"]),
                                    [[c, form, 2, None, g.choice([0, 0, 1]) if i == rdepth - 1 else 0] for i, c in enumerate(seq)]))
    for _ in range(15 if ctx.tier == "quick" else 400):
        reuse_cases.append((g.choice(REUSE_HEDGERS), g.choice(stocks), g.choice([None, None, "f32", "f64", "f16"]), g.choice(["f32", "f32", "f64"]),
                            reuse_gen_steps(g, g.randint(2, 5))))
    for kind, prim, init, amb, rsteps in reuse_cases:
        case, out = run_reuse_case(torch, I, kind, prim, init, amb, rsteps)
        ctx.case(case, nontrivial=len(rsteps) >= 2, tag="hedger_reuse")
        ctx.traces += 1
        ctx.stats[f"hedger_reuse={kind}"] += 1
        prev_dt = None
        for i, (st, inst_dt, res, declared, amb_now) in enumerate(out):
            c2 = case | {"step": i}
            if st == "backend":
                ctx.stats["backend_unsupported"] += 1
                break
            if st != "ok":
                ctx.fail("a hedger that is used again after a cast / re-simulation of its instruments raised", c2, key=f"dtype:hedger-reuse:error:{kind}",
                         detail=st[1])
                break
            if inst_dt != (declared or amb_now):
                ctx.fail("simulate() did not produce its buffers in the declared (or default) dtype", c2, key="dtype:simulate",
                         detail={"want": declared or amb_now, "spot": inst_dt})
                break
            ctx.stats["hedger_reuse:" + ("first_use" if prev_dt is None else "same_dtype" if prev_dt == inst_dt else
                                         f"{prev_dt}->{inst_dt}")] += 1
            prev_dt = inst_dt
            wrong = {k: v for k, v in res.items() if v != inst_dt}
            if wrong:
                ctx.fail("the SAME hedger used again after its instruments were cast and re-simulated: hedge / hedger inputs / portfolio / P&L / "
                         "loss / price are not in the instruments' dtype (state carried over from the previous use?)", c2,
                         key=f"dtype:hedger-reuse:{kind}", detail={"instrument": inst_dt, "wrong": wrong, "results": res})
                break
    # ---------------- every feature in both forms (all steps at once / one step) and hedgers fed with it, on instruments of every dtype
    # under both ambient defaults (a deterministic grid ambient x dtype on every tier, random draws of everything else; predicate only)
    fb_cases = [fb_gen_case(g, amb, dt) for amb in ("f32", "f64") for dt in (None, "f16", "bf16", "f32", "f64")]
    for _ in range(0 if ctx.tier == "quick" else 60):
        fb_cases.append(fb_gen_case(g, g.choice(["f32", "f64"]), g.choice([None, "f16", "bf16", "f32", "f64"])))
    for case in fb_cases:
        r = run_feature_case(torch, I, case)
        ctx.case(case, nontrivial=True, tag="feature_battery")
        ctx.traces += 1
        if r[0] == "backend":
            ctx.stats["backend_unsupported"] += 1
            continue
        _, inst_dt, out = r
        ctx.stats[f"feature_battery:instrument={inst_dt}:ambient={case['ambient_eval'] or case['ambient']}"] += 1
        for name, res in out.items():
            for q, v in res.items():
                if isinstance(v, list) and v[0] == "backend":
                    ctx.stats["feature_battery:backend_unsupported"] += 1
                    continue
                ctx.stats["feature_battery:checked_dtypes"] += 1
                form = q if q.startswith("get(") else q.split(":")[0]
                if isinstance(v, list):
                    ctx.fail("evaluating a feature (or a hedger that has it among its inputs) on a simulated instrument raised", case | {"feature": name, "quantity": q},
                             key=f"dtype:feature:error:{name}", detail=v[1])
                elif v != inst_dt and q.startswith("get("):
                    ctx.fail("a feature is not in the dtype of the instrument it is computed from (the form get(None) gives all time steps at once, "
                             "get(i) one step; the ambient default dtype differs from the instrument's)", case | {"feature": name, "quantity": q},
                             key=f"dtype:feature:{name}:{'get(None)' if q == 'get(None)' else 'get(i)'}",
                             detail={"instrument": inst_dt, "feature dtype": v, "all": res})
                elif v != inst_dt:
                    ctx.fail("hedger input / hedge / portfolio / P&L of a parameter-free hedger with this feature among its inputs is not in the "
                             "instruments' dtype", case | {"feature": name, "quantity": q},
                             key=f"dtype:hedger-feature:{name}:{form}", detail={"instrument": inst_dt, "dtype": v, "all": res})
    # ---------------- every criterion on the grid ambient default x instrument dtype (deterministic grid on every tier; random draws of the
    # rest; a few cases with a change of the ambient default between simulation and evaluation)
    cr_cases = [crit_gen_case(g, amb, dt, name) for amb in ("f32", "f64") for dt in (None, "f16", "bf16", "f32", "f64") for name in CRIT_NAMES]
    for _ in range(16 if ctx.tier == "quick" else 150):
        cr_cases.append(crit_gen_case(g, g.choice(["f32", "f64"]), g.choice([None, "f16", "f32", "f32", "f64"]), g.choice(CRIT_NAMES), grid=False))
    for case in cr_cases:
        r = run_criterion_case(torch, I, case)
        ctx.case(case, nontrivial=True, tag="criterion_battery")
        ctx.traces += 1
        if r[0] == "backend":
            ctx.stats["backend_unsupported"] += 1
            continue
        _, inst_dt, res = r
        ctx.stats[f"criterion_battery:instrument={inst_dt}:ambient={case['ambient_eval'] or case['ambient']}"] += 1
        for q, v in res.items():
            if isinstance(v, list) and v[0] == "backend":
                ctx.stats["criterion_battery:backend_unsupported"] += 1
                continue
            ctx.stats["criterion_battery:checked_dtypes"] += 1
            if isinstance(v, list):
                ctx.fail("evaluating a criterion (loss / cash / Hedger.compute_loss / Hedger.price) on the P&L of simulated instruments raised",
                         case | {"quantity": q}, key=f"dtype:criterion:error:{case['criterion']}", detail=v[1])
            elif v != inst_dt:
                ctx.fail("a loss / cash equivalent / Hedger.compute_loss / Hedger.price computed with this criterion is not in the instruments' dtype "
                         "(instruments narrower or wider than the ambient default dtype)", case | {"quantity": q},
                         key=f"dtype:criterion:{case['criterion']}:{q.split(':')[0]}",
                         detail={"instrument": inst_dt, "dtype": v, "ambient": case["ambient_eval"] or case["ambient"], "all": res})
    # ---------------- values, not labels: simulations are PRODUCED in the declared dtype (every primary x ambient default x declared dtype,
    # declared by the constructor / by casts around an earlier simulation / not at all; deterministic corpus on every tier plus random histories)
    rng_state = torch.get_rng_state()
    val_cases = []
    for prim in PRIMS:
        for amb in ("f32", "f64"):
            for final in ("f64", "f32"):
                val_cases.append(val_gen_case(g, prim, amb, final, "init"))
                val_cases.append(val_gen_case(g, prim, amb, final, "recast"))
            val_cases.append(val_gen_case(g, prim, amb, None, g.choice(["init", "recast"])))
    for _ in range(24 if ctx.tier == "quick" else 300):
        val_cases.append(val_gen_case(g, g.choice(list(PRIMS)), g.choice(["f32", "f64"]), g.choice(["f16", "bf16", "f32", "f64", "f64"]), "random"))
    refs = {}
    for case in val_cases:
        prim = case["primary"]
        r = run_value_case(torch, I, case)
        ctx.case(case, nontrivial=True, tag="value_battery")
        ctx.traces += 1
        if r[0] == "backend":
            ctx.stats["backend_unsupported"] += 1
            continue
        if r[0] == "error":
            if r[1] == "recursion_error" and prim == "VasicekRate":
                ctx.fail("VasicekRate.simulate raises RecursionError (generate_vasicek recursion)", case, key="vasicek:recursion")
            else:
                ctx.fail("a cast/simulate operation raised", case, key="dtype:op-error:value-battery", detail=r[1])
            continue
        _, declared, amb_end, bufs = r
        want = declared or amb_end
        ctx.stats[f"value_battery:declared={declared}:ambient={amb_end}"] += 1
        if declared != case["declares"]:
            ctx.fail("after a cast the instrument does not declare the requested dtype", case, key="dtype:cast-target",
                     detail={"requested": case["declares"], "declared": declared})
            continue
        labels = {n: short(torch, bufs[n].dtype) for n in bufs}
        if any(n not in bufs or labels[n] != want for n in PRIMS[prim]):
            ctx.fail("simulate() did not produce its buffers in the declared (or default) dtype", case, key="dtype:simulate",
                     detail={"want": want, "buffers": labels})
            continue
        if want == "f64":
            for n in PRIMS[prim]:
                x = bufs[n][:, 1:]
                ctx.stats["value_battery:float64_series_checked"] += 1
                if bool((x.float().double() == x).all()):
                    ctx.fail("an instrument that declares float64 (by its constructor, a cast, or the ambient default) was simulated in SINGLE precision: "
                             "every entry of the simulated series is a float32 number widened to float64 (the dtype label is right, the values are not "
                             "produced in the declared dtype)", case | {"buffer": n}, key=f"dtype:simulate:values:float64-holds-single-precision:{prim}",
                             detail={"buffer": n, "declared": declared, "ambient": amb_end, "first_path": [float(v) for v in bufs[n][0, :4]]})
                    break
            continue
        # a dtype narrower than float64
        eps = float(torch.finfo(tdt(torch, want)).eps)
        follows = prim in VAL_STREAM_FOLLOWS_AMBIENT and amb_end != "f32"
        if not follows:
            rk = (prim, want, case["seed"], "f32")
            if rk not in refs:
                refs[rk] = val_reference(torch, I, prim, *rk[1:])
            ref = refs[rk]
            if ref is None:
                ctx.stats["value_battery:reference_unavailable"] += 1
                continue
            for n in PRIMS[prim]:
                ctx.stats["value_battery:narrow_series_checked"] += 1
                a, b = bufs[n].double(), ref[n].double()
                nan = a.isnan() | b.isnan()
                scale = max(float(b[~b.isnan()].abs().max()) if bool((~b.isnan()).any()) else 0.0, 1e-30)
                if bool((a.isnan() != b.isnan()).any()) or bool(((a - b).abs()[~nan] > VAL_NARROW_ULPS * eps * scale).any()):
                    ctx.fail("an instrument that declares a dtype narrower than float64 was not simulated in the declared dtype: seed for seed its buffers "
                             "are not those of a fresh instrument constructed with that dtype under the float32 default (beyond the rounding of the "
                             "scalar coefficients): the values were produced in another dtype (another random stream) and rounded afterwards",
                             case | {"buffer": n}, key=f"dtype:simulate:values:not-produced-in-declared-dtype:{prim}",
                             detail={"buffer": n, "declared": declared, "ambient": amb_end, "first_path": [float(v) for v in bufs[n][0, :4]],
                                     "reference_first_path": [float(v) for v in ref[n][0, :4]], "max_abs_difference": float((a - b).abs()[~nan].max())})
                    break
        if want == "f32" and amb_end == "f64":
            rk = (prim, "f64", case["seed"], "f64")
            if rk not in refs:
                refs[rk] = val_reference(torch, I, prim, *rk[1:])
            ref = refs[rk]
            if ref is None:
                ctx.stats["value_battery:reference_unavailable"] += 1
                continue
            for n in PRIMS[prim]:
                ctx.stats["value_battery:narrow_series_checked:not_the_rounded_ambient_run"] += 1
                a, b = bufs[n][:, 1:].double(), ref[n][:, 1:].float().double()
                if bool(((a - b).abs() <= 2 * eps * b.abs()).all()):
                    ctx.fail("a float32 instrument under the float64 default holds, throughout, the values of the float64 simulation of the same seed rounded "
                             "to float32: it was simulated in the ambient default dtype and cast afterwards", case | {"buffer": n},
                             key=f"dtype:simulate:values:ambient-run-rounded:{prim}",
                             detail={"buffer": n, "declared": declared, "ambient": amb_end, "first_path": [float(v) for v in bufs[n][0, :4]],
                                     "float64_run_first_path": [float(v) for v in ref[n][0, :4]]})
                    break
    torch.set_rng_state(rng_state)
    # ---------------- the system model (Model/InstrSys.lean)
    sys_items = []                                  # (tag, scenario, real execution)
    t_sys = time.time()
    for case, obs0, steps, snap0, ops in sys_records:
        scen, real = isys_from_case(case, obs0, steps, snap0, ops)
        sys_items.append(("from_sequences", scen, real))
    # (quick: the long-lived hedger on the sub-alphabet {cast f64, cast f16, simulate, ambient default}; thorough: on all ten letters)
    exh = isys_exhaustive(3, range(10), reuse=ctx.tier != "quick")
    if ctx.tier == "quick":
        exh += isys_exhaustive(3, [0, 1, 3, 8], reuse=True, battery=False)
    if ctx.tier != "quick":
        # depth 4 over: cast through either derivative, simulate through either, register_buffer, list, ambient default
        exh += isys_exhaustive(4, [0, 1, 3, 4, 5, 6, 8])
    rnd = [isys_gen_scenario(g, g.randint(1, 8 if ctx.tier == "quick" else 14), 3) for _ in range(500 if ctx.tier == "quick" else 3000)]
    ctx.extra["instr_sys_exhaustive_sequences"] = len(exh)
    # every feature of the model's vocabulary and a hedger on each: the grid ambient x instrument dtype (every tier)
    fcorp = [fb_isys_scenario(g, amb, dt) for amb in ("f32", "f64") for dt in (None, "f16", "bf16", "f32", "f64")]
    for tag, scens in (("exhaustive", exh), ("random", rnd), ("feature_corpus", fcorp)):
        for scen in scens:
            real = isys_run_real(torch, I, scen)
            if real[0] is None:
                raise InternalError(f"system scenario could not be constructed: {scen['prims']}")
            ctx.case({k: scen[k] for k in ("ambient", "prims", "derivs", "cmds", "forms")} | {"reuse_hedgers": bool(scen.get("reuse_hedgers"))},
                     nontrivial=len(scen["cmds"]) >= 2, tag="instr_sys:" + tag)
            if scen.get("reuse_hedgers"):
                ctx.stats["instr_sys:histories_with_reused_hedgers"] += 1
            ctx.traces += 1
            sys_items.append((tag, scen, real))
    t_real = time.time() - t_sys
    try:
        souts = ctx.driver([isys_request(scen) for _, scen, _ in sys_items])
    except DriverBroken as e:
        ctx.ties_broken.append({"kind": "driver", "detail": str(e)[:1500]})
        souts = []
    for (tag, scen, real), mo in zip(sys_items, souts):
        if "bad" in mo:
            ctx.ties_broken.append({"kind": "driver", "detail": "instr_sys: " + str(mo)[:500]})
            break
        n_cmp = isys_compare(ctx, scen, real, mo)
        ctx.stats[f"instr_sys:{tag}:compared_answers"] += n_cmp
    ctx.extra["instr_sys_wall_s"] = {"real_objects": round(t_real, 1), "model_and_comparison": round(time.time() - t_sys - t_real, 1)}
    return ctx.finish(
        rule="SYSTEM model (instr_sys): every sequence below re-read as a system history, plus exhaustive sequences of derivative-level "
             "operations (depth 3 over a 10-letter alphabet; thorough: also depth 4 over 7 of the letters) x init in {None, f64}, plus random systems and histories (see module docstring); "
             "exhaustive sequences of depth <=3 (quick) / 4 (thorough) over {to f64, to f16, to(device), simulate, register int buffer, to(instrument), "
             "default f64} x init in {None, f64}; random sequences (length <= 12 / 40) over all cast forms on all 8 primaries, directly and through a "
             "derivative (half of them with a listed option on the instrument whose price is read after every step), casts to complex dtypes in all "
             "to() forms and the constructor, loss/price with n_times in {1,2,3} at the end, both global defaults; one parameter-free hedger object reused over "
             "histories of casts / re-simulations of its instruments (5 hedgers, exhaustive over {none, f32, f64} to depth 2 quick / 3 thorough x init in {None, f64}, "
             "plus random histories), also as long-lived hedgers on the real side of the system model; every feature in both forms get(None) / get(i) and hedgers "
             "fed with it on the grid ambient default x instrument dtype (predicate) and every feature of the system model's vocabulary plus loss / price on the same grid (model); "
             "every criterion (loss / cash / compute_loss / price) on that grid; value-level checks of the simulated buffers of all 8 primaries (float64 not "
             "float32-representable; narrower dtypes reproduce the fresh instrument of that dtype seed for seed); non-trivial = >= 2 operations; distinct = sha1 of canonical case")
