"""C17 — Instrument dtype/device contract holds over any cast/simulate sequence.

correspondence: random and exhaustive (depth <= 3 quick / 4 thorough) sequences of
to()/float()/double()/half()/bfloat16()/to(tensor)/to(instrument)/simulate()/register_buffer and
changes of the global default dtype on all 8 primaries (and through derivatives) vs the Lean state
machine (Model/DType.lean): after every operation the declared dtype, the dtype of every buffer and
the dtype of payoff / features / hedge / P&L are compared.  CPU only.
predicate-only scenarios (not part of the model): casts to complex dtypes in every to() form and in the constructor
(TypeError, state unchanged); a LISTED derivative on the instrument whose price / Spot feature / hedge P&L are read after
every operation (so before and after each cast); Hedger.compute_loss / price with n_times in {1,2,3} at the end of a history.
"""
import itertools
from common import *  # noqa

DT = {"f16": "float16", "bf16": "bfloat16", "f32": "float32", "f64": "float64", "i64": "int64", "i32": "int32",
      "c64": "complex64", "c128": "complex128"}
CPLX = ("c64", "c128")          # non-floating like the integers, but unknown to the Lean model: predicate only
PRIMS = {
    "BrownianStock": ["spot"], "HestonStock": ["spot", "variance"], "CIRRate": ["spot"], "VasicekRate": ["spot"],
    "MertonJumpStock": ["spot"], "KouJumpStock": ["spot"], "RoughBergomiStock": ["spot", "variance"],
    "LocalVolatilityStock": ["spot", "volatility"],
}


def tdt(torch, name):
    return None if name is None else getattr(torch, DT[name])


def short(torch, dtype):
    for k, v in DT.items():
        if getattr(torch, v) == dtype:
            return k
    return str(dtype)


def make(torch, I, prim, dtype):
    kw = {"dtype": tdt(torch, dtype)}
    if prim == "LocalVolatilityStock":
        return I.LocalVolatilityStock(lambda t, s: torch.full_like(s, 0.2), **kw)
    return getattr(I, prim)(**kw)


def gen_ops(g, prim, n):
    ops = []
    fl = ["f16", "bf16", "f32", "f64"]
    for _ in range(n):
        k = g.weighted([("to", 4), ("method", 2), ("to_none", 1), ("to_tensor", 1.5), ("to_inst", 1.5), ("simulate", 5),
                        ("register", 1.5), ("default", 1), ("to_int", 0.7), ("to_cplx", 0.7)])
        if k == "to":
            ops.append(["to", g.choice(fl)])
        elif k == "method":
            ops.append(["method", g.choice(fl)])
        elif k == "to_none":
            ops.append(["to", None])
        elif k == "to_tensor":
            ops.append(["to_tensor", g.choice(fl + ["i64"])])
        elif k == "to_inst":
            ops.append(["to_inst", g.choice(fl + [None])])
        elif k == "simulate":
            ops.append(["simulate", PRIMS[prim]])
        elif k == "register":
            ops.append(["register", g.choice(["spot", "extra"]), g.choice(fl + ["i64"])])
        elif k == "default":
            ops.append(["default", g.choice(["f32", "f64"])])
        elif k == "to_cplx":
            ops.append(["to_cplx", g.choice(["dtype", "kw", "device_dtype", "kw_device_dtype", "tensor"]), g.choice(list(CPLX))])
        else:
            ops.append(["to", g.choice(["i64", "i32"])])
    return ops


def apply_op(torch, I, inst, op, via_derivative=None):
    """returns ('ok', None) | ('err', kind) | ('backend', msg)"""
    target = via_derivative if via_derivative is not None else inst
    try:
        if op[0] == "to":
            if op[1] is None:
                target.to(torch.device("cpu"))
            else:
                target.to(tdt(torch, op[1]))
        elif op[0] == "method":
            {"f16": target.half, "bf16": target.bfloat16, "f32": target.float, "f64": target.double}[op[1]]()
        elif op[0] == "to_tensor":
            target.to(torch.zeros(1, dtype=tdt(torch, op[1])))
        elif op[0] == "to_inst":
            target.to(I.BrownianStock(dtype=tdt(torch, op[1])))
        elif op[0] == "to_cplx":
            cd = tdt(torch, op[2])
            if op[1] == "dtype":
                target.to(cd)
            elif op[1] == "kw":
                target.to(dtype=cd)
            elif op[1] == "device_dtype":
                target.to(torch.device("cpu"), cd)
            elif op[1] == "kw_device_dtype":
                target.to(device="cpu", dtype=cd)
            else:
                target.to(torch.zeros(1, dtype=cd))
        elif op[0] == "simulate":
            if via_derivative is not None:
                via_derivative.simulate(n_paths=2)
            else:
                inst.simulate(n_paths=2, time_horizon=3 / 250)
        elif op[0] == "register":
            inst.register_buffer(op[1], torch.ones(2, 4, dtype=tdt(torch, op[2])))
        elif op[0] == "default":
            torch.set_default_dtype(tdt(torch, op[1]))
        return ("ok", None)
    except RecursionError:
        return ("err", "recursion_error")
    except TypeError as e:
        return ("err", "type_error")
    except (RuntimeError, NotImplementedError) as e:
        msg = str(e)
        if "not implemented for" in msg or "not supported" in msg.lower() or "Half" in msg or "BFloat16" in msg:
            return ("backend", msg[:80])
        return ("err", "runtime_error")
    except Exception as e:  # noqa
        return ("err", canon_error(e))


def to_model_op(op):
    if op[0] == "method":
        return ["to", op[1]]
    return op


def observe(torch, inst):
    return {"declared": None if inst.dtype is None else short(torch, inst.dtype),
            "buffers": [[n, short(torch, b.dtype)] for n, b in inst.named_buffers()]}


_EXPU = []


def _ExpU():
    if not _EXPU:
        from pfhedge.nn import HedgeLoss

        class ExpU(HedgeLoss):
            def forward(self, input, target=0.0):
                return (-(input - target)).exp().mean(0)
        _EXPU.append(ExpU)
    return _EXPU[0]()


def _listed_pricer(d):
    # a listed price computed from the underlier's current buffers (intrinsic value + a time value), in their dtype
    return (d.ul().spot - d.strike).relu() + d.time_to_maturity()


def run_case(torch, I, ctx, prim, init, ambient, ops, use_deriv, listed=False, n_times=None):
    from pfhedge.nn import Hedger, Naked
    from pfhedge.features import Spot
    torch.set_default_dtype(tdt(torch, ambient))
    case = {"primary": prim, "init": init, "ambient": ambient, "ops": ops, "via_derivative": use_deriv, "listed": listed, "n_times": n_times}
    try:
        inst = make(torch, I, prim, init)
    except TypeError:
        torch.set_default_dtype(torch.float32)
        return case, None, [("err", "type_error")]
    deriv = I.EuropeanOption(inst, maturity=3 / 250) if prim not in ("CIRRate", "VasicekRate") else None
    if deriv is None:
        use_deriv = False
        case["via_derivative"] = False
        case["listed"] = listed = False
        case["n_times"] = n_times = None
    lst = None
    if listed:
        # a second, exchange-traded option on the same underlier; casts / simulations "through a derivative" go through it
        lst = I.EuropeanOption(inst, strike=1.05, maturity=3 / 250)
        lst.list(_listed_pricer, cost=1e-4)
    obs0 = observe(torch, inst)
    steps = []
    for op in ops:
        via = (lst or deriv) if (use_deriv and op[0] in ("to", "method", "to_tensor", "to_inst", "to_cplx", "simulate")) else None
        st = apply_op(torch, I, inst, op, via)
        o = observe(torch, inst)
        extra = {}
        if st[0] == "ok" and deriv is not None and any(n == "spot" for n, _ in o["buffers"]) and \
                all(b.shape == inst.spot.shape for _, b in inst.named_buffers()) and inst.spot.dtype.is_floating_point:
            # dtype of computations from the instrument; derivative aliases its underlier
            try:
                with torch.no_grad():
                    res = {"payoff": deriv.payoff().dtype, "moneyness": deriv.moneyness().dtype, "ttm": deriv.time_to_maturity().dtype}
                    if deriv.dtype != inst.dtype:
                        extra["alias"] = "derivative.dtype differs from its underlier's"
                    h = Hedger(Naked(), ["moneyness", "time_to_maturity", "zeros"])
                    res["hedge"] = h.compute_hedge(deriv).dtype
                    pl_ = h.compute_pl(deriv)
                    res["pl"] = pl_.dtype
                    res["loss"] = h.criterion(pl_).dtype
                    res["cash"] = h.criterion.cash(pl_).dtype
                    if pl_.dtype in (torch.float32, torch.float64):
                        # a user criterion relying on HedgeLoss.cash (the search precision 1e-6 is below half-precision resolution)
                        res["cash_default_search"] = _ExpU().cash(pl_).dtype
                    if lst is not None:
                        # listed price, the Spot feature of the listed option, and hedging `deriv` with the listed option
                        res["listed_price"] = lst.spot.dtype
                        if lst.dtype != inst.dtype:
                            extra["alias"] = "derivative.dtype differs from its underlier's"
                        ft = Spot().of(lst)
                        res["spot_feature"] = ft.get(None).dtype
                        res["spot_feature_step"] = ft.get(0).dtype
                        res["portfolio_listed_hedge"] = h.compute_portfolio(deriv, hedge=[lst]).dtype
                        res["pl_listed_hedge"] = h.compute_pl(deriv, hedge=[lst]).dtype
                extra["results"] = {k: short(torch, v) for k, v in res.items()}
            except (RuntimeError, NotImplementedError) as e:
                extra["results_backend"] = str(e)[:60]
        steps.append((st, o, extra))
    if n_times is not None and steps and all(b.dtype.is_floating_point for b in inst.buffers()) and \
            (inst.dtype is None or inst.dtype.is_floating_point):
        # end of the history: loss and price re-simulate the instrument (so nothing may follow) and average over n_times evaluations
        ens = {}
        try:
            with torch.no_grad():
                h = Hedger(Naked(), ["moneyness", "time_to_maturity", "zeros"])
                ens["loss"] = short(torch, h.compute_loss(deriv, n_paths=2, n_times=n_times, enable_grad=False).dtype)
                ens["price"] = short(torch, h.price(deriv, n_paths=2, n_times=n_times).dtype)
                ens["instrument"] = short(torch, inst.spot.dtype)
                ens["payoff"] = short(torch, deriv.payoff().dtype)
            steps[-1][2]["ensemble"] = ens
        except (RuntimeError, NotImplementedError) as e:
            steps[-1][2]["ensemble_backend"] = str(e)[:60]
    torch.set_default_dtype(torch.float32)
    return case, obs0, steps


def check(ctx):
    torch, pfhedge = import_impl()
    import pfhedge.instruments as I
    g = ctx.gen
    ctx.lean_gate()
    cases = []
    # exhaustive over a small alphabet to bounded depth on BrownianStock and HestonStock
    depth = 3 if ctx.tier == "quick" else 4
    alpha = [["to", "f64"], ["to", "f16"], ["to", None], ["simulate", None], ["register", "extra", "i64"], ["to_inst", None], ["default", "f64"]]
    for prim in (["BrownianStock"] if ctx.tier == "quick" else ["BrownianStock", "HestonStock"]):
        for init in (None, "f64"):
            for seq in itertools.product(alpha, repeat=depth):
                ops = [(["simulate", PRIMS[prim]] if o[0] == "simulate" else list(o)) for o in seq]
                cases.append((prim, init, "f32", ops, False, False, None))
    ctx.extra["exhaustive_depth"] = depth
    ctx.extra["exhaustive_sequences"] = len(cases)
    nrand = 1500 if ctx.tier == "quick" else 6000
    for _ in range(nrand):
        prim = g.choice(list(PRIMS))
        init = g.choice([None, None, "f32", "f64", "f16", "bf16", "i64", g.choice(list(CPLX))])
        amb = g.choice(["f32", "f32", "f64"])
        ln = g.randint(1, 12 if ctx.tier == "quick" else 40)
        cases.append((prim, init, amb, gen_ops(g, prim, ln), g.chance(0.4), g.chance(0.5), g.choice([None, 1, 2, 2, 3])))
    reqs, metas = [], []
    torch.manual_seed(ctx.seed % (2 ** 31))
    for prim, init, amb, ops, use_deriv, listed, n_times in cases:
        case, obs0, steps = run_case(torch, I, ctx, prim, init, amb, ops, use_deriv, listed, n_times)
        ctx.case(case, nontrivial=len(ops) >= 2, tag="dt_seq")
        ctx.traces += 1
        ctx.stats[f"primary={prim}"] += 1
        ctx.stats[f"len={min(len(ops), 13)}"] += 1
        if case["listed"]:
            ctx.stats["listed_derivative"] += 1
        if init not in CPLX:
            # complex casts are expected to be rejected without a change of state: they are left out of the model's history
            reqs.append({"op": "dt_seq", "init": init, "ambient": amb, "ops": [to_model_op(o) for o in ops if o[0] != "to_cplx"]})
            metas.append((case, obs0, [s_ for o, s_ in zip(ops, steps) if o[0] != "to_cplx"]))
        # ---- predicate (independent of the model): the property statement
        if obs0 is None:
            if init in ("f16", "bf16", "f32", "f64", None):
                ctx.fail("constructing an instrument with a floating dtype raised TypeError", case, key="dtype:init-rejected")
            continue
        if init in ("i64", "i32"):
            ctx.fail("a non-floating dtype was accepted by the constructor", case, key="dtype:int-accepted")
        if init in CPLX:
            ctx.fail("a complex (non-floating) dtype was accepted by the constructor", case, key="dtype:complex-accepted:constructor",
                     detail={"declared": obs0["declared"]})
            continue
        amb_now = amb
        for i, (op, (st, o, extra)) in enumerate(zip(ops, steps)):
            c2 = case | {"step": i}
            if op[0] == "default" and st[0] == "ok":
                amb_now = op[1]
            if st[0] == "backend":
                ctx.stats["backend_unsupported"] += 1
                break
            if st == ("err", "recursion_error") and prim == "VasicekRate":
                ctx.fail("VasicekRate.simulate raises RecursionError (generate_vasicek recursion)", c2, key="vasicek:recursion")
                break
            if op[0] == "to_cplx":
                ctx.stats[f"to_cplx:{op[1]}"] += 1
                prev = obs0 if i == 0 else steps[i - 1][1]
                if st != ("err", "type_error"):
                    ctx.fail("a complex (non-floating) dtype was not rejected with TypeError by to()", c2, key=f"dtype:complex-accepted:{op[1]}",
                             detail={"form": op[1], "dtype": op[2], "outcome": list(st), "declared": o["declared"], "buffers": o["buffers"],
                                     "via_derivative": case["via_derivative"]})
                    break
                if o != prev:
                    ctx.fail("a rejected cast to a complex dtype changed the instrument's declared dtype or buffers", c2,
                             key="dtype:complex-rejected-state-changed", detail={"before": prev, "after": o})
                    break
                continue
            wants_int = (op[0] in ("to", "to_tensor", "to_inst") and op[1] in ("i64", "i32"))
            if wants_int and st[0] == "ok":
                ctx.fail("a non-floating dtype was accepted by to()", c2, key="dtype:int-accepted")
            if (not wants_int) and st[0] == "err":
                ctx.fail("a cast/simulate operation raised", c2, key=f"dtype:op-error:{op[0]}", detail=st[1])
                break
            if st[0] == "ok" and op[0] in ("to", "method", "to_tensor") and op[1] in ("f16", "bf16", "f32", "f64") and o["declared"] != op[1]:
                # to(dtype) / float() / double() / half() / bfloat16() / to(tensor): the instrument must now declare the requested dtype
                ctx.fail("after a cast the instrument does not declare the requested dtype", c2, key="dtype:cast-target",
                         detail={"requested": op[1], "form": op[0], "declared": o["declared"], "via_derivative": case["via_derivative"]})
                break
            if o["declared"] is not None:
                badb = [b for b in o["buffers"] if b[1] != o["declared"]]
                if badb:
                    ctx.fail("a buffer does not have the dtype the instrument declares", c2, key="dtype:buffer-mismatch",
                             detail={"declared": o["declared"], "buffers": o["buffers"]})
                    break
            if op[0] == "simulate" and st[0] == "ok":
                want = o["declared"] or amb_now
                prod = [b for b in o["buffers"] if b[0] in op[1]]
                if len(prod) != len(op[1]) or any(b[1] != want for b in prod):
                    ctx.fail("simulate() did not produce its buffers in the declared (or default) dtype", c2, key="dtype:simulate",
                             detail={"want": want, "buffers": o["buffers"]})
                    break
            if "alias" in extra:
                ctx.fail("a derivative's dtype differs from its underlier's", c2, key="dtype:derivative-alias")
            if "results" in extra:
                spot_dt = dict(map(tuple, o["buffers"]))["spot"]
                wrong = {k: v for k, v in extra["results"].items() if v != spot_dt}
                if wrong:
                    listed_keys = ("listed_price", "spot_feature", "spot_feature_step", "portfolio_listed_hedge", "pl_listed_hedge")
                    only_listed = all(k in listed_keys for k in wrong)
                    ctx.fail("a quantity computed from the instrument is not in the instrument's dtype" if not only_listed else
                             "the listed price of a derivative (or the Spot feature / hedge P&L built on it) is not in the dtype of its underlier",
                             c2, key="dtype:results:listed" if only_listed else "dtype:results",
                             detail={"instrument": spot_dt, "results": extra["results"]})
                    break
        else:
            # the whole history was consistent: loss / price at its end
            if steps and "ensemble" in steps[-1][2]:
                ens = steps[-1][2]["ensemble"]
                ctx.stats[f"ensemble:n_times={case['n_times']}:{ens['instrument']}"] += 1
                wrong = {k: v for k, v in ens.items() if v != ens["instrument"]}
                if wrong:
                    ctx.fail("Hedger.compute_loss / Hedger.price (averaged over n_times simulations) is not in the instrument's dtype", case,
                             key="dtype:loss-price:n_times>=2" if case["n_times"] >= 2 else "dtype:loss-price", detail=ens)
    try:
        outs = ctx.driver(reqs)
    except DriverBroken as e:
        ctx.ties_broken.append({"kind": "driver", "detail": str(e)[:1500]})
        outs = []
    for (case, obs0, steps), mo in zip(metas, outs):
        if obs0 is None:
            if "err" not in mo["init"]:
                ctx.disagree("dt_init", case, "type_error", mo["init"])
            continue
        if "ok" not in mo["init"] or mo["init"]["ok"]["declared"] != obs0["declared"]:
            ctx.disagree("dt_init", case, obs0, mo["init"])
            continue
        for i, ((st, o, extra), mm) in enumerate(zip(steps, mo["steps"])):
            if st[0] == "backend" or st == ("err", "recursion_error"):
                break        # backend limitation / Vasicek defect: stop comparing this history
            if st[0] == "err":
                if mm.get("err") != st[1]:
                    ctx.disagree("dt_seq", case | {"step": i}, st, mm)
                    break
                continue
            if "ok" not in mm or mm["ok"]["declared"] != o["declared"] or mm["ok"]["buffers"] != o["buffers"]:
                ctx.disagree("dt_seq", case | {"step": i}, o, mm)
                break
            if "results" in extra and mm["ok"]["result"] is not None:
                if any(v != mm["ok"]["result"] for v in extra["results"].values()):
                    ctx.disagree("dt_results", case | {"step": i}, extra["results"], mm["ok"]["result"])
                    break
    return ctx.finish(
        rule="exhaustive sequences of depth <=3 (quick) / 4 (thorough) over {to f64, to f16, to(device), simulate, register int buffer, to(instrument), "
             "default f64} x init in {None, f64}; random sequences (length <= 12 / 40) over all cast forms on all 8 primaries, directly and through a "
             "derivative (half of them with a listed option on the instrument whose price is read after every step), casts to complex dtypes in all "
             "to() forms and the constructor, loss/price with n_times in {1,2,3} at the end, both global defaults; non-trivial = >= 2 operations; distinct = sha1 of canonical case")
