"""C09 — Black-Scholes prices respect no-arbitrage structure.

correspondence: the four price functions vs the Lean model over the box (single-call conformance
is what transfers the theorems of Props/C09 to the code, up to the float bound).
predicate (real code): each relation evaluated on points / pairs of points; only violations
larger than the rounding bound of the evaluations involved are reported.  The same relations are
evaluated on (a) positional calls of the functionals in their documented parameter order,
(b) BATCHED evaluations (mixed regimes in one tensor, several layouts / broadcasting) which must
also reproduce the one-element evaluations bit for bit, and (c) prices that a Black-Scholes module
takes from a simulated derivative (non-dyadic strikes, underlier started exactly on the strike).
"""
import math
from common import *  # noqa
from bs_common import *  # noqa

EPS = 1e-11

# documented parameter order of the price functionals (pfhedge/nn/functional.py signatures / docstrings)
POS_ORDER = {
    "european_price": ("log_moneyness", "time_to_maturity", "volatility", "strike", "call"),
    "european_binary_price": ("log_moneyness", "time_to_maturity", "volatility", "call"),
    "american_binary_price": ("log_moneyness", "max_log_moneyness", "time_to_maturity", "volatility"),
    "lookback_price": ("log_moneyness", "max_log_moneyness", "time_to_maturity", "volatility", "strike"),
}


def call_bs_positional(torch, g, fn, s, t, v, k, m, call):
    """bs_<fn>(...) with EVERY argument given positionally in the documented order; a trailing
    argument that equals its documented default (call=True) is left out half of the time"""
    import pfhedge.nn.functional as fnl
    T = lambda x: x if isinstance(x, torch.Tensor) else torch.tensor([x], dtype=torch.float64)
    vals = {"log_moneyness": T(s), "max_log_moneyness": T(m), "time_to_maturity": T(t), "volatility": T(v), "strike": k, "call": call}
    args = [vals[a] for a in POS_ORDER[fn]]
    if POS_ORDER[fn][-1] == "call" and call is True and g.chance(0.5):
        args.pop()
    return getattr(fnl, "bs_" + fn)(*args)


def same_bits(a, b):
    return (math.isnan(a) and math.isnan(b)) or float_bits(a) == float_bits(b)


def point_relations(bad, pre, S, k, M, reached, c, p, bc, bp, ab, lb, eps=EPS, par=1e-10, binpar=1e-12):
    """the single-point relations of the property (same tolerances as in the sweep of check() when the
    defaults are used) on prices obtained another way; S spot, M running maximum (price units),
    reached = the running maximum is at or above the strike.  `bad(what, key, **detail)`"""
    sc = max(1.0, k, S)
    if abs((c - p) - (S - k)) > par * sc:
        bad("European call minus put differs from spot minus strike", pre + "put-call-parity", call=c, put=p, spot=S)
    if abs(bc + bp - 1.0) > binpar:
        bad("binary call plus binary put differs from one", pre + "binary-parity", call=bc, put=bp)
    if not (max(S - k, 0.0) - eps * sc <= c <= S + eps * sc):
        bad("European call outside [intrinsic value, spot]", pre + "call-bounds", call=c, spot=S)
    if not (-eps <= bc <= 1 + eps) or not (-eps <= ab <= 1 + eps):
        bad("binary / American binary price outside [0,1]", pre + "binary-range", binary=bc, american=ab)
    if not ab >= bc - eps:
        bad("American binary worth less than the European binary", pre + "american-ge-european", american=ab, european=bc)
    if reached and ab != 1.0:
        bad("American binary is not exactly one once the barrier has been reached", pre + "american-after-hit", american=ab, spot=S, running_max=M)
    if not lb >= c - eps * sc:
        bad("lookback call worth less than the European call", pre + "lookback-ge-european", lookback=lb, call=c)
    if not lb >= max(M - k, 0.0) - eps * sc:
        bad("lookback call worth less than its locked-in payoff", pre + "lookback-ge-locked-in", lookback=lb, locked=M - k)


FNS = (("european_price", True), ("european_price", False), ("european_binary_price", True), ("european_binary_price", False),
       ("american_binary_price", True), ("lookback_price", True))


def batched_block(ctx, torch, g, n_batches):
    """one call on a tensor of scenarios (max below / at / above the strike, spot below / at its max,
    mixed in one batch; flat, matrix, broadcast grid, strided and expanded layouts) must give, element
    by element, exactly the value of the one-element call, and the relations must hold on the batch"""
    from pfhedge.nn import BSEuropeanOption, BSEuropeanBinaryOption, BSAmericanBinaryOption, BSLookbackOption
    D = torch.float64
    mk = lambda xs: torch.tensor(xs, dtype=D)
    for _ in range(n_batches):
        k = g.choice([g.r.uniform(0.1, 10), 1.0, 1.1, 0.5, 7.5])
        lay = g.choice(["flat", "flat", "matrix", "grid", "grid-strided", "expand"])
        if lay in ("flat", "matrix"):
            a, b = (1, g.randint(2, 12)) if lay == "flat" else (g.randint(2, 4), g.randint(1, 4))
            pts = [gen_point(g, True) for _ in range(a * b)]
            elems = [(s, m, t, v) for s, t, v, _, m in pts]
            shape = (b,) if lay == "flat" else (a, b)
            S_, M_, T_, V_ = (mk([e[i] for e in elems]).reshape(shape) for i in range(4))
        else:
            n, q = g.randint(2, 6), g.randint(1, 4)
            rows = [gen_point(g, True) for _ in range(n)]
            cols = [gen_point(g, False)[1] for _ in range(q)]
            v0 = gen_point(g, False)[2]
            elems = [(r[0], r[4], t, v0) for r in rows for t in cols]
            shape = (n, q)
            s_, m_, t_ = mk([r[0] for r in rows]), mk([r[4] for r in rows]), mk(cols)
            if lay == "grid":          # (n,1) x (q,) x 0-dim
                S_, M_, T_, V_ = s_[:, None], m_[:, None], t_, mk(v0)
            elif lay == "grid-strided":  # columns / rows of larger tensors (non-contiguous views)
                big, big2 = torch.zeros(n, 3, dtype=D), torch.zeros(2, n, dtype=D)
                big[:, 1], big2[1] = s_, m_
                S_, M_, T_, V_ = big[:, 1:2], big2[1][:, None], t_[None, :], mk([[v0]])
            else:                       # stride-0 expanded views of the full shape
                S_, M_, T_, V_ = s_[:, None].expand(n, q), m_[:, None].expand(n, q), t_[None, :].expand(n, q), mk(v0).expand(n, q)
        via = g.choice(["functional", "functional", "module"])
        regimes = sorted({("below" if m < 0 else "at" if m == 0 else "above") + ("/spot-at-max" if s == m else "/spot-below-max") for s, m, _, _ in elems})
        mixed = any(r.startswith("below") for r in regimes) and any(not r.startswith("below") for r in regimes)
        case = {"kind": "batched", "layout": lay, "via": via, "k": k, "shape": list(shape), "elems": [list(e) for e in elems], "regimes": regimes}
        ctx.case(case, mixed, tag="batched")
        ctx.stats[f"batched layout={lay}"] += 1
        ctx.stats["batched mixed-regimes" if mixed else "batched one-regime"] += 1
        ctx.traces += 1
        out = {}
        for fn, call in FNS:
            if via == "module":
                if fn == "european_price":
                    val = BSEuropeanOption(call=call, strike=k).price(S_, T_, V_)
                elif fn == "european_binary_price":
                    val = BSEuropeanBinaryOption(call=call, strike=k).price(S_, T_, V_)
                elif fn == "american_binary_price":
                    val = BSAmericanBinaryOption(strike=k).price(S_, M_, T_, V_)
                else:
                    val = BSLookbackOption(strike=k).price(S_, M_, T_, V_)
            else:
                val = call_bs(torch, fn, S_, T_, V_, k, M_, call)
            if tuple(val.shape) != tuple(shape):
                ctx.fail("batched price does not have the broadcast shape of its inputs", case | {"fn": fn, "call": call},
                         key=f"batched:{fn}:shape", detail={"got": list(val.shape), "expected": list(shape)})
                out = None
                break
            vals = [float(x) for x in val.reshape(-1)]
            out[(fn, call)] = vals
            for i, (s, m, t, v) in enumerate(elems):
                one = float(call_bs(torch, fn, [s], [t], [v], k, [m], call))
                if not same_bits(vals[i], one):
                    ctx.fail("the price of one scenario depends on what else is evaluated in the same batch (batched value differs from the one-element call)",
                             case | {"fn": fn, "call": call, "index": i, "point": {"s": s, "m": m, "t": t, "v": v}},
                             key=f"batched:{fn}:differs-from-single", detail={"batched": vals[i], "single": one})
                    break
        if out is None:
            continue
        for i, (s, m, t, v) in enumerate(elems):
            def bad(what, key, **d):
                ctx.fail(what + " (batched evaluation)", case | {"index": i, "point": {"s": s, "m": m, "t": t, "v": v}}, key=key, detail=d)
            point_relations(bad, "batched:", k * math.exp(s), k, k * math.exp(m), m >= 0,
                            out[("european_price", True)][i], out[("european_price", False)][i],
                            out[("european_binary_price", True)][i], out[("european_binary_price", False)][i],
                            out[("american_binary_price", True)][i], out[("lookback_price", True)][i])


def derivative_block(ctx, torch, g, n_scen):
    """prices that BlackScholes(derivative) takes from a simulated derivative (log-moneyness, running
    maximum, time to maturity and volatility all come from the instrument): non-dyadic strikes, the
    underlier started exactly on the strike (so the barrier is reached at step 0 whatever happens later),
    just below / above it, float32 and float64 markets.
    reached := running maximum of the simulated spot >= strike, the strike taken as the market's dtype
    represents it (init_state=(K,) puts the spot exactly there; the derivative's own payoff compares the
    same way).  For such a path the unchanged code is exact: S >= K gives fl(S/K) >= 1 and log >= 0."""
    from pfhedge.instruments import BrownianStock, EuropeanOption, EuropeanBinaryOption, AmericanBinaryOption, LookbackOption
    from pfhedge.nn import BlackScholes
    for _ in range(n_scen):
        dtype = g.choice([torch.float32, torch.float64])
        K = g.choice([0.9, 0.95, 1.01, 1.03, 1.05, 1.3, 0.7, 1.1, 1.2, 3.0, 110.0, 1.0, 2.0,
                      round(g.r.uniform(0.5, 2.0), 2), round(g.r.uniform(0.5, 2.0), 3), g.r.uniform(0.3, 3.0)])
        sigma = g.choice([0.2, 0.1, 0.4, round(g.r.uniform(0.05, 0.8), 2)])
        dt = g.choice([1 / 250, 1 / 365, 0.01])
        n_steps = g.randint(2, 8)
        maturity = n_steps * dt
        start = g.weighted([("at-strike", 6), ("below", 2), ("above", 1), ("one-ulp-above", 1)])
        Kd = float(torch.tensor(K, dtype=dtype))     # the strike as the market's dtype holds it
        if start == "at-strike":
            init = K
        elif start == "below":
            init = K * g.choice([0.999, 0.98, 0.9])
        elif start == "above":
            init = K * g.choice([1.001, 1.05])
        else:
            init = float(torch.nextafter(torch.tensor(K, dtype=dtype), torch.tensor(math.inf, dtype=dtype)))
        n_paths = g.randint(1, 6)
        tseed = g.randint(0, 10 ** 6)
        case = {"kind": "derivative", "dtype": str(dtype), "strike": K, "sigma": sigma, "dt": dt, "n_steps": n_steps,
                "start": start, "init_state": init, "n_paths": n_paths, "torch_seed": tseed}
        ctx.case(case, True, tag="derivative")
        ctx.stats[f"derivative start={start}"] += 1
        ctx.stats[f"derivative dtype={str(dtype).split('.')[-1]}"] += 1
        ctx.traces += 1
        stock = BrownianStock(sigma=sigma, dt=dt).to(dtype)
        ders = {
            "c": EuropeanOption(stock, call=True, strike=K, maturity=maturity), "p": EuropeanOption(stock, call=False, strike=K, maturity=maturity),
            "bc": EuropeanBinaryOption(stock, call=True, strike=K, maturity=maturity), "bp": EuropeanBinaryOption(stock, call=False, strike=K, maturity=maturity),
            "ab": AmericanBinaryOption(stock, strike=K, maturity=maturity), "lb": LookbackOption(stock, strike=K, maturity=maturity),
        }
        torch.manual_seed(tseed)
        # half of the time through a derivative's own simulate(), otherwise through the shared underlier
        if g.chance(0.5):
            ders[g.choice(["ab", "lb", "c"])].simulate(n_paths=n_paths, init_state=(init,))
        else:
            stock.simulate(n_paths=n_paths, time_horizon=maturity, init_state=(init,))
        spot = stock.spot.to(torch.float64)
        if start == "at-strike" and not bool((spot[:, 0] == Kd).all()):
            raise InternalError(f"scenario construction: spot does not start on the strike {Kd}: {spot[:, 0].tolist()}")
        rmax = spot.cummax(dim=-1).values
        ttm = ders["ab"].time_to_maturity().to(torch.float64)
        pr = {}
        for nm, d in ders.items():
            st, val, _ = call_impl(BlackScholes(d).price)
            if st != "ok" or tuple(val.shape) != tuple(spot.shape):
                ctx.fail("BlackScholes(derivative).price() raised / has not the shape of the simulated spot", case | {"derivative": nm},
                         key="derivative:price-call", detail=str(val)[:300] if st != "ok" else list(val.shape))
                pr = None
                break
            pr[nm] = val.to(torch.float64)
        if pr is None:
            continue
        f32 = dtype == torch.float32
        # float32 prices: tolerances in units of the float32 rounding error (2^-24 instead of 2^-53 would be
        # 5e8 times the float64 bounds; 2e-5 relative to the scale, ~170 float32 ulps, is what is demanded here)
        tol = dict(eps=2e-5, par=2e-5, binpar=2e-6) if f32 else {}
        for i in range(spot.shape[0]):
            for j in range(spot.shape[1]):
                if not float(ttm[i, j]) > 0:       # the property speaks about time to maturity > 0
                    continue
                S, M = float(spot[i, j]), float(rmax[i, j])

                def bad(what, key, **d):
                    ctx.fail(what + " (price taken from the simulated derivative)",
                             case | {"path": i, "step": j, "spot_path": [float(x) for x in spot[i, :j + 1]], "strike_in_dtype": Kd}, key=key, detail=d)
                point_relations(bad, "derivative:", S, K, M, M >= Kd, *(float(pr[nm][i, j]) for nm in ("c", "p", "bc", "bp", "ab", "lb")), **tol)


def check(ctx):
    torch, pfhedge = import_impl()
    g = ctx.gen
    ctx.lean_gate()
    n = 1500 if ctx.tier == "quick" else 12000
    from pfhedge.nn import BSEuropeanOption, BSEuropeanBinaryOption, BSAmericanBinaryOption, BSLookbackOption
    PF = lambda fn, s, t, v, k, m=None, call=True: float(call_bs(torch, fn, s, t, v, k, s if m is None else m, call))
    T64 = lambda x: torch.tensor([x], dtype=torch.float64)

    def PM(fn, s, t, v, k, m=None, call=True):
        """the same price quoted by the pricing MODULE constructed with this strike / call flag"""
        m = s if m is None else m
        if fn == "european_price":
            return float(BSEuropeanOption(call=call, strike=k).price(T64(s), T64(t), T64(v)))
        if fn == "european_binary_price":
            return float(BSEuropeanBinaryOption(call=call, strike=k).price(T64(s), T64(t), T64(v)))
        if fn == "american_binary_price":
            return float(BSAmericanBinaryOption(strike=k).price(T64(s), T64(m), T64(t), T64(v)))
        return float(BSLookbackOption(strike=k).price(T64(s), T64(m), T64(t), T64(v)))

    def PP(fn, s, t, v, k, m=None, call=True):
        """the functional with all arguments positional, in the documented order"""
        return float(call_bs_positional(torch, g, fn, s, t, v, k, s if m is None else m, call))
    items, metas = [], []
    for _ in range(n):
        s, t, v, k, m = gen_point(g, True)
        via = g.weighted([("module", 0.3), ("positional", 0.15), ("functional", 0.55)])
        P = {"module": PM, "positional": PP, "functional": PF}[via]
        ctx.stats[f"via={via}"] += 1
        case = {"s": s, "t": t, "v": v, "k": k, "m": m, "via": via}
        ctx.case(case, True, tag="relations")
        ctx.traces += 1
        S = k * math.exp(s)
        sc = max(1.0, k, S)
        c, p = P("european_price", s, t, v, k), P("european_price", s, t, v, k, call=False)
        bc, bp = P("european_binary_price", s, t, v, k), P("european_binary_price", s, t, v, k, call=False)
        ab = P("american_binary_price", s, t, v, k, m)
        lb = P("lookback_price", s, t, v, k, m)
        for fn, call, val in (("european_price", True, c), ("european_price", False, p), ("european_binary_price", True, bc),
                              ("american_binary_price", True, ab), ("lookback_price", True, lb)):
            items.append((fn, call, [s, t, v, k, m]))
            metas.append((case | {"fn": fn, "call": call}, val))

        def bad(what, key, **d):
            if via == "positional":     # a relation broken only for positional calls is a finding of its own
                what, key = what + " (functional called positionally in its documented parameter order)", "positional:" + key.split(":", 1)[1]
            ctx.fail(what, case, key=key, detail=d)
        if abs((c - p) - (S - k)) > 1e-10 * sc:
            bad("European call minus put differs from spot minus strike", "relation:put-call-parity", call=c, put=p)
        if abs(bc + bp - 1.0) > 1e-12:
            bad("binary call plus binary put differs from one", "relation:binary-parity", call=bc, put=bp)
        if c < max(S - k, 0.0) - EPS * sc or c > S + EPS * sc:
            bad("European call outside [intrinsic value, spot]", "relation:call-bounds", call=c, spot=S)
        if not (-EPS <= bc <= 1 + EPS) or not (-EPS <= ab <= 1 + EPS):
            bad("binary / American binary price outside [0,1]", "relation:binary-range", binary=bc, american=ab)
        if ab < bc - EPS:
            bad("American binary worth less than the European binary", "relation:american-ge-european", american=ab, european=bc)
        if m >= 0 and ab != 1.0:
            bad("American binary is not exactly one once the barrier has been reached", "relation:american-after-hit", american=ab)
        if lb < c - EPS * sc:
            bad("lookback call worth less than the European call", "relation:lookback-ge-european", lookback=lb, call=c)
        if lb < max(k * math.exp(m) - k, 0.0) - EPS * sc:
            bad("lookback call worth less than its locked-in payoff", "relation:lookback-ge-locked-in", lookback=lb, locked=k * math.exp(m) - k)
        # pairs: monotone / convex in the spot, monotone in volatility and time
        h = g.choice([0.3, 0.05, 1e-3])
        c_up, c_dn = P("european_price", s + h, t, v, k), P("european_price", s - h, t, v, k)
        if not (c_dn <= c + EPS * sc and c <= c_up + EPS * sc):
            bad("European call not increasing in the spot", "relation:call-mono-spot", down=c_dn, mid=c, up=c_up)
        S_up, S_dn = k * math.exp(s + h), k * math.exp(s - h)
        lam = (S - S_dn) / (S_up - S_dn)
        if c > (1 - lam) * c_dn + lam * c_up + 1e-10 * sc:
            bad("European call not convex in the spot", "relation:call-convex-spot", down=c_dn, mid=c, up=c_up)
        v2 = v * (1 + g.choice([0.5, 0.05, 1e-3]))
        t2 = t * (1 + g.choice([0.5, 0.05, 1e-3]))
        if P("european_price", s, t, v2, k) < c - EPS * sc:
            bad("European call decreases with volatility", "relation:call-mono-vol", v2=v2)
        if P("european_price", s, t2, v, k) < c - EPS * sc:
            bad("European call decreases with time to maturity", "relation:call-mono-time", t2=t2)
        # continuity where the running maximum crosses the strike
        if g.chance(0.3) and s < -0.01:
            lo, hi = P("lookback_price", s, t, v, k, -1e-13), P("lookback_price", s, t, v, k, 0.0)
            if abs(lo - hi) > 1e-9 * sc:
                bad("lookback price jumps where the running maximum crosses the strike", "relation:lookback-continuity", below=lo, at=hi)
    batched_block(ctx, torch, g, 120 if ctx.tier == "quick" else 1000)
    derivative_block(ctx, torch, g, 80 if ctx.tier == "quick" else 600)
    try:
        mv = model_vals(ctx, items)
    except DriverBroken as e:
        ctx.ties_broken.append({"kind": "driver", "detail": str(e)[:1500]})
        mv = []
    for (case, got), m_ in zip(metas, mv):
        if isinstance(m_, tuple) or not rel_close(got, m_, 1e-10, 1e-12):
            ctx.disagree("bs_price", case, got, m_)
    return ctx.finish(
        rule="prices quoted by the functional forms (keywords; 15 % with every argument positional in the documented order) and (30 %) by the pricing modules built with the strike / call flag; points of the open domain with running max >= spot (incl. equality and max exactly at the strike) and pairs at relative distances "
             "{0.3, 0.05, 1e-3} for the monotonicity / convexity relations; batched calls (2-16 scenarios with the running max below / at / above the strike mixed in one tensor; flat, matrix, broadcast grid, strided and expanded layouts; "
             "functional or module) compared bit for bit with the one-element calls and checked against the point relations (non-trivial = regimes mixed); Black-Scholes modules reading simulated derivatives (BrownianStock float32/float64, "
             "decimal / random strikes, started exactly on / below / above the strike, 1-6 paths, 2-8 steps) checked against the point relations at every step with time to maturity > 0; distinct = sha1 of canonical case")
