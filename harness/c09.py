"""C09 — Black-Scholes prices respect no-arbitrage structure.

correspondence: the four price functions vs the Lean model over the box (single-call conformance
is what transfers the theorems of Props/C09 to the code, up to the float bound).
predicate (real code): each relation evaluated on points / pairs of points; only violations
larger than the rounding bound of the evaluations involved are reported.  The same relations are
evaluated on (a) positional calls of the functionals in their documented parameter order,
(b) BATCHED evaluations (mixed regimes in one tensor, several layouts / broadcasting) which must
also reproduce the one-element evaluations bit for bit (a module that has quoted a batch is asked again),
and (c) prices that a Black-Scholes module takes from a simulated derivative (non-dyadic strikes, underlier
started exactly on the strike), several derivatives sharing ONE underlier which is simulated again / cast /
deep-copied between the quotes (the relations always refer to the paths the underlier carries now),
(d) broadcast grids on which the running maximum has MORE dimensions than spot / time / volatility (a row of spots
against a column of histories, one spot against a vector of histories; functional, positional and module form), evaluated
element-wise on the pairs with running maximum >= spot, and (e) contracts that are user-defined SUBCLASSES of the library
derivatives with their own Black-Scholes module registered under their own name: BlackScholes(derivative) resolves to the
module registered for the most derived class and the relations hold for what it quotes; WHICH module class is handed out is
also decided by the model (Model/Factory.lean, op factory: the registry as an insertion-ordered dict, lookup by the own class
name only) from the history of register_module calls of this process, and compared exactly (class name or error kind),
(f) modules bound to a simulated derivative called with PARTIAL argument lists (partial_block): every subset of the arguments given
explicitly with values that differ from the derivative's own (bumped spot, one time step as a column, higher running maximum, other
time / volatility), the rest acquired; relations at the effective point (explicit where given, the derivative's record otherwise),
agreement with the functional there, and the model of the module layer (op bs_module with `given`) / of the formulas (op bs).
"""
import math
from common import *  # noqa
from bs_common import *  # noqa

EPS = 1e-11

# documented parameter order of the price functionals (pfhedge/nn/functional.py signatures / docstrings)
POS_ORDER = {
    "european_price": ("log_moneyness", "time_to_maturity", "volatility", "strike", "call"),
    "european_binary_price": ("log_moneyness", "time_to_maturity", "volatility", "call"),
    "american_binary_price": ("log_moneyness", "max_log_moneyness", "time_to_maturity", "volatility"),
    "lookback_price": ("log_moneyness", "max_log_moneyness", "time_to_maturity", "volatility", "strike"),
}


def call_bs_positional(torch, g, fn, s, t, v, k, m, call):
    """bs_<fn>(...) with EVERY argument given positionally in the documented order; a trailing
    argument that equals its documented default (call=True) is left out half of the time"""
    import pfhedge.nn.functional as fnl
    T = lambda x: x if isinstance(x, torch.Tensor) else torch.tensor([x], dtype=torch.float64)
    vals = {"log_moneyness": T(s), "max_log_moneyness": T(m), "time_to_maturity": T(t), "volatility": T(v), "strike": k, "call": call}
    args = [vals[a] for a in POS_ORDER[fn]]
    if POS_ORDER[fn][-1] == "call" and call is True and g.chance(0.5):
        args.pop()
    return getattr(fnl, "bs_" + fn)(*args)


def same_bits(a, b):
    return (math.isnan(a) and math.isnan(b)) or float_bits(a) == float_bits(b)


def point_relations(bad, pre, S, k, M, reached, c, p, bc, bp, ab, lb, eps=EPS, par=1e-10, binpar=1e-12):
    """the single-point relations of the property (same tolerances as in the sweep of check() when the
    defaults are used) on prices obtained another way; S spot, M running maximum (price units),
    reached = the running maximum is at or above the strike.  `bad(what, key, **detail)`"""
    sc = max(1.0, k, S)
    if abs((c - p) - (S - k)) > par * sc:
        bad("European call minus put differs from spot minus strike", pre + "put-call-parity", call=c, put=p, spot=S)
    if abs(bc + bp - 1.0) > binpar:
        bad("binary call plus binary put differs from one", pre + "binary-parity", call=bc, put=bp)
    if not (max(S - k, 0.0) - eps * sc <= c <= S + eps * sc):
        bad("European call outside [intrinsic value, spot]", pre + "call-bounds", call=c, spot=S)
    if not (-eps <= bc <= 1 + eps) or not (-eps <= ab <= 1 + eps):
        bad("binary / American binary price outside [0,1]", pre + "binary-range", binary=bc, american=ab)
    if not ab >= bc - eps:
        bad("American binary worth less than the European binary", pre + "american-ge-european", american=ab, european=bc)
    if reached and ab != 1.0:
        bad("American binary is not exactly one once the barrier has been reached", pre + "american-after-hit", american=ab, spot=S, running_max=M)
    if not lb >= c - eps * sc:
        bad("lookback call worth less than the European call", pre + "lookback-ge-european", lookback=lb, call=c)
    if not lb >= max(M - k, 0.0) - eps * sc:
        bad("lookback call worth less than its locked-in payoff", pre + "lookback-ge-locked-in", lookback=lb, locked=M - k)


FNS = (("european_price", True), ("european_price", False), ("european_binary_price", True), ("european_binary_price", False),
       ("american_binary_price", True), ("lookback_price", True))


MAX_LAYOUTS = ("max-grid", "max-grid", "single-spot", "max-cube")


def batched_block(ctx, torch, g, n_batches, layouts=None, items=None, metas=None):
    """one call on a tensor of scenarios (max below / at / above the strike, spot below / at its max,
    mixed in one batch; flat, matrix, broadcast grid, strided and expanded layouts) must give, element
    by element, exactly the value of the one-element call, and the relations must hold on the batch.

    layouts=MAX_LAYOUTS (round 5): grids on which the RUNNING MAXIMUM carries more dimensions than spot / time /
    volatility — a row of spots against a column of histories ((q,) against (n,1)), one 0-dim spot, time and
    volatility against a vector of histories, a (n,1,1) stack of histories over a (r,1) x (q,) time-spot grid.
    The path-dependent prices have the full broadcast shape, the European ones the shape of (spot, time, volatility)
    (they are broadcast here to pair them up); only the pairs with running maximum >= spot are in the domain of the
    property, the others are not looked at.  Two in-domain elements per batch also go to the model (op bs)."""
    from pfhedge.nn import BSEuropeanOption, BSEuropeanBinaryOption, BSAmericanBinaryOption, BSLookbackOption
    D = torch.float64
    mk = lambda xs: torch.tensor(xs, dtype=D)
    for _ in range(n_batches):
        k = g.choice([g.r.uniform(0.1, 10), 1.0, 1.1, 0.5, 7.5])
        lay = g.choice(layouts or ["flat", "flat", "matrix", "grid", "grid-strided", "expand"])
        maxlay = lay in MAX_LAYOUTS
        if maxlay:
            n, q, r = g.randint(2, 5), (1 if lay == "single-spot" else g.randint(2, 4)), (g.randint(1, 2) if lay == "max-cube" else 1)
            ss = [gen_point(g, False)[0] for _ in range(q)]
            # histories: exactly at one of the spots, exactly at the strike, just below it, above one spot, above all spots
            ms = [g.weighted([(g.choice(ss), 2), (0.0, 2), (-1e-9, 1), (g.choice(ss) + g.r.uniform(0, 0.6), 3), (max(ss) + g.r.uniform(0, 0.6), 2)]) for _ in range(n)]
            if not any(m >= s for m in ms for s in ss):
                ms[0] = max(ss)
            v0 = gen_point(g, False)[2]
            s_, m_ = mk(ss), mk(ms)
            if lay == "single-spot":      # everything but the running maximum 0-dimensional
                t0 = gen_point(g, False)[1]
                elems = [(ss[0], m, t0, v0) for m in ms]
                shape = (n,)
                S_, M_, T_, V_ = mk(ss[0]), m_, mk(t0), mk(v0)
            elif lay == "max-grid":       # (q,) spots [and times / volatilities of the row shape] x (n,1) histories
                ts = [gen_point(g, False)[1] for _ in range(q)] if g.chance(0.5) else [gen_point(g, False)[1]] * q
                elems = [(s, m, t, v0) for m in ms for s, t in zip(ss, ts)]
                shape = (n, q)
                S_, M_, T_ = s_, m_[:, None], (mk(ts) if len(set(ts)) > 1 or g.chance(0.5) else mk(ts[0]))
                V_ = g.choice([mk(v0), mk([v0] * q), mk([v0])])
            else:                         # (n,1,1) histories x (r,1) times x (q,) spots
                ts = [gen_point(g, False)[1] for _ in range(r)]
                elems = [(s, m, t, v0) for m in ms for t in ts for s in ss]
                shape = (n, r, q)
                S_, M_, T_, V_ = s_, m_[:, None, None], mk(ts)[:, None], mk(v0)
        elif lay in ("flat", "matrix"):
            a, b = (1, g.randint(2, 12)) if lay == "flat" else (g.randint(2, 4), g.randint(1, 4))
            pts = [gen_point(g, True) for _ in range(a * b)]
            elems = [(s, m, t, v) for s, t, v, _, m in pts]
            shape = (b,) if lay == "flat" else (a, b)
            S_, M_, T_, V_ = (mk([e[i] for e in elems]).reshape(shape) for i in range(4))
        else:
            n, q = g.randint(2, 6), g.randint(1, 4)
            rows = [gen_point(g, True) for _ in range(n)]
            cols = [gen_point(g, False)[1] for _ in range(q)]
            v0 = gen_point(g, False)[2]
            elems = [(r[0], r[4], t, v0) for r in rows for t in cols]
            shape = (n, q)
            s_, m_, t_ = mk([r[0] for r in rows]), mk([r[4] for r in rows]), mk(cols)
            if lay == "grid":          # (n,1) x (q,) x 0-dim
                S_, M_, T_, V_ = s_[:, None], m_[:, None], t_, mk(v0)
            elif lay == "grid-strided":  # columns / rows of larger tensors (non-contiguous views)
                big, big2 = torch.zeros(n, 3, dtype=D), torch.zeros(2, n, dtype=D)
                big[:, 1], big2[1] = s_, m_
                S_, M_, T_, V_ = big[:, 1:2], big2[1][:, None], t_[None, :], mk([[v0]])
            else:                       # stride-0 expanded views of the full shape
                S_, M_, T_, V_ = s_[:, None].expand(n, q), m_[:, None].expand(n, q), t_[None, :].expand(n, q), mk(v0).expand(n, q)
        via = g.choice(["functional", "module", "positional"] if maxlay else ["functional", "functional", "module"])
        dom = [m >= s for s, m, _, _ in elems]        # in the domain of the property (always, except on the max-broadcast grids)
        shape_nomax = tuple(torch.broadcast_shapes(S_.shape, T_.shape, V_.shape))
        regimes = sorted({("below" if m < 0 else "at" if m == 0 else "above") + ("/spot-at-max" if s == m else "/spot-below-max") for (s, m, _, _), ok in zip(elems, dom) if ok})
        mixed = any(r.startswith("below") for r in regimes) and any(not r.startswith("below") for r in regimes)
        case = {"kind": "batched", "layout": lay, "via": via, "k": k, "shape": list(shape), "elems": [list(e) for e in elems], "regimes": regimes}
        if maxlay:
            case |= {"shapes": {"log_moneyness": list(S_.shape), "max_log_moneyness": list(M_.shape), "time_to_maturity": list(T_.shape), "volatility": list(V_.shape)}}
        ctx.case(case, mixed, tag="batched-max-broadcast" if maxlay else "batched")
        ctx.stats[f"batched layout={lay}"] += 1
        ctx.stats["batched mixed-regimes" if mixed else "batched one-regime"] += 1
        ctx.traces += 1
        out = {}
        i0 = g.choice([i for i, ok in enumerate(dom) if ok])
        for fn, call in FNS:
            mod = None

            def quote_batch():
                nonlocal mod
                if via == "module":
                    if fn == "european_price":
                        mod = BSEuropeanOption(call=call, strike=k)
                        return mod.price(S_, T_, V_)
                    if fn == "european_binary_price":
                        mod = BSEuropeanBinaryOption(call=call, strike=k)
                        return mod.price(S_, T_, V_)
                    if fn == "american_binary_price":
                        mod = BSAmericanBinaryOption(strike=k)
                        return mod.price(S_, M_, T_, V_)
                    mod = BSLookbackOption(strike=k)
                    return mod.price(S_, M_, T_, V_)
                if via == "positional":
                    return call_bs_positional(torch, g, fn, S_, T_, V_, k, M_, call)
                return call_bs(torch, fn, S_, T_, V_, k, M_, call)
            if maxlay:
                st, val, mut = call_impl(quote_batch, watch=[("log_moneyness", S_), ("max_log_moneyness", M_), ("time_to_maturity", T_), ("volatility", V_)])
                if mut:
                    ctx.mutated("bs_" + fn, mut, case)
                if st != "ok":
                    ctx.fail("the price cannot be evaluated on a broadcast grid whose running maximum has more dimensions than spot / time / volatility "
                             "(the relations have to hold element-wise on it)", case | {"fn": fn, "call": call}, key=f"batched:{fn}:max-broadcast:error", detail=val)
                    out = None
                    break
            else:
                val = quote_batch()
            want = tuple(shape) if "m" in FN_ARGS[fn] else shape_nomax
            if tuple(val.shape) != want:
                ctx.fail("batched price does not have the broadcast shape of its inputs", case | {"fn": fn, "call": call},
                         key=f"batched:{fn}:max-broadcast:shape" if maxlay else f"batched:{fn}:shape", detail={"got": list(val.shape), "expected": list(want)})
                out = None
                break
            vals = [float(x) for x in torch.broadcast_to(val, tuple(shape)).reshape(-1)]
            out[(fn, call)] = vals
            for i, (s, m, t, v) in enumerate(elems):
                if not dom[i]:
                    continue
                one = float(call_bs(torch, fn, [s], [t], [v], k, [m], call))
                if not same_bits(vals[i], one):
                    ctx.fail("the price of one scenario depends on what else is evaluated in the same batch (batched value differs from the one-element call)",
                             case | {"fn": fn, "call": call, "index": i, "point": {"s": s, "m": m, "t": t, "v": v}},
                             key=f"batched:{fn}:differs-from-single", detail={"batched": vals[i], "single": one})
                    break
            if mod is not None:
                # the SAME module object asked again, for one scenario of the batch
                s, m, t, v = elems[i0]
                again = mod.price(mk([s]), mk([m]), mk([t]), mk([v])) if "m" in FN_ARGS[fn] else mod.price(mk([s]), mk([t]), mk([v]))
                one = float(call_bs(torch, fn, [s], [t], [v], k, [m], call))
                if tuple(again.shape) != (1,) or not same_bits(float(again), one):
                    ctx.fail("a pricing module that has quoted a batch gives another price for one of its scenarios when it is asked again",
                             case | {"fn": fn, "call": call, "index": i0, "point": {"s": s, "m": m, "t": t, "v": v}},
                             key=f"batched:{fn}:module-asked-again", detail={"again": [float(x) for x in again.reshape(-1)], "single": one})
        if out is None:
            continue
        if maxlay and items is not None:
            for i in [g.choice([i for i, ok in enumerate(dom) if ok]) for _p in range(2)]:
                s, m, t, v = elems[i]
                for fn, call in FNS:
                    items.append((fn, call, [s, t, v, k, m]))
                    metas.append((case | {"index": i, "fn": fn, "call": call}, out[(fn, call)][i]))
        for i, (s, m, t, v) in enumerate(elems):
            if not dom[i]:
                continue

            def bad(what, key, **d):
                ctx.fail(what + (" (evaluation on a grid whose running maximum is broadcast against spot / time / volatility)" if maxlay else " (batched evaluation)"),
                         case | {"index": i, "point": {"s": s, "m": m, "t": t, "v": v}}, key=key, detail=d)
            point_relations(bad, "batched-max-broadcast:" if maxlay else "batched:", k * math.exp(s), k, k * math.exp(m), m >= 0,
                            out[("european_price", True)][i], out[("european_price", False)][i],
                            out[("european_binary_price", True)][i], out[("european_binary_price", False)][i],
                            out[("american_binary_price", True)][i], out[("lookback_price", True)][i])


ROUTES = ("stock", "other", "own:c", "own:p", "own:bc", "own:bp", "own:ab", "own:lb")

_USER = {}


def user_classes():
    """user-defined derivative classes written as SUBCLASSES of library derivatives (for the constructor / attributes they
    share), each with its own Black-Scholes module registered under its own class name through the documented API
    BlackScholesModuleFactory().register_module(name, cls); some of the modules are user subclasses of the library modules,
    some contracts are subclasses of subclasses.  slot -> list of (derivative class, registered module class);
    the slot says which price the contract has (c/p European, bc/bp European binary, ab American binary, lb lookback).
    Returns (slots, registered names)."""
    if _USER:
        return _USER["slots"], _USER["names"]
    import pfhedge.instruments as pin
    import pfhedge.nn as pnn
    from pfhedge.nn.functional import american_binary_payoff, lookback_payoff
    from pfhedge.nn.modules.bs.black_scholes import BlackScholesModuleFactory

    class VerifCall(pin.EuropeanOption):
        """a European option under another name"""

    class VerifDigital(pin.EuropeanBinaryOption):
        """a European binary option under another name"""

    class VerifOneTouchOption(pin.EuropeanBinaryOption):
        """pays one at maturity if the spot has ever been at or above the strike (constructor of the European binary)"""

        def payoff_fn(self):
            return american_binary_payoff(self.ul().spot, call=self.call, strike=self.strike)

    class VerifMaxCall(pin.EuropeanOption):
        """call on the running maximum = fixed-strike lookback call (constructor of the European option)"""

        def payoff_fn(self):
            return lookback_payoff(self.ul().spot, call=self.call, strike=self.strike)

    class VerifTouch(pin.AmericanBinaryOption):
        """an American binary option under another name"""

    class VerifLookback(pin.LookbackOption):
        """a lookback option under another name"""

    class VerifOneTouch2(VerifDigital):
        """a one-touch written on top of a user-defined European binary (two levels below the library class)"""

        def payoff_fn(self):
            return american_binary_payoff(self.ul().spot, call=self.call, strike=self.strike)

    class VerifMaxCall2(VerifCall):
        """a call on the maximum written on top of a user-defined European option"""

        def payoff_fn(self):
            return lookback_payoff(self.ul().spot, call=self.call, strike=self.strike)

    class VerifBSEuropean(pnn.BSEuropeanOption):
        """user module: the library formula under another name"""

    class VerifBSAmericanBinary(pnn.BSAmericanBinaryOption):
        """user module: the library formula under another name"""

    pairs = [("c", VerifCall, VerifBSEuropean), ("bc", VerifDigital, pnn.BSEuropeanBinaryOption),
             ("ab", VerifOneTouchOption, pnn.BSAmericanBinaryOption), ("lb", VerifMaxCall, pnn.BSLookbackOption),
             ("ab", VerifTouch, VerifBSAmericanBinary), ("lb", VerifLookback, pnn.BSLookbackOption),
             ("ab", VerifOneTouch2, VerifBSAmericanBinary), ("lb", VerifMaxCall2, pnn.BSLookbackOption)]
    class VerifUnregisteredCall(pin.EuropeanOption):
        """a subclass of a registered library contract that is NOT registered itself"""

    class VerifUnregisteredTouch(VerifOneTouchOption):
        """a subclass of a registered user contract that is NOT registered itself"""

    slots = {"c": [], "p": [], "bc": [], "bp": [], "ab": [], "lb": []}
    factory = BlackScholesModuleFactory()

    def module_kind(mcls):
        for base, kind in ((pnn.BSEuropeanOption, "european"), (pnn.BSEuropeanBinaryOption, "european_binary"),
                           (pnn.BSAmericanBinaryOption, "american_binary"), (pnn.BSLookbackOption, "lookback")):
            if isinstance(mcls, type) and issubclass(mcls, base):
                return kind
        return "unknown:" + repr(mcls)[:80]       # not one of the four library formulas: the driver refuses the history (a broken tie)
    # the register_module calls of this process, oldest first, for the model of the registry (op factory): what the library
    # registered at import (every name once, so the registry in its own order IS that history), then the calls made here
    history = [[name, mcls.__name__, module_kind(mcls)] for name, mcls in factory.named_modules()]

    def register(name, mcls):
        factory.register_module(name, mcls)
        history.append([name, mcls.__name__, module_kind(mcls)])
    # two names registered twice: the first registration is replaced by the one of the loop below, the name keeps its place
    # (VerifMaxCall stays the first user entry of named_modules() although it is registered again after three others)
    register("VerifMaxCall", pnn.BSEuropeanOption)
    register("VerifCall", pnn.BSEuropeanOption)
    for slot, dcls, mcls in pairs:
        register(dcls.__name__, mcls)
        slots[slot].append((dcls, mcls))
    slots["p"], slots["bp"] = list(slots["c"]), list(slots["bc"])
    _USER.update(slots=slots, names=[dcls.__name__ for _s, dcls, _m in pairs], history=history,
                 unregistered=[VerifUnregisteredCall, VerifUnregisteredTouch])
    return slots, _USER["names"]


def factory_query(torch, BlackScholes, der):
    """one question to the model of the registry: the class of the derivative (own name, names of the rest of its MRO), its call
    flag, and what BlackScholes(derivative) of the real code does: [module class name, call flag of the instance] or the error kind"""
    st, mod, _ = call_impl(BlackScholes, der)
    impl = {"ok": [type(mod).__name__, bool(getattr(mod, "call", True))]} if st == "ok" else {"err": mod}
    return ({"name": type(der).__name__, "mro": [c.__name__ for c in type(der).__mro__[1:]], "call": bool(getattr(der, "call", True))}, impl), (st, mod)


def derivative_block(ctx, torch, g, n_scen, items, metas, family="library"):
    """prices that BlackScholes(derivative) takes from a simulated derivative (log-moneyness, running
    maximum, time to maturity and volatility all come from the instrument): non-dyadic strikes, the
    underlier started exactly on the strike (so the barrier is reached at step 0 whatever happens later),
    just below / above it, float32 and float64 markets.
    reached := running maximum of the simulated spot >= strike, the strike taken as the market's dtype
    represents it (init_state=(K,) puts the spot exactly there; the derivative's own payoff compares the
    same way).  For such a path the unchanged code is exact: S >= K gives fl(S/K) >= 1 and log >= 0.

    The six derivatives are written on ONE underlier and the objects are used again after they have been
    quoted: the underlier is simulated again (through its own simulate(), through the simulate() of any of
    the six, or of a seventh derivative written on it that is never quoted; other number of paths / start),
    the market is cast to the other precision (through the underlier or through one of the derivatives), the
    whole set is copied with copy.deepcopy before the originals move on.  After every such event every
    quote has to satisfy the relations with respect to the paths that the underlier carries NOW (spot and
    running maximum recomputed here from stock.spot); a deep copy keeps satisfying them on its own paths.
    Points of the float64 quotes are also sent to the model (op bs) with log-moneyness / running maximum /
    time to maturity recomputed here from the current spot.

    family="subclass" (round 5): the quoted contracts are instances of USER-DEFINED SUBCLASSES of the library derivatives
    (user_classes(): a one-touch written as a subclass of EuropeanBinaryOption, a call on the maximum as a subclass of
    EuropeanOption, renamed contracts, subclasses of subclasses), each registered with its own Black-Scholes module under its
    own class name.  BlackScholes(derivative) has to hand out (an instance of) the module class registered for the most derived
    class, i.e. for the class of the derivative itself, and the relations have to hold for what it quotes; the library
    derivatives that fill the remaining slots are written on the same underlier.  Keys carry the prefix "subclass-"."""
    import copy
    from pfhedge.instruments import BrownianStock, EuropeanOption, EuropeanBinaryOption, AmericanBinaryOption, LookbackOption
    from pfhedge.nn import BlackScholes
    NAMES = ("c", "p", "bc", "bp", "ab", "lb")
    MOD_KIND = {"c": ("european", True), "p": ("european", False), "bc": ("european_binary", True), "bp": ("european_binary", False),
                "ab": ("american_binary", True), "lb": ("lookback", True)}
    mod_reqs, mod_metas = [], []      # the module layer itself: Lean Model/Acquire.lean through the driver op bs_module
    fac_qs, fac_metas = [], []        # which module class BlackScholes(derivative) hands out: Lean Model/Factory.lean through the driver op factory
    STARTS = [("at-strike", 6), ("below", 2), ("above", 1), ("one-ulp-above", 1)]

    def gen_start(K, dtype):
        start = g.weighted(STARTS)
        if start == "at-strike":
            init = K
        elif start == "below":
            init = K * g.choice([0.999, 0.98, 0.9])
        elif start == "above":
            init = K * g.choice([1.001, 1.05])
        else:
            init = float(torch.nextafter(torch.tensor(K, dtype=dtype), torch.tensor(math.inf, dtype=dtype)))
        return start, init

    for _ in range(n_scen):
        dtype = g.choice([torch.float32, torch.float64])
        K = g.choice([0.9, 0.95, 1.01, 1.03, 1.05, 1.3, 0.7, 1.1, 1.2, 3.0, 110.0, 1.0, 2.0,
                      round(g.r.uniform(0.5, 2.0), 2), round(g.r.uniform(0.5, 2.0), 3), g.r.uniform(0.3, 3.0)])
        sigma = g.choice([0.2, 0.1, 0.4, round(g.r.uniform(0.05, 0.8), 2)])
        dt = g.choice([1 / 250, 1 / 365, 0.01])
        n_steps = g.randint(2, 8)
        maturity = n_steps * dt
        start, init = gen_start(K, dtype)
        n_paths = g.randint(1, 6)
        tseed = g.randint(0, 10 ** 6)
        # half of the time through a derivative's own simulate(), otherwise through the shared underlier
        route = ("own:" + g.choice(["ab", "lb", "c"])) if g.chance(0.5) else "stock"
        # what happens to the same objects after the first quotes
        later, cur = [], dtype
        for _e in range(g.weighted([(0, 3), (1, 4), (2, 3)])):
            ev = g.weighted([("simulate", 6), ("cast", 2), ("copy", 2)])
            if ev == "cast":
                cur = torch.float64 if cur == torch.float32 else torch.float32
                later.append({"event": "cast", "dtype": str(cur), "through": g.choice(("stock",) + NAMES)})
                continue
            st2, in2 = gen_start(K, cur)
            later.append({"event": ev, "route": g.choice(ROUTES), "start": st2, "init_state": in2,
                          "n_paths": g.choice([n_paths, g.randint(1, 6)]), "torch_seed": g.randint(0, 10 ** 6)})
        keep_modules, bsm = g.chance(0.5), {}
        LIB = {"c": EuropeanOption, "p": EuropeanOption, "bc": EuropeanBinaryOption, "bp": EuropeanBinaryOption, "ab": AmericanBinaryOption, "lb": LookbackOption}
        cls_of, registered = dict(LIB), {}
        if family == "subclass":
            slots, _names = user_classes()
            # the path-dependent contracts are always user-defined, each of the others half of the time
            for nm in NAMES:
                if nm in ("ab", "lb") or g.chance(0.5):
                    cls_of[nm], registered[nm] = g.choice(slots[nm])
        fam = "" if family == "library" else "subclass-"
        case = {"kind": "derivative", "dtype": str(dtype), "strike": K, "sigma": sigma, "dt": dt, "n_steps": n_steps,
                "start": start, "init_state": init, "n_paths": n_paths, "torch_seed": tseed, "route": route, "later": later,
                "pricing_modules": "kept" if keep_modules else "rebuilt for every quote"}
        if family == "subclass":
            case |= {"classes": {nm: f"{cls_of[nm].__name__}({cls_of[nm].__mro__[1].__name__}) registered with {registered[nm].__name__}" if nm in registered
                                 else cls_of[nm].__name__ for nm in NAMES}}
        ctx.case(case, True, tag="derivative" if family == "library" else "derivative-subclass")
        ctx.stats[f"derivative start={start}"] += 1
        ctx.stats[f"derivative dtype={str(dtype).split('.')[-1]}"] += 1
        ctx.traces += 1
        stock = BrownianStock(sigma=sigma, dt=dt).to(dtype)
        ders = {
            "c": cls_of["c"](stock, call=True, strike=K, maturity=maturity), "p": cls_of["p"](stock, call=False, strike=K, maturity=maturity),
            "bc": cls_of["bc"](stock, call=True, strike=K, maturity=maturity), "bp": cls_of["bp"](stock, call=False, strike=K, maturity=maturity),
            "ab": cls_of["ab"](stock, strike=K, maturity=maturity), "lb": cls_of["lb"](stock, strike=K, maturity=maturity),
            "other": EuropeanOption(stock, strike=1.0, maturity=maturity),      # written on the same underlier, never quoted
        }

        def simulate(route, n_paths, init, tseed):
            torch.manual_seed(tseed)
            if route == "stock":
                stock.simulate(n_paths=n_paths, time_horizon=maturity, init_state=(init,))
            else:
                ders[route.split(":")[-1]].simulate(n_paths=n_paths, init_state=(init,))

        def quote(ders, pre, stage, dtype, started_on=None, who="originals"):
            """quote the six derivatives and check the point relations against the spot their underlier carries now;
            False when a price call failed"""
            stock = ders["ab"].underlier
            Kd = float(torch.tensor(K, dtype=dtype))     # the strike as the market's dtype holds it
            spot = stock.spot.to(torch.float64)
            if stock.spot.dtype != dtype:
                raise InternalError(f"scenario construction: market dtype {stock.spot.dtype}, expected {dtype}")
            if started_on is not None and not bool((spot[:, 0] == started_on).all()):
                raise InternalError(f"scenario construction: spot does not start on the strike {started_on}: {spot[:, 0].tolist()}")
            rmax = spot.cummax(dim=-1).values
            ttm = ders["ab"].time_to_maturity().to(torch.float64)
            scase = case | {"stage": stage}
            ctx.stats[f"derivative quotes {pre[:-1]}"] += 1
            pr = {}
            for nm in NAMES:
                # the pricing module of a derivative is kept and asked again after the events (half of the scenarios)
                mod = bsm.get((who, nm)) if keep_modules else None
                if mod is None:
                    if family == "subclass":
                        (q, impl), (st, mod) = factory_query(torch, BlackScholes, ders[nm])
                        fac_qs.append(q)
                        fac_metas.append((scase | {"derivative": nm}, impl))
                        if st != "ok" and nm not in registered:
                            ctx.fail("BlackScholes(derivative) raised for a library derivative", scase | {"derivative": nm}, key=fam + pre + "construct-library", detail=mod)
                            return False
                    if nm in registered:
                        if st != "ok":
                            ctx.fail("BlackScholes(derivative) raised for a user-defined subclass of a library derivative that has its own module registered under its own name",
                                     scase | {"derivative": nm}, key="subclass-" + pre + "construct", detail=mod)
                            return False
                        if type(mod) is not registered[nm] or getattr(mod, "derivative", None) is not ders[nm]:
                            ctx.fail("BlackScholes(derivative) does not hand out the module registered for the class of the derivative (a user-defined subclass of a library "
                                     "derivative, registered under its own name through BlackScholesModuleFactory().register_module), bound to that derivative",
                                     scase | {"derivative": nm}, key="subclass-" + pre + "resolution",
                                     detail={"got": type(mod).__name__, "registered": registered[nm].__name__, "mro": [c_.__name__ for c_ in type(ders[nm]).__mro__[:4]]})
                        bsm[(who, nm)] = mod
                    elif family == "subclass":
                        bsm[(who, nm)] = mod
                    else:
                        mod = bsm[(who, nm)] = BlackScholes(ders[nm])
                st, val, _ = call_impl(mod.price)
                if st != "ok" or tuple(val.shape) != tuple(spot.shape):
                    ctx.fail("BlackScholes(derivative).price() raised / has not the shape of the simulated spot", scase | {"derivative": nm},
                             key=fam + pre + "price-call", detail=str(val)[:300] if st != "ok" else list(val.shape))
                    return False
                pr[nm] = val.to(torch.float64)
            f32 = dtype == torch.float32
            # float32 prices: tolerances in units of the float32 rounding error (2^-24 instead of 2^-53 would be
            # 5e8 times the float64 bounds; 2e-5 relative to the scale, ~170 float32 ulps, is what is demanded here)
            tol = dict(eps=2e-5, par=2e-5, binpar=2e-6) if f32 else {}
            live = []
            for i in range(spot.shape[0]):
                for j in range(spot.shape[1]):
                    if not float(ttm[i, j]) > 0:       # the property speaks about time to maturity > 0
                        continue
                    live.append((i, j))
                    S, M = float(spot[i, j]), float(rmax[i, j])

                    def bad(what, key, **d):
                        ctx.fail(what + " (price taken from the simulated derivative" + ("" if pre == "derivative:" else "; " + stage) + ")",
                                 scase | {"path": i, "step": j, "spot_path": [float(x) for x in spot[i, :j + 1]], "strike_in_dtype": Kd}, key=key, detail=d)
                    point_relations(bad, fam + pre, S, K, M, M >= Kd, *(float(pr[nm][i, j]) for nm in NAMES), **tol)
            if not f32 and live:
                # correspondence on the same quotes: the model at the arguments the derivative has to hand to the formula
                # (log(S/K), log(running max/K) formed as the instrument documents them, from the current spot)
                ls, lm = (spot / K).log(), (rmax / K).log()
                for i, j in [g.choice(live) for _p in range(2)]:
                    e = [float(ls[i, j]), float(ttm[i, j]), sigma, K, float(lm[i, j])]
                    for nm, fn, call in (("c", "european_price", True), ("p", "european_price", False), ("bc", "european_binary_price", True),
                                         ("ab", "american_binary_price", True), ("lb", "lookback_price", True)):
                        items.append((fn, call, e))
                        metas.append((scase | {"path": i, "step": j, "fn": fn, "call": call, "args": e}, float(pr[nm][i, j])))
                # ... and the module layer: BlackScholes(derivative).price() on one whole path (every step with time to maturity > 0)
                # against modulePrice of the model's module built from the same one-path market (input resolution included:
                # log-moneyness, running maximum, time to maturity and volatility are formed by the model from spot / dt / strike)
                i = g.choice(live)[0]
                cells, row = [j for (i2, j) in live if i2 == i], [float(x) for x in spot[i]]
                mkt = {"spot": enc_flt(row), "variance": enc_flt([sigma * sigma] * len(row)), "volatility": enc_flt([float(x) for x in stock.volatility[i]]),
                       "listed": enc_flt(row), "dt": float_bits(dt), "strike": float_bits(K), "oracle": enc_flt([0.0] * len(row))}
                for nm in NAMES:
                    mod_reqs.append({"op": "bs_module", "kind": MOD_KIND[nm][0], "method": "price", "build": "from_derivative", "given": {}, "cells": cells,
                                     "derivative": {"market": mkt, "call": MOD_KIND[nm][1], "simulated": True, "has_vol": True}})
                    mod_metas.append((scase | {"path": i, "derivative": nm, "steps": cells}, [float(pr[nm][i, j]) for j in cells],
                                      bool(getattr(bsm[(who, nm)], "call", True)), float(bsm[(who, nm)].strike)))
            return True

        simulate(route, n_paths, init, tseed)
        ok = quote(ders, "derivative:", "first simulation", dtype, float(torch.tensor(K, dtype=dtype)) if start == "at-strike" else None)
        cur = dtype
        for n_ev, ev in enumerate(later):
            if not ok:
                break
            stage = f"after event {n_ev + 1} ({ev['event']})"
            ctx.stats[f"derivative event={ev['event']}"] += 1
            if ev["event"] == "cast":
                cur = torch.float64 if cur == torch.float32 else torch.float32
                (stock if ev["through"] == "stock" else ders[ev["through"]]).to(cur)
                ok = quote(ders, "recast:", stage + f": market cast to {cur} through {ev['through']}", cur)
                continue
            twin = None
            if ev["event"] == "copy":       # the derivatives together with their kept pricing modules (one deepcopy: sharing is preserved)
                twin, mods = copy.deepcopy((ders, {k[1]: m for k, m in bsm.items() if k[0] == "originals"}))
                bsm.update({(f"copy {n_ev}", nm): m for nm, m in mods.items()})
            simulate(ev["route"], ev["n_paths"], ev["init_state"], ev["torch_seed"])
            ok = quote(ders, "resimulated:", stage + f": underlier simulated again through {ev['route']}", cur,
                       float(torch.tensor(K, dtype=cur)) if ev["start"] == "at-strike" else None)
            if ok and twin is not None:
                ok = quote(twin, "copied:", stage + ": deep copy taken before the originals were simulated again", cur, who=f"copy {n_ev}")
    if family == "subclass":
        from pfhedge.nn.modules.bs.black_scholes import BlackScholesModuleFactory
        slots, _names = user_classes()
        stock = BrownianStock()
        # error paths: unregistered subclasses of registered contracts (library / user parent), puts of contracts registered with a
        # path-dependent module, and every registered user contract once as a call and once as a put
        probes = [cls_(stock, call=c_) for cls_ in _USER["unregistered"] for c_ in (True, False)]
        probes += [dcls(stock, call=c_) for nm in ("c", "bc") for dcls, _m in slots[nm] for c_ in (True, False)]
        for nm in ("ab", "lb"):
            for dcls, _m in slots[nm]:
                st, der, _ = call_impl(dcls, stock, call=False)      # the library path-dependent contracts take `call`
                probes += [dcls(stock)] + ([der] if st == "ok" else [])
        probes += [EuropeanOption(stock, call=False), EuropeanBinaryOption(stock, call=False), AmericanBinaryOption(stock), LookbackOption(stock)]
        for der in probes:
            (q, impl), _r = factory_query(torch, BlackScholes, der)
            fac_qs.append(q)
            fac_metas.append(({"kind": "factory-probe", "class": q["name"], "mro": q["mro"][:3], "call": q["call"]}, impl))
        hist = _USER["history"]
        try:
            fout = ctx.driver([{"op": "factory", "history": hist, "queries": fac_qs}])[0]
        except DriverBroken as e:
            ctx.ties_broken.append({"kind": "driver", "detail": str(e)[:1500]})
            fout = None
        if fout is not None:
            now = [[name, mcls.__name__] for name, mcls in BlackScholesModuleFactory().named_modules()]
            if fout.get("named_modules") != now:
                ctx.disagree("factory:named_modules", {"kind": "factory", "history": hist}, now, fout.get("named_modules", fout))
            for (fcase, impl), r in zip(fac_metas, fout.get("resolved", [])):
                ctx.evaluations += 1
                if r.get("construct") != impl:
                    ctx.disagree("factory", fcase | {"history": [h_[:2] for h_ in hist]}, impl, r)
                else:
                    ctx.stats["factory:agreed:" + ("ok" if "ok" in impl else impl["err"])] += 1
            if len(fout.get("resolved", [])) != len(fac_metas):
                ctx.disagree("factory", {"kind": "factory", "queries": len(fac_metas)}, len(fac_metas), fout)
    try:
        outs = ctx.driver(mod_reqs) if mod_reqs else []
    except DriverBroken as e:
        ctx.ties_broken.append({"kind": "driver", "detail": str(e)[:1500]})
        outs = []
    for (mcase, vals, call, strike), r in zip(mod_metas, outs):
        con = r.get("construct", {}).get("ok")
        if con is None or con["call"] != call or con["strike"] != float_bits(strike):
            ctx.disagree("bs_module:construct", mcase, [call, strike], r.get("construct", r))
            continue
        ctx.evaluations += 1
        for j, got, cell in zip(mcase["steps"], vals, r["cells"]):
            mv = cell["value"]
            if "ok" not in mv or not rel_close(got, float_of_bits(mv["ok"]), 1e-9, 1e-11):
                ctx.disagree("bs_module:value", mcase | {"step": j}, got, mv | {"resolved": cell["resolved"]})
                break
            ctx.stats["bs_module:agreed:value_cells"] += 1


ARG_NAMES = ("log_moneyness", "max_log_moneyness", "time_to_maturity", "volatility")


def partial_block(ctx, torch, g, n_scen, items, metas):
    """modules bound to a simulated derivative, called with PARTIAL argument lists (round 7): every subset of
    (log_moneyness, max_log_moneyness, time_to_maturity, volatility) given explicitly, the rest left to be acquired from
    the derivative, for every module kind (the European kinds take the subset without the running maximum).  The explicit
    values differ from what the derivative holds: the spot bumped down (a stress scenario), bumped up as far as the recorded
    maximum allows, one time step handed in as a column (N,1); a higher running maximum, the final one as a column, one exactly
    at the strike; another time to maturity (scaled, constant column, one element, a row over the steps); another volatility
    (full shape, one element, column).  The relations of the property are evaluated at the EFFECTIVE point of every cell — the
    explicit value where one was given, what the derivative records otherwise (spot, running maximum of the spot buffer
    recomputed here, time to maturity) — on the cells with time to maturity > 0 and running maximum >= spot; the quote must
    also be the functional at that point.  Six derivatives on one underlier (library classes or user-defined subclasses),
    modules from BlackScholes(derivative) or <module class>.from_derivative; float32 and float64 markets.  float64 quotes
    also go to the model: two cells per subset to op bs, one path per subset to the module layer (op bs_module with `given`)."""
    from pfhedge.instruments import BrownianStock, EuropeanOption, EuropeanBinaryOption, AmericanBinaryOption, LookbackOption
    from pfhedge.nn import BlackScholes, BSEuropeanOption, BSEuropeanBinaryOption, BSAmericanBinaryOption, BSLookbackOption
    NAMES = ("c", "p", "bc", "bp", "ab", "lb")
    KIND = {"c": ("european", "european_price", True), "p": ("european", "european_price", False),
            "bc": ("european_binary", "european_binary_price", True), "bp": ("european_binary", "european_binary_price", False),
            "ab": ("american_binary", "american_binary_price", True), "lb": ("lookback", "lookback_price", True)}
    LIB = {"c": (EuropeanOption, BSEuropeanOption), "p": (EuropeanOption, BSEuropeanOption), "bc": (EuropeanBinaryOption, BSEuropeanBinaryOption),
           "bp": (EuropeanBinaryOption, BSEuropeanBinaryOption), "ab": (AmericanBinaryOption, BSAmericanBinaryOption), "lb": (LookbackOption, BSLookbackOption)}
    mod_reqs, mod_metas = [], []
    for n_sc in range(n_scen):
        dtype = g.choice([torch.float32, torch.float64])
        f32 = dtype == torch.float32
        K = g.choice([0.9, 1.02, 1.05, 1.3, 0.7, 1.0, 2.0, round(g.r.uniform(0.5, 2.0), 2), g.r.uniform(0.3, 3.0)])
        sigma = g.choice([0.2, 0.3, 0.4, round(g.r.uniform(0.1, 0.8), 2)])
        dt = g.choice([1 / 250, 1 / 365, 0.01])
        n_steps, n_paths = g.randint(2, 6), g.randint(1, 4)
        N, T = n_paths, n_steps + 1
        maturity = n_steps * dt
        start = g.weighted([("at-strike", 4), ("below", 3), ("above", 2)]) if n_sc else "at-strike"
        init = K * {"at-strike": 1.0, "below": g.choice([0.999, 0.98, 0.9]), "above": g.choice([1.001, 1.05])}[start]
        tseed = g.randint(0, 10 ** 6)
        family = g.choice(["library", "subclass"])
        built = g.choice(["BlackScholes", "from_derivative"]) if family == "library" else "BlackScholes"
        cls_of = {nm: LIB[nm][0] for nm in NAMES}
        if family == "subclass":
            slots, _names = user_classes()
            for nm in ("ab", "lb", g.choice(["c", "bc", "p", "bp"])):
                cls_of[nm] = g.choice(slots[nm])[0]
        case0 = {"kind": "partial-arguments", "dtype": str(dtype), "strike": K, "sigma": sigma, "dt": dt, "n_steps": n_steps, "start": start, "init_state": init,
                 "n_paths": n_paths, "torch_seed": tseed, "built": built, "classes": {nm: cls_of[nm].__name__ for nm in NAMES}}
        stock = BrownianStock(sigma=sigma, dt=dt).to(dtype)
        ders = {nm: (cls_of[nm](stock, strike=K, maturity=maturity) if nm in ("ab", "lb") else cls_of[nm](stock, call=KIND[nm][2], strike=K, maturity=maturity))
                for nm in NAMES}
        torch.manual_seed(tseed)
        stock.simulate(n_paths=n_paths, time_horizon=maturity, init_state=(init,))
        if tuple(stock.spot.shape) != (N, T) or stock.spot.dtype != dtype:
            raise InternalError(f"scenario construction: spot {tuple(stock.spot.shape)} {stock.spot.dtype}, expected {(N, T)} {dtype}")
        mods = {nm: (BlackScholes(ders[nm]) if built == "BlackScholes" else LIB[nm][1].from_derivative(ders[nm])) for nm in NAMES}
        Kd = float(torch.tensor(K, dtype=dtype))
        spot = stock.spot.clone()
        rmax = spot.cummax(dim=-1).values
        # what the derivative documents to hand to the formula: log(S/K), log(running max/K), time to maturity, the volatility of the underlier
        own = {"log_moneyness": (spot / K).log(), "max_log_moneyness": (rmax / K).log(),
               "time_to_maturity": ders["ab"].time_to_maturity().clone(), "volatility": torch.full((N, T), sigma, dtype=dtype)}
        mk = lambda x: torch.tensor(x, dtype=dtype)
        for bits in range(16):
            G = [a for i, a in enumerate(ARG_NAMES) if bits >> i & 1]
            how, given = {}, {}
            if "log_moneyness" in G:
                how["log_moneyness"] = h = g.weighted([("bumped-down", 4), ("one-step-column", 3), ("bumped-up-to-max", 2), ("own", 1)]) if bits != 1 or n_sc > 1 \
                    else ("bumped-down", "one-step-column")[n_sc]
                b = g.choice([0.08, 0.3, 1e-3, 0.02])
                s0 = own["log_moneyness"]
                given["log_moneyness"] = {"bumped-down": lambda: s0 - b, "one-step-column": lambda: s0[:, [g.randint(0, T - 1)]] - g.choice([0.0, b]),
                                          "bumped-up-to-max": lambda: torch.minimum(s0 + b, own["max_log_moneyness"]), "own": lambda: s0.clone()}[h]()
            if "max_log_moneyness" in G:
                how["max_log_moneyness"] = h = g.weighted([("higher", 4), ("final-column", 2), ("at-strike", 2), ("own", 1)])
                m0 = own["max_log_moneyness"]
                given["max_log_moneyness"] = {"higher": lambda: m0 + g.choice([0.1, 0.5, 1e-3]), "final-column": lambda: m0[:, [T - 1]].clone(),
                                              "at-strike": lambda: torch.zeros(N, 1, dtype=dtype), "own": lambda: m0.clone()}[h]()
            if "time_to_maturity" in G:
                how["time_to_maturity"] = h = g.choice(["scaled", "column", "one-element", "row"])
                tau = g.choice([0.1, 0.25, 1.0, round(g.r.uniform(0.01, 2.0), 3)])
                given["time_to_maturity"] = {"scaled": lambda: own["time_to_maturity"] * g.choice([0.5, 2.0, 10.0]), "column": lambda: torch.full((N, 1), tau, dtype=dtype),
                                             "one-element": lambda: mk([tau]), "row": lambda: mk([tau * (T - j) / T for j in range(T)])}[h]()
            if "volatility" in G:
                how["volatility"] = h = g.choice(["full", "one-element", "column"])
                sig2 = g.choice([0.1, 0.25, 0.5, round(g.r.uniform(0.05, 1.0), 2)])
                given["volatility"] = {"full": lambda: torch.full((N, T), sig2, dtype=dtype), "one-element": lambda: mk([sig2]), "column": lambda: torch.full((N, 1), sig2, dtype=dtype)}[h]()
            eff = {a: torch.broadcast_to(given[a] if a in given else own[a], (N, T)).to(torch.float64) for a in ARG_NAMES}
            # the effective point in price units: exact spot / running maximum of the buffer where the derivative is asked
            S_ = spot.to(torch.float64) if "log_moneyness" not in given else K * eff["log_moneyness"].exp()
            M_ = rmax.to(torch.float64) if "max_log_moneyness" not in given else K * eff["max_log_moneyness"].exp()
            reached = (rmax.to(torch.float64) >= Kd) if "max_log_moneyness" not in given else (eff["max_log_moneyness"] >= 0)
            live = [(i, j) for i in range(N) for j in range(T) if float(eff["time_to_maturity"][i, j]) > 0
                    and float(eff["max_log_moneyness"][i, j]) >= float(eff["log_moneyness"][i, j])]
            forgets = any(float(M_[i, j]) > float(S_[i, j]) and bool(reached[i, j]) for i, j in live)      # history that the current spot does not show
            case = case0 | {"given": {a: {"how": how[a], "shape": list(given[a].shape), "values": given[a].tolist()} for a in G},
                            "acquired": [a for a in ARG_NAMES if a not in G], "spot": spot.tolist()}
            ctx.case(case, bool(live) and 0 < bits < 15, tag="partial-arguments")
            ctx.stats[f"partial given={len(G)}"] += 1
            ctx.stats["partial live cells with a recorded barrier hit above the spot" if forgets else "partial other"] += 1
            ctx.traces += 1
            pr, ok = {}, True
            for nm in NAMES:
                kind, fn, call = KIND[nm]
                kw = {a: x for a, x in given.items() if a != "max_log_moneyness" or nm in ("ab", "lb")}
                want = tuple(torch.broadcast_shapes(*[tuple(kw[a].shape) if a in kw else (N, T) for a in ARG_NAMES if a != "max_log_moneyness" or nm in ("ab", "lb")]))
                st, val, mut = call_impl(lambda: mods[nm].price(**kw), watch=list(kw.items()))
                if mut:
                    ctx.mutated(f"{type(mods[nm]).__name__}.price", mut, case | {"derivative": nm})
                if st != "ok" or tuple(val.shape) != want:
                    ctx.fail("a Black-Scholes module bound to a simulated derivative raised / returned another shape than the broadcast of its inputs when it was called with "
                             "some arguments given and the rest left to be acquired from the derivative", case | {"derivative": nm, "passed": sorted(kw)},
                             key=f"partial:{kind}:price-call", detail=str(val)[:300] if st != "ok" else {"got": list(val.shape), "expected": list(want)})
                    ok = False
                    break
                pr[nm] = torch.broadcast_to(val.detach(), (N, T)).to(torch.float64)
                # the quote is the functional at the effective point
                e = [torch.broadcast_to(given[a] if a in given else own[a], (N, T)) for a in ARG_NAMES]
                ref = call_bs(torch, fn, e[0], e[2], e[3], K, e[1], call).to(torch.float64)
                for i, j in live:
                    if not rel_close(float(pr[nm][i, j]), float(ref[i, j]), 2e-5 if f32 else 1e-10, 2e-6 if f32 else 1e-12):
                        ctx.fail("a Black-Scholes module bound to a simulated derivative, called with some arguments given and the rest acquired, does not quote the price at "
                                 "(explicit values where given, what the derivative records otherwise)", case | {"derivative": nm, "passed": sorted(kw), "path": i, "step": j,
                                 "effective": {a: float(eff[a][i, j]) for a in ARG_NAMES}},
                                 key=f"partial:{kind}:differs-from-functional", detail={"module": float(pr[nm][i, j]), "functional_at_effective_point": float(ref[i, j])})
                        break
            if not ok:
                continue
            tol = dict(eps=2e-5, par=2e-5, binpar=2e-6) if f32 else {}
            for i, j in live:
                def bad(what, key, **d):
                    ctx.fail(what + " (module bound to a simulated derivative, called with " + (", ".join(G) or "nothing") + " given explicitly and the rest acquired from the derivative)",
                             case | {"path": i, "step": j, "effective": {a: float(eff[a][i, j]) for a in ARG_NAMES}, "strike_in_dtype": Kd}, key=key, detail=d)
                point_relations(bad, "partial:", float(S_[i, j]), K, float(M_[i, j]), bool(reached[i, j]), *(float(pr[nm][i, j]) for nm in NAMES), **tol)
            if f32 or not live:
                continue
            for i, j in [g.choice(live) for _p in range(2)]:
                e = [float(eff["log_moneyness"][i, j]), float(eff["time_to_maturity"][i, j]), float(eff["volatility"][i, j]), K, float(eff["max_log_moneyness"][i, j])]
                for nm in ("c", "p", "bc", "ab", "lb"):
                    items.append((KIND[nm][1], KIND[nm][2], e))
                    metas.append((case0 | {"given": sorted(G), "path": i, "step": j, "fn": KIND[nm][1], "call": KIND[nm][2], "args": e}, float(pr[nm][i, j])))
            i = g.choice(live)[0]
            cells, row = [j for (i2, j) in live if i2 == i], [float(x) for x in spot[i]]
            mkt = {"spot": enc_flt(row), "variance": enc_flt([sigma * sigma] * T), "volatility": enc_flt([float(x) for x in stock.volatility[i]]),
                   "listed": enc_flt(row), "dt": float_bits(dt), "strike": float_bits(K), "oracle": enc_flt([0.0] * T)}
            for nm in NAMES:
                mod_reqs.append({"op": "bs_module", "kind": KIND[nm][0], "method": "price", "build": "from_derivative", "cells": cells,
                                 "given": {a: enc_flt([float(x) for x in eff[a][i]]) for a in G if a != "max_log_moneyness" or nm in ("ab", "lb")},
                                 "derivative": {"market": mkt, "call": KIND[nm][2], "simulated": True, "has_vol": True}})
                mod_metas.append((case0 | {"given": {a: eff[a][i].tolist() for a in G}, "spot_path": row, "path": i, "derivative": nm, "steps": cells},
                                  [float(pr[nm][i, j]) for j in cells], bool(getattr(mods[nm], "call", True)), float(mods[nm].strike)))
    try:
        outs = ctx.driver(mod_reqs) if mod_reqs else []
    except DriverBroken as e:
        ctx.ties_broken.append({"kind": "driver", "detail": str(e)[:1500]})
        outs = []
    for (mcase, vals, call, strike), r in zip(mod_metas, outs):
        con = r.get("construct", {}).get("ok")
        if con is None or con["call"] != call or con["strike"] != float_bits(strike):
            ctx.disagree("bs_module:construct", mcase, [call, strike], r.get("construct", r))
            continue
        ctx.evaluations += 1
        for j, got, cell in zip(mcase["steps"], vals, r["cells"]):
            mv = cell["value"]
            if "ok" not in mv or not rel_close(got, float_of_bits(mv["ok"]), 1e-9, 1e-11):
                ctx.disagree("bs_module:value", mcase | {"step": j}, got, mv | {"resolved": cell["resolved"]})
                break
            ctx.stats["bs_module:agreed:partial_value_cells"] += 1


def check(ctx):
    torch, pfhedge = import_impl()
    g = ctx.gen
    ctx.lean_gate()
    n = 1500 if ctx.tier == "quick" else 12000
    from pfhedge.nn import BSEuropeanOption, BSEuropeanBinaryOption, BSAmericanBinaryOption, BSLookbackOption
    PF = lambda fn, s, t, v, k, m=None, call=True: float(call_bs(torch, fn, s, t, v, k, s if m is None else m, call))
    T64 = lambda x: torch.tensor([x], dtype=torch.float64)

    def PM(fn, s, t, v, k, m=None, call=True):
        """the same price quoted by the pricing MODULE constructed with this strike / call flag"""
        m = s if m is None else m
        if fn == "european_price":
            return float(BSEuropeanOption(call=call, strike=k).price(T64(s), T64(t), T64(v)))
        if fn == "european_binary_price":
            return float(BSEuropeanBinaryOption(call=call, strike=k).price(T64(s), T64(t), T64(v)))
        if fn == "american_binary_price":
            return float(BSAmericanBinaryOption(strike=k).price(T64(s), T64(m), T64(t), T64(v)))
        return float(BSLookbackOption(strike=k).price(T64(s), T64(m), T64(t), T64(v)))

    def PP(fn, s, t, v, k, m=None, call=True):
        """the functional with all arguments positional, in the documented order"""
        return float(call_bs_positional(torch, g, fn, s, t, v, k, s if m is None else m, call))
    items, metas = [], []
    for _ in range(n):
        s, t, v, k, m = gen_point(g, True)
        via = g.weighted([("module", 0.3), ("positional", 0.15), ("functional", 0.55)])
        P = {"module": PM, "positional": PP, "functional": PF}[via]
        ctx.stats[f"via={via}"] += 1
        case = {"s": s, "t": t, "v": v, "k": k, "m": m, "via": via}
        ctx.case(case, True, tag="relations")
        ctx.traces += 1
        S = k * math.exp(s)
        sc = max(1.0, k, S)
        c, p = P("european_price", s, t, v, k), P("european_price", s, t, v, k, call=False)
        bc, bp = P("european_binary_price", s, t, v, k), P("european_binary_price", s, t, v, k, call=False)
        ab = P("american_binary_price", s, t, v, k, m)
        lb = P("lookback_price", s, t, v, k, m)
        for fn, call, val in (("european_price", True, c), ("european_price", False, p), ("european_binary_price", True, bc),
                              ("american_binary_price", True, ab), ("lookback_price", True, lb)):
            items.append((fn, call, [s, t, v, k, m]))
            metas.append((case | {"fn": fn, "call": call}, val))

        def bad(what, key, **d):
            if via == "positional":     # a relation broken only for positional calls is a finding of its own
                what, key = what + " (functional called positionally in its documented parameter order)", "positional:" + key.split(":", 1)[1]
            ctx.fail(what, case, key=key, detail=d)
        if abs((c - p) - (S - k)) > 1e-10 * sc:
            bad("European call minus put differs from spot minus strike", "relation:put-call-parity", call=c, put=p)
        if abs(bc + bp - 1.0) > 1e-12:
            bad("binary call plus binary put differs from one", "relation:binary-parity", call=bc, put=bp)
        if c < max(S - k, 0.0) - EPS * sc or c > S + EPS * sc:
            bad("European call outside [intrinsic value, spot]", "relation:call-bounds", call=c, spot=S)
        if not (-EPS <= bc <= 1 + EPS) or not (-EPS <= ab <= 1 + EPS):
            bad("binary / American binary price outside [0,1]", "relation:binary-range", binary=bc, american=ab)
        if ab < bc - EPS:
            bad("American binary worth less than the European binary", "relation:american-ge-european", american=ab, european=bc)
        if m >= 0 and ab != 1.0:
            bad("American binary is not exactly one once the barrier has been reached", "relation:american-after-hit", american=ab)
        if lb < c - EPS * sc:
            bad("lookback call worth less than the European call", "relation:lookback-ge-european", lookback=lb, call=c)
        if lb < max(k * math.exp(m) - k, 0.0) - EPS * sc:
            bad("lookback call worth less than its locked-in payoff", "relation:lookback-ge-locked-in", lookback=lb, locked=k * math.exp(m) - k)
        # pairs: monotone / convex in the spot, monotone in volatility and time
        h = g.choice([0.3, 0.05, 1e-3])
        c_up, c_dn = P("european_price", s + h, t, v, k), P("european_price", s - h, t, v, k)
        if not (c_dn <= c + EPS * sc and c <= c_up + EPS * sc):
            bad("European call not increasing in the spot", "relation:call-mono-spot", down=c_dn, mid=c, up=c_up)
        S_up, S_dn = k * math.exp(s + h), k * math.exp(s - h)
        lam = (S - S_dn) / (S_up - S_dn)
        if c > (1 - lam) * c_dn + lam * c_up + 1e-10 * sc:
            bad("European call not convex in the spot", "relation:call-convex-spot", down=c_dn, mid=c, up=c_up)
        v2 = v * (1 + g.choice([0.5, 0.05, 1e-3]))
        t2 = t * (1 + g.choice([0.5, 0.05, 1e-3]))
        if P("european_price", s, t, v2, k) < c - EPS * sc:
            bad("European call decreases with volatility", "relation:call-mono-vol", v2=v2)
        if P("european_price", s, t2, v, k) < c - EPS * sc:
            bad("European call decreases with time to maturity", "relation:call-mono-time", t2=t2)
        # continuity where the running maximum crosses the strike
        if g.chance(0.3) and s < -0.01:
            lo, hi = P("lookback_price", s, t, v, k, -1e-13), P("lookback_price", s, t, v, k, 0.0)
            if abs(lo - hi) > 1e-9 * sc:
                bad("lookback price jumps where the running maximum crosses the strike", "relation:lookback-continuity", below=lo, at=hi)
    batched_block(ctx, torch, g, 120 if ctx.tier == "quick" else 1000)
    batched_block(ctx, torch, g, 48 if ctx.tier == "quick" else 400, layouts=MAX_LAYOUTS, items=items, metas=metas)
    derivative_block(ctx, torch, g, 80 if ctx.tier == "quick" else 600, items, metas)
    derivative_block(ctx, torch, g, 32 if ctx.tier == "quick" else 250, items, metas, family="subclass")
    partial_block(ctx, torch, g, 8 if ctx.tier == "quick" else 60, items, metas)
    try:
        mv = model_vals(ctx, items)
    except DriverBroken as e:
        ctx.ties_broken.append({"kind": "driver", "detail": str(e)[:1500]})
        mv = []
    for (case, got), m_ in zip(metas, mv):
        if isinstance(m_, tuple) or not rel_close(got, m_, 1e-10, 1e-12):
            ctx.disagree("bs_price", case, got, m_)
    return ctx.finish(
        rule="prices quoted by the functional forms (keywords; 15 % with every argument positional in the documented order) and (30 %) by the pricing modules built with the strike / call flag; points of the open domain with running max >= spot (incl. equality and max exactly at the strike) and pairs at relative distances "
             "{0.3, 0.05, 1e-3} for the monotonicity / convexity relations; batched calls (2-16 scenarios with the running max below / at / above the strike mixed in one tensor; flat, matrix, broadcast grid, strided and expanded layouts; "
             "functional or module) compared bit for bit with the one-element calls and checked against the point relations (non-trivial = regimes mixed); Black-Scholes modules reading simulated derivatives (BrownianStock float32/float64, "
             "decimal / random strikes, started exactly on / below / above the strike, 1-6 paths, 2-8 steps) checked against the point relations at every step with time to maturity > 0; "
             "six derivatives on ONE underlier, quoted again after 0-2 later events (underlier simulated again directly / through any of the six / through a seventh derivative, market cast to the other precision, deep copy taken "
             "before the originals move on; pricing modules kept or rebuilt), spot and running maximum recomputed from the current stock.spot; two points of every float64 quote also sent to the model, and one whole path of every float64 quote to the model of the MODULE layer (op bs_module: module built from the same one-path market, construction + price at every live step, rel 1e-9); "
             "max-broadcast grids on every tier (running maximum (n,1) against (q,) spots, (n,) against 0-dim spot / time / volatility, (n,1,1) against (r,1) x (q,); histories at a spot, at the strike, "
             "just below it, above; functional / positional / module; in-domain pairs only; bit for bit against one-element calls, point relations, two elements per grid to the model); "
             "the derivative scenarios repeated with user-defined subclasses of the library derivatives (one-touch as a subclass of EuropeanBinaryOption, call on the maximum as a subclass of "
             "EuropeanOption, renamed contracts, subclasses of subclasses; own module — library class or user subclass of it — registered under the own class name): class and binding of "
             "BlackScholes(derivative) + all relations + model of the module layer; every BlackScholes(derivative) of these scenarios, plus probes (unregistered subclasses of registered "
             "contracts, puts of contracts registered with a path-dependent module, every registered contract as call and put), also resolved by the model of the registry (op factory: history of "
             "register_module calls read off named_modules() + the calls made here, two names registered twice; class name + MRO + call flag -> module class name / call flag of the instance or error kind, "
             "and the named_modules() order), compared exactly; "
             "modules bound to a simulated derivative (six on one underlier, library classes / user subclasses, BlackScholes(derivative) / from_derivative, float32 / float64) called with every one of the 16 subsets of "
             "(log_moneyness, max_log_moneyness, time_to_maturity, volatility) given explicitly (spot bumped down / up to the recorded maximum / one step as a column (N,1); running maximum higher / final column / at the strike; "
             "time scaled / column / one element / row; volatility full / one element / column) and the rest acquired: point relations at the effective point on the cells with time > 0 and running maximum >= spot, "
             "quote = functional at the effective point (rel 1e-10 float64, 2e-5 float32), float64: two cells per subset to the model of the formulas and one path per subset to the model of the module layer with `given`; "
             "distinct = sha1 of canonical case")
