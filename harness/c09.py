"""C09 — Black-Scholes prices respect no-arbitrage structure.

correspondence: the four price functions vs the Lean model over the box (single-call conformance
is what transfers the theorems of Props/C09 to the code, up to the float bound).
predicate (real code): each relation evaluated on points / pairs of points; only violations
larger than the rounding bound of the evaluations involved are reported.
"""
import math
from common import *  # noqa
from bs_common import *  # noqa

EPS = 1e-11


def check(ctx):
    torch, pfhedge = import_impl()
    g = ctx.gen
    ctx.lean_gate()
    n = 1500 if ctx.tier == "quick" else 12000
    from pfhedge.nn import BSEuropeanOption, BSEuropeanBinaryOption, BSAmericanBinaryOption, BSLookbackOption
    PF = lambda fn, s, t, v, k, m=None, call=True: float(call_bs(torch, fn, s, t, v, k, s if m is None else m, call))
    T64 = lambda x: torch.tensor([x], dtype=torch.float64)

    def PM(fn, s, t, v, k, m=None, call=True):
        """the same price quoted by the pricing MODULE constructed with this strike / call flag"""
        m = s if m is None else m
        if fn == "european_price":
            return float(BSEuropeanOption(call=call, strike=k).price(T64(s), T64(t), T64(v)))
        if fn == "european_binary_price":
            return float(BSEuropeanBinaryOption(call=call, strike=k).price(T64(s), T64(t), T64(v)))
        if fn == "american_binary_price":
            return float(BSAmericanBinaryOption(strike=k).price(T64(s), T64(m), T64(t), T64(v)))
        return float(BSLookbackOption(strike=k).price(T64(s), T64(m), T64(t), T64(v)))
    items, metas = [], []
    for _ in range(n):
        s, t, v, k, m = gen_point(g, True)
        use_mod = g.chance(0.3)
        P = PM if use_mod else PF
        ctx.stats[f"via={'module' if use_mod else 'functional'}"] += 1
        case = {"s": s, "t": t, "v": v, "k": k, "m": m, "via": "module" if use_mod else "functional"}
        ctx.case(case, True, tag="relations")
        ctx.traces += 1
        S = k * math.exp(s)
        sc = max(1.0, k, S)
        c, p = P("european_price", s, t, v, k), P("european_price", s, t, v, k, call=False)
        bc, bp = P("european_binary_price", s, t, v, k), P("european_binary_price", s, t, v, k, call=False)
        ab = P("american_binary_price", s, t, v, k, m)
        lb = P("lookback_price", s, t, v, k, m)
        for fn, call, val in (("european_price", True, c), ("european_price", False, p), ("european_binary_price", True, bc),
                              ("american_binary_price", True, ab), ("lookback_price", True, lb)):
            items.append((fn, call, [s, t, v, k, m]))
            metas.append((case | {"fn": fn, "call": call}, val))

        def bad(what, key, **d):
            ctx.fail(what, case, key=key, detail=d)
        if abs((c - p) - (S - k)) > 1e-10 * sc:
            bad("European call minus put differs from spot minus strike", "relation:put-call-parity", call=c, put=p)
        if abs(bc + bp - 1.0) > 1e-12:
            bad("binary call plus binary put differs from one", "relation:binary-parity", call=bc, put=bp)
        if c < max(S - k, 0.0) - EPS * sc or c > S + EPS * sc:
            bad("European call outside [intrinsic value, spot]", "relation:call-bounds", call=c, spot=S)
        if not (-EPS <= bc <= 1 + EPS) or not (-EPS <= ab <= 1 + EPS):
            bad("binary / American binary price outside [0,1]", "relation:binary-range", binary=bc, american=ab)
        if ab < bc - EPS:
            bad("American binary worth less than the European binary", "relation:american-ge-european", american=ab, european=bc)
        if m >= 0 and ab != 1.0:
            bad("American binary is not exactly one once the barrier has been reached", "relation:american-after-hit", american=ab)
        if lb < c - EPS * sc:
            bad("lookback call worth less than the European call", "relation:lookback-ge-european", lookback=lb, call=c)
        if lb < max(k * math.exp(m) - k, 0.0) - EPS * sc:
            bad("lookback call worth less than its locked-in payoff", "relation:lookback-ge-locked-in", lookback=lb, locked=k * math.exp(m) - k)
        # pairs: monotone / convex in the spot, monotone in volatility and time
        h = g.choice([0.3, 0.05, 1e-3])
        c_up, c_dn = P("european_price", s + h, t, v, k), P("european_price", s - h, t, v, k)
        if not (c_dn <= c + EPS * sc and c <= c_up + EPS * sc):
            bad("European call not increasing in the spot", "relation:call-mono-spot", down=c_dn, mid=c, up=c_up)
        S_up, S_dn = k * math.exp(s + h), k * math.exp(s - h)
        lam = (S - S_dn) / (S_up - S_dn)
        if c > (1 - lam) * c_dn + lam * c_up + 1e-10 * sc:
            bad("European call not convex in the spot", "relation:call-convex-spot", down=c_dn, mid=c, up=c_up)
        v2 = v * (1 + g.choice([0.5, 0.05, 1e-3]))
        t2 = t * (1 + g.choice([0.5, 0.05, 1e-3]))
        if P("european_price", s, t, v2, k) < c - EPS * sc:
            bad("European call decreases with volatility", "relation:call-mono-vol", v2=v2)
        if P("european_price", s, t2, v, k) < c - EPS * sc:
            bad("European call decreases with time to maturity", "relation:call-mono-time", t2=t2)
        # continuity where the running maximum crosses the strike
        if g.chance(0.3) and s < -0.01:
            lo, hi = P("lookback_price", s, t, v, k, -1e-13), P("lookback_price", s, t, v, k, 0.0)
            if abs(lo - hi) > 1e-9 * sc:
                bad("lookback price jumps where the running maximum crosses the strike", "relation:lookback-continuity", below=lo, at=hi)
    try:
        mv = model_vals(ctx, items)
    except DriverBroken as e:
        ctx.ties_broken.append({"kind": "driver", "detail": str(e)[:1500]})
        mv = []
    for (case, got), m_ in zip(metas, mv):
        if isinstance(m_, tuple) or not rel_close(got, m_, 1e-10, 1e-12):
            ctx.disagree("bs_price", case, got, m_)
    return ctx.finish(
        rule="prices quoted by the functional forms and (30 %) by the pricing modules built with the strike / call flag; points of the open domain with running max >= spot (incl. equality and max exactly at the strike) and pairs at relative distances "
             "{0.3, 0.05, 1e-3} for the monotonicity / convexity relations; every case non-trivial; distinct = sha1 of canonical case")
