"""C15 — fit() performs exactly the documented training protocol.

correspondence: the real Hedger.fit run with an instrumented optimiser (zero_grad / step), a
derivative that logs simulate(n_paths, init_state) together with hedger.training and
torch.is_grad_enabled(), a criterion that logs its evaluations, and a hook on Tensor.backward; the
canonical event list must equal the one of the Lean model (Model/Fit.lean).
predicate (real code): parameters after fit == parameters after an explicit
simulate/loss/backward/step reference loop under the same seed (bitwise); the gradient present at
each step equals the gradient of that epoch's single batch (no accumulation); history length.
correspondence (numbers): the real Hedger.fit vs the numeric model `fitNum` (Model/FitNum.lean, op "fit_num"): parameters
after fit, per-epoch training losses, validation evaluations / history, gradients at the steps (check_fit_num).
input classes of every entry (main loop, prev_hedge, fit_num): the call spelled with keywords, or with the documented leading options
(hedge, n_epochs, n_paths, n_times[, optimizer, init_state, verbose, validation, tqdm_kwargs]) given BY POSITION; runs whose training /
validation losses become inf / nan (learning rate far too large, overflowing exponential criterion; float64 and float32): still k steps,
k returned losses = the explicit loop's (NaN matches NaN), same parameters.
lazy models (all three loops): besides torch's LazyLinear (which turns into Linear when materialised) a USER-DEFINED lazy layer (LazyModuleMixin subclass with
cls_to_become = None: lazy-typed for ever), handed to fit with its parameters uninitialised (optimiser class) or materialised by the caller's own placeholder
forward (optimiser class and instance).  predicate: the batches fit asks the derivative to simulate (recorded by the derivative) are the k training and k * n_times
validation batches of the requested size, preceded by the documented single-path placeholder batch iff the model has uninitialised parameters and the optimiser
is a class (key fit:batches); parameters vs the explicit loop as always.  The "fit" op gets lazy = "has uninitialised parameters when fit is called".
display option (all three loops): `verbose` is passed as True as well as False (the progress bar is written to the null device through the documented
tqdm_kwargs) in every combination with `validation` and n_times - at random and as a deterministic corpus on every tier.  What fit computes does not depend
on what it displays: the same batches (fit:batches), modes / gradient switches of every batch and loss evaluation (fit:protocol-trace), history and
parameters vs the explicit loop, and the same event list of the Lean model (ops "fit" / "fit_num", which have no display option) - failure keys end in :verbose.
optimiser instances that own more than the current loss reaches (check_shared_optimizer): one stateful instance (SGD momentum / Nesterov / weight decay, Adam, AdamW,
RMSprop) shared by two hedgers fitted one after the other, used for consecutive fits, owning an unrelated parameter trained before or frozen layers; all owned
parameters vs the explicit loop with a twin optimiser after every fit, parameters outside the loss unchanged (keys fit:shared-optimizer:*); event lists to op "fit".
user-defined derivatives with several underliers (check_multi_underlier): best-of / basket / spread pay-offs on 2-3 underliers of the same and of different primary
classes (incl. a user-defined primary with an overridden default state, Heston pairs with a two-component state), fitted with non-default init_state and batch sizes;
explicit loop that simulates EVERY underlier itself from the requested state; at every criterion evaluation of fit every underlier holds a batch of the requested size
starting from the requested state (keys fit:multi-underlier:*); event lists to op "fit".
"""
import copy
import math
import os
from common import *  # noqa

# the DOCUMENTED order of fit's options (docstring "Args:" of Hedger.fit, after `derivative`): a caller may pass any prefix of them by
# position.  Written down here from the documentation, not read off the signature under test.
FIT_DOC_ORDER = ("hedge", "n_epochs", "n_paths", "n_times", "optimizer", "init_state", "verbose", "validation", "tqdm_kwargs")
CALL_FORMS = {"keyword": 0, "positional_sim": 4, "positional": len(FIT_DOC_ORDER)}     # how many options go by position


def gen_call_form(g):
    return g.weighted([("keyword", 3), ("positional", 2), ("positional_sim", 1)])


def call_fit(fit, d, form, **opts):
    """hedger.fit(d, ...) with the first CALL_FORMS[form] options of the documented order given POSITIONALLY, the rest by keyword"""
    npos = CALL_FORMS[form]
    if npos == len(FIT_DOC_ORDER):
        opts.setdefault("tqdm_kwargs", {})
    lead = FIT_DOC_ORDER[:npos]
    if any(nm not in opts for nm in lead):
        raise InternalError(f"call_fit: positional form needs {lead}")
    return call_impl(fit, d, *[opts[nm] for nm in lead], **{k_: v_ for k_, v_ in opts.items() if k_ not in lead})


_NULL = open(os.devnull, "w")


def display_opts(verbose):
    """the display options of a fit call: verbose=True is PASSED as True - the progress bar goes to the null device through tqdm_kwargs, one of
    fit's documented options (tqdm's own `disable` is not available to the caller: fit derives it from verbose)"""
    return {"verbose": True, "tqdm_kwargs": {"file": _NULL}} if verbose else {"verbose": False}


_USER_LAZY = {}


def user_lazy_layer(torch):
    """a USER-DEFINED lazy layer, written as torch documents it (torch.nn.modules.lazy.LazyModuleMixin): y = x W^T + b with the number of
    input features inferred at the first forward.  `cls_to_become` is left at None, so - unlike torch's own LazyLinear, which turns into
    Linear - the module keeps its (lazy) class after its parameters were materialised.  What makes a model "lazy" for fit() is that it HAS
    uninitialised parameters, not the type of its layers."""
    if "cls" not in _USER_LAZY:
        from torch.nn.modules.lazy import LazyModuleMixin
        from torch.nn.parameter import UninitializedParameter

        class LazyAffine(LazyModuleMixin, torch.nn.Module):
            cls_to_become = None

            def __init__(self, out_features, dtype=None):
                super().__init__()
                self.out_features = out_features
                self.weight = UninitializedParameter(dtype=dtype)
                self.bias = UninitializedParameter(dtype=dtype)

            def initialize_parameters(self, input):
                if self.has_uninitialized_params():
                    with torch.no_grad():
                        self.weight.materialize((self.out_features, input.shape[-1]))
                        self.bias.materialize((self.out_features,))
                        bound = 1 / math.sqrt(input.shape[-1])
                        self.weight.uniform_(-bound, bound)
                        self.bias.uniform_(-bound, bound)

            def forward(self, input):
                return torch.nn.functional.linear(input, self.weight, self.bias)
        _USER_LAZY["cls"] = LazyAffine
    return _USER_LAZY["cls"]


def expected_batches(k, n_paths, n_times, validation, placeholder):
    """the batches the documented protocol simulates, in order: per epoch one training batch and, with validation, n_times validation batches,
    all of the requested size; before them ONE placeholder batch of a single path if (and only if) fit has to materialise uninitialised
    parameters before it can construct the optimiser from a class"""
    return ([1] if placeholder else []) + [n_paths] * (k * (1 + (n_times if validation else 0)))


def recording_option(I, sims):
    """EuropeanOption that records the size of every batch it is asked to simulate"""
    class RecOption(I.EuropeanOption):
        def simulate(self, n_paths=1, init_state=None):
            sims.append(int(n_paths))
            super().simulate(n_paths=n_paths, init_state=init_state)
    return RecOption


def same_tensor(torch, a, b, nan_ok=False):
    """bitwise equality; with nan_ok a NaN matches a NaN (runs that diverge)"""
    if a.shape != b.shape:
        return False
    if torch.equal(a, b):
        return True
    return bool(nan_ok and ((a == b) | (a.isnan() & b.isnan())).all())


def history_entry_ok(h, vals, eps, fmax):
    """h = the validation loss fit returned for an epoch, vals = the n_times individual evaluations of the explicit loop: h must be their
    mean.  One evaluation: exactly (NaN matches NaN).  Several: NaN if one is NaN or both infinities occur, the infinity if one occurs,
    otherwise |h - mean| <= 8 n eps max|v| (the order of the n additions is free); a sum that may overflow may also be infinite."""
    if not isinstance(h, float):
        return False
    if len(vals) == 1:
        return h == vals[0] or (math.isnan(h) and math.isnan(vals[0]))
    if any(math.isnan(v) for v in vals) or (math.inf in vals and -math.inf in vals):
        return math.isnan(h)
    infs = [v for v in vals if math.isinf(v)]
    if infs:
        return h == infs[0]
    m = max(abs(v) for v in vals)
    if math.isinf(h):
        return m * len(vals) >= fmax / 2
    return abs(h - sum(vals) / len(vals)) <= 8 * len(vals) * eps * m


def check(ctx):
    torch, pfhedge = import_impl()
    import pfhedge.nn as nn
    import pfhedge.instruments as I
    from pfhedge.nn import Hedger
    g = ctx.gen
    ctx.lean_gate()
    dt = torch.float64
    n = 250 if ctx.tier == "quick" else 1500
    reqs, metas = [], []
    orig_backward = torch.Tensor.backward
    from pfhedge.nn.modules.loss import OCE

    def exp_utility(x):
        return 1 - (-x).exp()
    # thorough tier: the protocol's configuration space is small and discrete - enumerate it COMPLETELY first
    # (epochs x n_times x optimiser form x lazy x validation x explicit hedge list), then continue with random cases
    import itertools
    # the model: without lazy layers / with torch's LazyLinear / with a USER-DEFINED lazy layer (stays lazy-TYPED when materialised), each of the
    # lazy ones handed to fit with its parameters still uninitialised or materialised by the caller's own placeholder forward (an optimiser
    # INSTANCE needs the parameters: always materialised)
    LAZY_SPACE = [(False, None, False)] + [(True, kind_, mat_) for kind_ in ("torch", "user") for mat_ in (False, True)]
    lazy_ok = lambda ok_, lz_: not (ok_ == "instance" and lz_[0] and not lz_[2])
    if ctx.tier == "thorough":
        forced = [dict(k=k_, n_times=nt_, optkind=ok_, lazy=lz_, validation=va_, hedge_list=hl_, verbose=vb_)
                  for k_, nt_, ok_, lz_, va_, hl_, vb_ in itertools.product([0, 1, 2, 3], [1, 2, 3], ["cls", "instance"], LAZY_SPACE, [False, True], [False, True], [False, True])
                  if lazy_ok(ok_, lz_)]
        ctx.extra["exhaustive_configurations"] = len(forced)
        ctx.extra["exhaustive_space"] = ("epochs {0..3} x n_times {1,2,3} x optimiser {class, instance} x model {no lazy layer, torch LazyLinear, user-defined lazy "
                                         "layer; the lazy ones uninitialised (class only) / materialised by the caller} x validation x hedge list x verbose")
    else:
        # every tier: the lazy-model corner of that space as a deterministic corpus (does not depend on the seed)
        forced = [dict(k=k_, n_times=1, optkind=ok_, lazy=lz_, validation=va_, hedge_list=False)
                  for k_, ok_, lz_, va_ in itertools.product([0, 2], ["cls", "instance"], LAZY_SPACE[1:], [True, False]) if lazy_ok(ok_, lz_)]
        ctx.extra["lazy_corpus_configurations"] = len(forced)
        # ... and the display option: every combination of validation x verbose x n_times (x optimiser form)
        display = [dict(k=2, n_times=nt_, optkind=ok_, lazy=LAZY_SPACE[0], validation=va_, hedge_list=False, verbose=vb_)
                   for nt_, va_, vb_, ok_ in itertools.product([1, 2, 3], [False, True], [True, False], ["cls", "instance"])]
        ctx.extra["display_corpus_configurations"] = len(display)
        forced = forced + display
    for it in range(n + len(forced)):
        k = g.choice([0, 1, 2, 3, 7]) if ctx.tier == "thorough" else g.choice([0, 1, 2, 3])
        n_paths = g.choice([1, 4, 16])
        n_times = g.choice([1, 2, 3])
        with_init = g.chance(0.4)
        optkind = g.weighted([("cls", 4), ("instance", 3), ("other", 0.5)])
        lazy = g.chance(0.3)
        lazy_kind = g.choice(["torch", "user"])
        premat = g.chance(0.5)      # the caller materialises the lazy parameters (placeholder forward, as the docstring of fit recommends) before fit
        validation = g.chance(0.7)
        hedge_list = g.chance(0.3)
        optname = g.choice(["SGD", "Adam"])
        seed = g.randint(0, 10 ** 6)
        crit_name = g.choice(["erm", "es", "oce"])
        wide = g.chance(0.5)      # optimiser instance over hedger.parameters() (model AND criterion parameters) instead of the model's only
        # how the caller spells the call: all options by keyword, or the documented leading options by position
        call_form = gen_call_form(g)
        # runs whose losses leave the finite range: a learning rate far too large ("lr": the parameters explode after the first step,
        # the products of the layers overflow) or a model whose hedge is so large that an exponential criterion overflows on the very
        # first batch ("scale").  The protocol does not depend on the numbers: still k steps, k validation losses (inf / nan among
        # them), the same parameters as the explicit loop (NaN matching NaN)
        diverge = g.weighted([(None, 5), ("lr", 1), ("scale", 1)])
        dtc = g.choice([torch.float64, torch.float32]) if diverge else dt
        lr = 0.01
        if diverge == "lr":
            lr = g.choice([1e150, 1e300]) if dtc == torch.float64 else g.choice([1e20, 1e30])
        if diverge == "scale":
            crit_name = g.choice(["oce", "eloss"])
        if diverge == "lr" and crit_name == "oce" and wide and optkind == "instance":
            lr = g.choice([1e20, 1e30])      # OCE owns a float32 parameter: torch refuses a step size beyond the float32 range
        # the display option: a progress bar is shown (verbose=True, fit's default) or not.  It changes nothing of what fit computes
        verbose = g.chance(0.5)
        if it < len(forced):
            f_ = forced[it]
            k, n_times, optkind, validation, hedge_list = f_["k"], f_["n_times"], f_["optkind"], f_["validation"], f_["hedge_list"]
            lazy, lazy_kind, premat = f_["lazy"]
            verbose = f_.get("verbose", verbose)
        lazy_kind = lazy_kind if lazy else None
        materialised = bool(lazy and (premat or optkind == "instance"))      # by the caller, before fit
        uninit = lazy and not materialised                                   # fit() meets uninitialised parameters
        case = {"epochs": k, "n_paths": n_paths, "n_times": n_times, "with_init": with_init, "opt": optkind, "optimizer": optname,
                "lazy": lazy, "lazy_kind": lazy_kind, "materialised": materialised if lazy else None, "validation": validation, "hedge_list": hedge_list, "seed": seed, "criterion": crit_name, "wide_optimizer": wide and optkind == "instance", "call_form": call_form, "verbose": verbose}
        if diverge:
            case |= {"diverge": diverge, "dtype": str(dtc).replace("torch.", ""), "lr": lr}
        # failure keys of the new input classes are their own call sites
        sfx = ((":user-lazy" if lazy_kind == "user" else "") + ("" if call_form == "keyword" else ":positional") + (":nonfinite-loss" if diverge else "")
               + (":verbose" if verbose else ""))
        events = []

        def build():
            torch.manual_seed(seed)
            if lazy:
                first = torch.nn.LazyLinear(3, dtype=dtc) if lazy_kind == "torch" else user_lazy_layer(torch)(3, dtype=dtc)
                model = torch.nn.Sequential(first, torch.nn.ReLU(), torch.nn.Linear(3, 1, dtype=dtc))
            else:
                model = torch.nn.Sequential(torch.nn.Linear(2, 3, dtype=dtc), torch.nn.ReLU(), torch.nn.Linear(3, 1, dtype=dtc))
            if diverge == "scale":
                with torch.no_grad():
                    model[2].weight *= 2.0 ** 40
                    model[2].bias *= 2.0 ** 40
            crit = {"erm": lambda: nn.EntropicRiskMeasure(), "es": lambda: nn.ExpectedShortfall(0.5), "oce": lambda: OCE(exp_utility),
                    "eloss": lambda: nn.EntropicLoss()}[crit_name]()
            return model, crit

        class LogCrit(torch.nn.Module):
            def __init__(self, inner, hedger_ref):
                super().__init__()
                self.inner, self.ref = inner, hedger_ref

            def forward(self, input, target=0.0):
                events.append(["loss", bool(self.ref[0].training), bool(torch.is_grad_enabled())])
                return self.inner(input, target)

            def cash(self, input, target=0.0):
                return self.inner.cash(input, target)

        class LogOption(I.EuropeanOption):
            ref = None

            def simulate(self, n_paths=1, init_state=None):
                events.append(["simulate", int(n_paths), init_state is not None, bool(self.ref[0].training), bool(torch.is_grad_enabled())])
                super().simulate(n_paths=n_paths, init_state=init_state)

        base_opt = getattr(torch.optim, optname)

        class LogOpt(base_opt):
            def __init__(self, params, **kw):
                events.append(["mk_optimizer"])
                super().__init__(params, lr=lr, **kw)
                self.grads_at_step = []

            def zero_grad(self, *a, **kw):
                events.append(["zero_grad"])
                return super().zero_grad(*a, **kw)

            def step(self, *a, **kw):
                events.append(["step"])
                self.grads_at_step.append([None if p.grad is None else p.grad.detach().clone() for gr in self.param_groups for p in gr["params"]])
                return super().step(*a, **kw)

        def make_hedger():
            model, crit = build()
            ref = [None]
            hedger = Hedger(model, ["moneyness", "time_to_maturity"], criterion=LogCrit(crit, ref))
            ref[0] = hedger
            stock = I.BrownianStock(cost=1e-3, dtype=dtc)
            d = LogOption(stock, maturity=3 / 250)
            d.ref = ref
            # train()/eval() logging
            orig_train = hedger.train

            def train(mode=True):
                events.append(["train"] if mode else ["eval"])
                return orig_train(mode)
            hedger.train = train
            return hedger, d, stock, crit
        hedger, d, stock, crit = make_hedger()
        init_state = (1.25,) if with_init else None
        hedge = [stock] if hedge_list else None
        if materialised:      # the caller's own placeholder forward (an optimiser instance needs the parameters to exist)
            d.simulate(n_paths=1)
            hedger.compute_pl(d)
            events.clear()
            if lazy_kind == "user" and not isinstance(hedger.model[0], torch.nn.modules.lazy.LazyModuleMixin):
                raise InternalError("the user-defined lazy layer is expected to keep its class")
        if optkind == "cls":
            opt = LogOpt
        elif optkind == "instance":
            opt = LogOpt(hedger.parameters() if wide else hedger.model.parameters())
            events.clear()
        else:
            opt = g.choice([torch.nn.Linear, "adam", 3])

        def patched_backward(self, *a, **kw):
            events.append(["backward"])
            return orig_backward(self, *a, **kw)
        torch.Tensor.backward = patched_backward
        try:
            torch.manual_seed(seed + 1)
            st, hist, _ = call_fit(hedger.fit, d, call_form, hedge=hedge, n_epochs=k, n_paths=n_paths, n_times=n_times, optimizer=opt,
                                   init_state=init_state, validation=validation, **display_opts(verbose))
        finally:
            torch.Tensor.backward = orig_backward
        # the lazy placeholder's compute_pl contains no loss evaluation; mark it from the simulate(1) event
        evs = []
        for e in events:
            evs.append(e)
            if uninit and optkind == "cls" and len(evs) == 1 and e[0] == "simulate":
                evs.append(["placeholder_pl"])
        # each validation epoch ends with history.append: not observable as an event; derive from the returned history
        ctx.case(case, nontrivial=k >= 1, tag="fit")
        ctx.traces += 1
        for key in ("opt", "lazy", "validation", "call_form", "verbose"):
            ctx.stats[f"{key}={case[key]}"] += 1
        ctx.stats[f"display:validation={validation}/verbose={verbose}/n_times={n_times}"] += 1
        if lazy:
            ctx.stats[f"lazy:{lazy_kind}/{'materialised' if materialised else 'uninitialised'}/{optkind}"] += 1
        if diverge:
            ctx.stats[f"diverge={diverge}"] += 1
        ctx.stats[f"epochs={k}"] += 1
        reqs.append({"op": "fit", "epochs": k, "n_paths": n_paths, "n_times": n_times, "with_init": with_init,
                     "opt": optkind, "lazy": uninit, "validation": validation, "start_training": True})
        metas.append((case, st, hist, evs))

        def explicit_loop():
            """the documented protocol written out: simulate / loss / backward / step per epoch, n_times validation evaluations without
            gradients in evaluation mode, under the same seed.  An exception of torch / the optimiser itself is caught and reported"""
            hedger2, d2, stock2, crit2 = make_hedger()
            if materialised:
                d2.simulate(n_paths=1)
                hedger2.compute_pl(d2)
            torch.manual_seed(seed + 1)
            if uninit and optkind == "cls":
                # fit materialises the lazy parameters by a placeholder simulate(1) + compute_pl AFTER the seed
                # was set and BEFORE constructing the optimiser: replay exactly that
                d2.simulate(n_paths=1)
                hedger2.compute_pl(d2)
            plist2 = list(hedger2.parameters()) if (wide and optkind == "instance") else list(hedger2.model.parameters())
            ref_opt = base_opt(plist2, lr=lr)
            hedge2 = [stock2] if hedge_list else None
            ref_grads, ref_train, ref_vals = [], [], []
            err = None
            try:
                for ep in range(k):
                    hedger2.train()
                    ref_opt.zero_grad()
                    d2.simulate(n_paths=n_paths, init_state=init_state)
                    loss = crit2(hedger2.compute_portfolio(d2, hedge=hedge2), d2.payoff())
                    loss.backward()
                    ref_train.append(float(loss.detach()))
                    ref_grads.append([None if p.grad is None else p.grad.detach().clone() for p in plist2])
                    ref_opt.step()
                    if validation:
                        hedger2.eval()
                        with torch.no_grad():
                            vals = []
                            for _ in range(n_times):
                                d2.simulate(n_paths=n_paths, init_state=init_state)
                                vals.append(float(crit2(hedger2.compute_portfolio(d2, hedge=hedge2), d2.payoff())))
                            ref_vals.append(vals)
            except Exception as e:  # noqa
                err = canon_error(e)
            return hedger2, d2, crit2, hedge2, plist2, ref_grads, ref_train, ref_vals, err
        # ---------------- predicates on the real code
        if optkind == "other":
            if not (st == "err" and hist == "type_error"):
                ctx.fail("fit accepted something that is not an optimiser", case, key="fit:optimizer-type" + sfx, detail=str(hist)[:100])
            continue
        if st != "ok":
            if diverge:
                # does torch / the optimiser itself refuse the run (e.g. a learning rate that does not fit the dtype of a float32 criterion
                # parameter)?  Then the explicit loop raises the same error and fit is not to blame
                events_ref = events
                events = []
                ref_err = explicit_loop()[-1]
                events = events_ref
                if ref_err == hist:
                    ctx.stats["diverge:explicit_loop_raises_too"] += 1
                    reqs.pop()
                    metas.pop()
                    continue
            ctx.fail("fit raised" + (" in a run whose losses become inf / nan (it must carry on for k epochs and return them)" if diverge else ""),
                     case, key="fit:error" + sfx, detail={"error": hist, "optimiser_steps_done": sum(1 for e in evs if e[0] == "step")})
            continue
        nsteps = sum(1 for e in evs if e[0] == "step")
        if nsteps != k:
            ctx.fail("fit did not perform exactly one optimiser step per epoch", case, key="fit:steps" + sfx, detail={"steps": nsteps})
        # the batches fit asked the derivative to simulate, as recorded by the derivative: k training batches and (validation) k * n_times validation
        # batches of the requested size - what the explicit loop simulates - and nothing else; the one exception is the documented single-path
        # placeholder batch when fit itself has to materialise uninitialised parameters before constructing the optimiser from a class.  A model
        # whose parameters all exist (never lazy, or materialised by the caller - whatever the TYPE of its layers) gets no such batch
        sims = [e[1] for e in evs if e[0] == "simulate"]
        want_sims = expected_batches(k, n_paths, n_times, validation, placeholder=uninit and optkind == "cls")
        if sims != want_sims:
            ctx.fail("fit simulated other batches (number / sizes) than the k training and k * n_times validation batches of the requested size"
                     + (" preceded by the single-path placeholder batch that materialises the uninitialised parameters" if uninit else
                        "; the model has no uninitialised parameter" + (" (materialised by the caller before fit)" if lazy else "")),
                     case, key="fit:batches" + sfx, detail={"simulated": sims[:40], "expected": want_sims[:40]})
        if validation:
            if not (isinstance(hist, list) and len(hist) == k):
                ctx.fail("fit did not return one validation loss per epoch", case, key="fit:history" + sfx, detail=str(hist)[:100])
        elif hist is not None:
            ctx.fail("fit returned a history although validation is off", case, key="fit:history" + sfx, detail=str(hist)[:100])
        # the protocol read off the REAL event trace (independent of the model): the batch that is back-propagated is a fresh one of
        # the requested size / initial state, processed in training mode with gradients on; every other loss evaluation
        # (validation) runs in evaluation mode without gradients, n_times of them per epoch (accumulation across epochs is
        # decided below by comparing the gradient present at each step with the single-batch gradient)
        tr_loss = [i for i, e in enumerate(evs) if e[0] == "backward"]
        bad = None
        for bi in tr_loss:
            if bi < 2 or evs[bi - 1][0] != "loss" or evs[bi - 2][0] != "simulate":
                bad = ("a backward pass is not preceded by its own simulate + loss", bi)
                break
            sim, ls = evs[bi - 2], evs[bi - 1]
            if not (ls[1] and ls[2] and sim[3] and sim[4]):
                bad = ("a training batch was processed in evaluation mode or without gradients", bi)
                break
            if sim[1] != n_paths or sim[2] != with_init:
                bad = ("a training batch was not simulated with the requested size / initial state", bi)
                break
        if bad is None:
            val_losses = [i for i, e in enumerate(evs) if e[0] == "loss" and (i + 1 >= len(evs) or evs[i + 1][0] != "backward")]
            for vi in val_losses:
                if evs[vi][1] or evs[vi][2] or evs[vi - 1][0] != "simulate" or evs[vi - 1][3] or evs[vi - 1][4]:
                    bad = ("a validation loss was computed in training mode or with gradients enabled", vi)
                    break
                if evs[vi - 1][1] != n_paths or evs[vi - 1][2] != with_init:
                    bad = ("a validation batch was not simulated with the requested size / initial state", vi)
                    break
            if bad is None and len(val_losses) != (k * n_times if validation else 0):
                bad = (f"expected {k * n_times if validation else 0} validation evaluations (k epochs x n_times), saw {len(val_losses)}", -1)
        if bad is not None:
            ctx.fail("fit departs from the documented protocol: " + bad[0], case | {"event_index": bad[1]}, key="fit:protocol-trace" + sfx,
                     detail={"events": evs[:60]})
        # reference loop under the same seed: parameters must agree bitwise
        events_ref = events
        events = []
        hedger2, d2, crit2, hedge2, plist2, ref_grads, ref_train, ref_vals, ref_err = explicit_loop()
        if ref_err is not None:
            ctx.fail("fit returned normally where the explicit simulate/loss/backward/step loop under the same seed raises", case,
                     key="fit:reference-loop" + sfx, detail={"explicit_loop_error": ref_err, "epochs_done": len(ref_train)})
            continue
        nonfinite = not all(math.isfinite(v) for v in ref_train + [v for vs in ref_vals for v in vs])
        if diverge:
            ctx.stats["diverge:loss_really_nonfinite" if nonfinite else "diverge:losses_stayed_finite"] += 1
            if nonfinite and validation and not all(math.isfinite(v) for vs in ref_vals for v in vs):
                ctx.stats["diverge:validation_loss_nonfinite"] += 1
        # the returned history = the means of the explicit loop's n_times evaluations, epoch by epoch (inf / nan included)
        if validation and isinstance(hist, list) and len(hist) == k:
            fi = torch.finfo(dtc)
            for ep, (h, vals) in enumerate(zip(hist, ref_vals)):
                if not history_entry_ok(h, vals, fi.eps, fi.max):
                    ctx.fail("a validation loss returned by fit is not the mean of the n_times evaluations of the explicit loop under the same seed",
                             case | {"epoch": ep}, key="fit:history-values" + sfx, detail={"returned": h, "explicit_loop_evaluations": vals})
                    break
        p1 = [p.detach() for p in hedger.parameters()]
        p2 = [p.detach() for p in hedger2.parameters()]
        if len(p1) != len(p2) or any(not same_tensor(torch, a, b, nan_ok=bool(diverge)) for a, b in zip(p1, p2)):
            ctx.fail("parameters after fit differ from an explicit simulate/loss/backward/step loop under the same seed", case,
                     key="fit:reference-loop" + sfx, detail={"max_abs_diff": max(float((a - b).abs().max()) for a, b in zip(p1, p2)) if len(p1) == len(p2) else None})
        # a SECOND fit on the same hedger with the optimiser given as a class: a fresh optimiser must be constructed again (no
        # state - Adam moments, step counts - may survive from the first call)
        if optkind == "cls" and k >= 1 and st == "ok" and g.chance(0.5):
            ctx.stats["second_fit"] += 1
            torch.manual_seed(seed + 2)
            st_b, hist_b, _ = call_fit(hedger.fit, d, call_form, hedge=hedge, n_epochs=k, n_paths=n_paths, n_times=n_times, optimizer=opt,
                                       init_state=init_state, validation=validation, **display_opts(verbose))
            torch.manual_seed(seed + 2)
            ref_opt_b = base_opt(list(hedger2.model.parameters()), lr=lr)
            for ep in range(k):
                hedger2.train()
                ref_opt_b.zero_grad()
                d2.simulate(n_paths=n_paths, init_state=init_state)
                loss = crit2(hedger2.compute_portfolio(d2, hedge=hedge2), d2.payoff())
                loss.backward()
                ref_opt_b.step()
                if validation:
                    hedger2.eval()
                    with torch.no_grad():
                        for _ in range(n_times):
                            d2.simulate(n_paths=n_paths, init_state=init_state)
            q1 = [p.detach() for p in hedger.parameters()]
            q2 = [p.detach() for p in hedger2.parameters()]
            if st_b != "ok" or len(q1) != len(q2) or any(not same_tensor(torch, a, b, nan_ok=bool(diverge)) for a, b in zip(q1, q2)):
                ctx.fail("a second fit() on the same hedger differs from an explicit loop with a freshly constructed optimiser (optimiser state carried over?)",
                         case | {"second_fit": True}, key="fit:second-fit" + sfx,
                         detail={"max_abs_diff": max(float((a - b).abs().max()) for a, b in zip(q1, q2)) if len(q1) == len(q2) and st_b == "ok" else str(hist_b)[:80]})
        the_opt = opt if optkind == "instance" else None
        if the_opt is not None and len(the_opt.grads_at_step) == len(ref_grads):
            for ep, (ga, gb) in enumerate(zip(the_opt.grads_at_step, ref_grads)):
                if len(ga) != len(gb) or any((x is None) != (y is None) or (x is not None and not same_tensor(torch, x, y, nan_ok=bool(diverge))) for x, y in zip(ga, gb)):
                    ctx.fail("the gradient applied at an optimiser step is not the gradient of that epoch's single batch (accumulation?)",
                             case | {"epoch": ep}, key="fit:gradient-per-step" + sfx)
                    break
        events = events_ref
    check_prev_hedge(ctx, torch, g)
    check_shared_optimizer(ctx, torch, reqs, metas)
    check_multi_underlier(ctx, torch, reqs, metas)
    check_fit_num(ctx, torch)
    try:
        outs = ctx.driver(reqs)
    except DriverBroken as e:
        ctx.ties_broken.append({"kind": "driver", "detail": str(e)[:1500]})
        outs = []
    for (case, st, hist, evs), mo in zip(metas, outs):
        if "err" in mo:
            if not (st == "err" and hist == mo["err"]):
                ctx.disagree("fit", case, (st, str(hist)[:60]), mo)
            continue
        mev = [e for e in mo["ok"]["events"] if e[0] != "val_item"]
        if st != "ok" or evs != mev:
            ctx.disagree("fit_events", case, evs, mev)
            continue
        mh = mo["ok"]["history"]
        if (hist is None) != (mh is None) or (hist is not None and len(hist) != mh):
            ctx.disagree("fit_history", case, None if hist is None else len(hist), mh)
    return ctx.finish(
        rule="k in {0,1,2,3,(7)}, n_paths in {1,4,16}, n_times in {1,2,3}, init state given / default, optimiser class / instance / wrong type "
             "(SGD, Adam), lazy and materialised models, validation on/off, explicit hedge list, two criteria; state-dependent hedgers "
             "(prev_hedge among the inputs, 3..6 time steps) against a HAND-UNROLLED hedge/wealth/criterion (gradient at every optimiser "
             "step on the same batch and parameters; parameters after fit vs the explicit loop; relative tolerance 1e-9); "
             "op fit_num (the numeric model fitNum of Model/FitNum.lean the theorems of Lemmas/C15Num.lean are about: per epoch zero_grad, "
             "lossOfH of that epoch's batch, gradient = eps-parts at dual numbers, torch.optim.SGD (lr in {0.01,0.1,0.5}, momentum in {0,0.5,0.9}, "
             "weight decay in {0,1/16}) / Adam (lr in {0.001,0.01,0.1}, default betas/eps) step, validation at the new parameters): real "
             "Hedger.fit with the optimiser given as an Optimizer subclass and as an instance, epochs 0..4, n_paths in {2,4,8,16}, 2/3/5 "
             "hedging dates, n_times in {1,2,3}, Linear / ReLU-MLP models in float64, H in {1,2} instruments (underlier + a listed a*S+b "
             "derivative), with and without prev_hedge, criteria ERM / ES / entropic loss / MSE, cost rates zero and positive, on the batches "
             "re-simulated under the same torch seed: parameters after fit, training loss of every epoch, every validation evaluation, the "
             "returned history and the gradient at every optimiser step, relative tolerance 1e-9 on the max-norm; step and evaluation "
             "counts exactly; cases within 2^-20 of a kink (|position change| / |first position| with a non-zero cost rate, ReLU, ES tie) "
             "or, for Adam, with a gradient component in (0, 1e-6) are rejected and counted (fit_num_rejected_near_kink); "
             "lazy models: torch.nn.LazyLinear and a user-defined lazy layer (LazyModuleMixin, cls_to_become = None) as first layer, uninitialised (optimiser class: "
             "fit's placeholder batch replayed by the explicit loop) or materialised by the caller (class and instance), as a deterministic corpus on every tier "
             "(main loop: 24 configurations; hand-unrolled loop: 4; fit_num: the first 3 attempts) and at random; simulated batches (number, sizes, order) "
             "recorded by the derivative = [1 if uninitialised and class] + k x (1 + n_times if validation) x [n_paths], exactly, in all three loops; "
             "call forms (all three loops): keywords / hedge, n_epochs, n_paths, n_times by position / all nine documented options by position; "
             "display option (all three loops): verbose=True (progress bar written to the null device through tqdm_kwargs) and verbose=False, at random and as a "
             "deterministic corpus of all combinations validation x verbose x n_times on every tier (main loop: 24 configurations with k = 2, optimiser class and "
             "instance; hand-unrolled loop: the first 12 runs; fit_num: the first 12 attempts), thorough tier: a factor of the exhaustive space; the same batches, "
             "event trace, history and parameters are demanded whatever is displayed (failure keys ending in :verbose); "
             "diverging runs (main loop: float64 and float32, SGD/Adam lr in {1e150, 1e300} resp. {1e20, 1e30}, or last layer x 2^40 under "
             "OCE(exp) / EntropicLoss: steps, history length, history values = means of the explicit loop's evaluations with inf / nan, parameters "
             "and step gradients bitwise with NaN = NaN; fit_num: counts exactly, numbers up to the first quantity that is non-finite or beyond 1e100); "
             "shared optimiser instances (deterministic corpus of 23 sequences on every tier + random ones): SGD momentum 0.9 / Nesterov 0.5 / weight decay 1/16, Adam, "
             "Adam weight decay 1/16, AdamW 1/8, RMSprop, RMSprop momentum 0.5, plain SGD; one instance over two models (fits in the orders 01, 10, 010, 001, 011, 101) "
             "or one model (fits 0, 00), optionally an unrelated parameter (same / own parameter group) on which the caller took 0..2 steps before, frozen first layers, "
             "the two derivatives on one underlier; float64 / float32; after every fit all owned parameters bitwise = explicit loop with a twin optimiser, parameters "
             "outside the loss unchanged where the explicit loop leaves them unchanged; every fit's event list to the Lean op fit; "
             "user-defined derivatives (BaseDerivative, with / without OptionMixin) with 2-3 registered underliers (deterministic corpus of 8 mixes on every tier + random ones): "
             "BrownianStock (different volatilities / cost rates), MertonJumpStock, KouJumpStock, a BrownianStock subclass with default state (3.0,), HestonStock pairs / triples; "
             "best-of / basket / spread pay-off; init_state None or one of {(1.25,), (0.8,), (2.0,), (1+2^-10,)} resp. {(1.25, 0.09), (0.9, 0.0225), (1.0, 0.16)} as floats or 0-dim "
             "tensors; n_paths in {1,3,8}, 2/3/5 hedging dates, k in {1,2,3}, n_times in {1,2}, hedge default / full list / all but the last underlier, with and without prev_hedge, "
             "float64 / float32, SGD / Adam as class and instance, all call forms and display options: at every criterion evaluation every underlier's buffers have n_paths rows and "
             "the first column the underlier itself produces from that state (bitwise); history, parameters and step gradients bitwise = the explicit loop in which every "
             "underlier is simulated by hand from the requested state; every fit's event list to the Lean op fit; "
             "non-trivial = k>=1; distinct = sha1 of canonical case")


# ---------------------------------------------------------------------------------------------------------------------------
# a USER-SUPPLIED optimiser INSTANCE that owns more than the parameters the current loss reaches, with state that survives between the
# fits: one instance shared by two hedgers fitted one after the other (in any order, also back and forth), one instance used for
# consecutive fits of one hedger, an instance that also owns an unrelated parameter the caller trained before (same or own parameter
# group), frozen layers.  Stateful kinds: SGD with momentum / Nesterov / weight decay, Adam (with weight decay), AdamW, RMSprop (with
# momentum); plain SGD as the control.  The explicit loop `opt.zero_grad(); simulate; loss; backward; opt.step()` is run with an optimiser
# of the same class and options over the same parameters through the same sequence; a parameter the batch's loss does not reach has no
# gradient there and torch's optimisers leave it alone.  Predicates (bitwise; float64 and float32): after EVERY fit of the sequence all
# parameters the optimiser owns (those outside the loss too) equal the explicit loop's; a parameter outside the loss that the explicit
# loop leaves unchanged during that fit is unchanged by fit.  The event list of every fit goes to the Lean op "fit" as well.

SHARED_OPTS = [("sgd-momentum", "SGD", dict(lr=0.05, momentum=0.9)),
               ("sgd-nesterov", "SGD", dict(lr=0.05, momentum=0.5, nesterov=True)),
               ("sgd-weight-decay", "SGD", dict(lr=0.05, weight_decay=0.0625)),
               ("adam", "Adam", dict(lr=0.01)),
               ("adam-weight-decay", "Adam", dict(lr=0.01, weight_decay=0.0625)),
               ("adamw", "AdamW", dict(lr=0.01, weight_decay=0.125)),
               ("rmsprop", "RMSprop", dict(lr=0.01)),
               ("rmsprop-momentum", "RMSprop", dict(lr=0.01, momentum=0.5)),
               ("sgd-plain", "SGD", dict(lr=0.05))]


def check_shared_optimizer(ctx, torch, reqs, metas):
    import pfhedge.nn as nn
    import pfhedge.instruments as I
    from pfhedge.nn import Hedger
    g = Gen(f"{ctx.seed}:shared_optimizer")
    orig_backward = torch.Tensor.backward
    # on every tier, for every seed: every optimiser kind x {two hedgers one after the other, an extra parameter trained before};
    # some longer sequences
    corpus = []
    for oi in range(len(SHARED_OPTS)):
        corpus.append(dict(opt=oi, n_models=2, order=[0, 1], extra=False, pre=0))
        corpus.append(dict(opt=oi, n_models=1, order=[0], extra=True, pre=1))
    for oi, order_, nm_, ex_ in [(0, [0, 1, 0], 2, True), (3, [1, 0, 1], 2, False), (0, [0, 0], 1, False), (5, [0, 0], 1, True), (7, [0, 1, 1], 2, True)]:
        corpus.append(dict(opt=oi, n_models=nm_, order=order_, extra=ex_, pre=2))
    ctx.extra["shared_optimizer_corpus_configurations"] = len(corpus)
    for it in range(len(corpus) + (20 if ctx.tier == "quick" else 300)):
        oi = g.randint(0, len(SHARED_OPTS) - 1)
        n_models = g.choice([1, 2])
        order = g.choice([[0, 1], [1, 0], [0, 1, 0], [0, 0, 1]]) if n_models == 2 else g.choice([[0], [0, 0]])
        extra = g.chance(0.5)
        pre = g.choice([0, 1, 2])              # optimiser steps the caller took on the extra parameter before the fits
        own_group = g.chance(0.5)              # the extra parameter in a parameter group of its own (add_param_group)
        frozen = g.chance(0.25)                # the first layer of every model frozen (requires_grad False) but owned by the optimiser
        one_underlier = g.chance(0.5)          # the two derivatives on ONE underlier
        ks = [g.choice([1, 2, 3]) for _ in range(3)]
        n_paths = g.choice([1, 4, 16])
        n_times = g.choice([1, 2])
        validation = g.chance(0.5)
        with_init = g.chance(0.3)
        verbose = g.chance(0.3)
        call_form = gen_call_form(g)
        dtc = g.choice([torch.float64, torch.float64, torch.float32])
        crit_name = g.choice(["erm", "es", "eloss"])
        seed = g.randint(0, 10 ** 6)
        if it < len(corpus):
            c_ = corpus[it]
            oi, n_models, order, extra, pre = c_["opt"], c_["n_models"], c_["order"], c_["extra"], c_["pre"]
            frozen = False
        ks = ks[:len(order)]
        oname, ocls, okw = SHARED_OPTS[oi]
        base_opt = getattr(torch.optim, ocls)
        init_state = (1.25,) if with_init else None
        case = {"shared_optimizer": True, "optimizer": oname, "optimizer_options": okw, "n_models": n_models, "fit_order": order, "epochs": ks,
                "extra_parameter": extra, "extra_pre_steps": pre if extra else None, "extra_own_group": own_group if extra else None,
                "frozen_first_layer": frozen, "one_underlier": one_underlier if n_models == 2 else None, "n_paths": n_paths, "n_times": n_times,
                "validation": validation, "with_init": with_init, "verbose": verbose, "call_form": call_form, "dtype": str(dtc).replace("torch.", ""),
                "criterion": crit_name, "seed": seed}
        ctx.case(case, nontrivial=True, tag="fit_shared_optimizer")
        ctx.traces += 1
        ctx.stats[f"shared_optimizer:{oname}"] += 1
        ctx.stats[f"shared_optimizer:models={n_models}/extra={extra}/fits={len(order)}"] += 1
        sfx = ("" if call_form == "keyword" else ":positional") + (":verbose" if verbose else "")
        events = []

        class LogCrit(torch.nn.Module):
            def __init__(self, inner, ref):
                super().__init__()
                self.inner, self.ref = inner, ref

            def forward(self, input, target=0.0):
                events.append(["loss", bool(self.ref[0].training), bool(torch.is_grad_enabled())])
                return self.inner(input, target)

        class LogOption(I.EuropeanOption):
            ref = None

            def simulate(self, n_paths=1, init_state=None):
                events.append(["simulate", int(n_paths), init_state is not None, bool(self.ref[0].training), bool(torch.is_grad_enabled())])
                super().simulate(n_paths=n_paths, init_state=init_state)

        class LogOpt(base_opt):
            def zero_grad(self, *a, **kw):
                events.append(["zero_grad"])
                return super().zero_grad(*a, **kw)

            def step(self, *a, **kw):
                events.append(["step"])
                return super().step(*a, **kw)

        def world(opt_cls):
            """models, hedgers, derivatives, the extra parameter and ONE optimiser instance of class opt_cls over all of them; the caller's
            own steps on the extra parameter already taken"""
            hedgers, ders, owned = [], [], []
            stock0 = None
            for i in range(n_models):
                torch.manual_seed(seed + i)
                model = torch.nn.Sequential(torch.nn.Linear(2, 3, dtype=dtc), torch.nn.ReLU(), torch.nn.Linear(3, 1, dtype=dtc))
                if frozen:
                    model[0].requires_grad_(False)
                crit = {"erm": lambda: nn.EntropicRiskMeasure(), "es": lambda: nn.ExpectedShortfall(0.5), "eloss": lambda: nn.EntropicLoss()}[crit_name]()
                ref = [None]
                hedger = Hedger(model, ["moneyness", "time_to_maturity"], criterion=LogCrit(crit, ref))
                ref[0] = hedger
                orig_train = hedger.train

                def train(mode=True, orig_train=orig_train):
                    events.append(["train"] if mode else ["eval"])
                    return orig_train(mode)
                hedger.train = train
                stock = stock0 if (one_underlier and stock0 is not None) else I.BrownianStock(cost=1e-3, dtype=dtc)
                stock0 = stock
                d = LogOption(stock, call=i == 0, strike=1.0 if i == 0 else 1.05, maturity=(3 + i) / 250)
                d.ref = ref
                hedgers.append(hedger)
                ders.append(d)
                owned.append(list(model.parameters()))
            params = [p for ps in owned for p in ps]
            xp = torch.nn.Parameter(torch.tensor([0.5, -1.25, 2.0], dtype=dtc)) if extra else None
            if extra and not own_group:
                params = params + [xp]
            opt = opt_cls(params, **okw)
            if extra and own_group:
                opt.add_param_group({"params": [xp]})
            if extra:
                owned.append([xp])
                for _ in range(pre):
                    opt.zero_grad()
                    ((xp - 1.0) ** 2).sum().backward()
                    opt.step()
            events.clear()
            return hedgers, ders, owned, opt
        hedgers, ders, owned, opt = world(LogOpt)
        hedgers2, ders2, owned2, ref_opt = world(base_opt)
        flat = lambda ow_: [p.detach().clone() for ps in ow_ for p in ps]
        names = [f"model{i}.{nm_}" for i in range(n_models) for nm_, _ in hedgers[i].model.named_parameters()] + (["extra"] * bool(extra))
        for j, (hi, k) in enumerate(zip(order, ks)):
            fcase = case | {"fit_index": j, "fitted_hedger": hi}
            before, before2 = flat(owned), flat(owned2)
            events.clear()

            def patched_backward(self, *a, **kw):
                events.append(["backward"])
                return orig_backward(self, *a, **kw)
            torch.Tensor.backward = patched_backward
            try:
                torch.manual_seed(seed + 100 + j)
                st, hist, _ = call_fit(hedgers[hi].fit, ders[hi], call_form, hedge=None, n_epochs=k, n_paths=n_paths, n_times=n_times, optimizer=opt,
                                       init_state=init_state, validation=validation, **display_opts(verbose))
            finally:
                torch.Tensor.backward = orig_backward
            evs = list(events)
            if st != "ok":
                ctx.fail("fit raised with a user-supplied optimiser instance that owns further parameters", fcase, key="fit:shared-optimizer:error" + sfx, detail=hist)
                break
            reqs.append({"op": "fit", "epochs": k, "n_paths": n_paths, "n_times": n_times, "with_init": with_init, "opt": "instance", "lazy": False,
                         "validation": validation, "start_training": True})
            metas.append((fcase, st, hist, evs))
            if sum(1 for e in evs if e[0] == "step") != k:
                ctx.fail("fit did not perform exactly one optimiser step per epoch", fcase, key="fit:steps:shared-optimizer" + sfx,
                         detail={"steps": sum(1 for e in evs if e[0] == "step")})
            if (hist is None) != (not validation) or (validation and len(hist) != k):
                ctx.fail("fit did not return one validation loss per epoch (None when validation is off)", fcase, key="fit:history:shared-optimizer" + sfx, detail=str(hist)[:100])
            # the explicit loop, same seed, the twin optimiser instance
            h2, d2 = hedgers2[hi], ders2[hi]
            torch.manual_seed(seed + 100 + j)
            for ep in range(k):
                h2.train()
                ref_opt.zero_grad()
                d2.simulate(n_paths=n_paths, init_state=init_state)
                loss = h2.criterion(h2.compute_portfolio(d2), d2.payoff())
                loss.backward()
                ref_opt.step()
                if validation:
                    h2.eval()
                    with torch.no_grad():
                        for _ in range(n_times):
                            d2.simulate(n_paths=n_paths, init_state=init_state)
                            h2.criterion(h2.compute_portfolio(d2), d2.payoff())
            after, after2 = flat(owned), flat(owned2)
            # which parameters does the loss of this fit reach?  Those of the fitted model that require gradients; nothing else
            own_ids = {id(p) for p in owned[hi] if p.requires_grad}
            outside = [id(p) not in own_ids for ps in owned for p in ps]
            moved = [nm_ for nm_, out_, b_, a_, b2_, a2_ in zip(names, outside, before, after, before2, after2)
                     if out_ and torch.equal(b2_, a2_) and not torch.equal(b_, a_)]
            if moved:
                ctx.fail("fit changed parameters that receive no gradient of the criterion over its batches (parameters of another model / an unrelated "
                         "parameter / a frozen layer owned by the supplied optimiser instance); the explicit zero_grad / simulate / loss / backward / step "
                         "loop with the same optimiser leaves them unchanged", fcase, key="fit:shared-optimizer:foreign-parameters-moved" + sfx,
                         detail={"moved": moved, "max_abs_change": max(float((a_ - b_).abs().max()) for out_, b_, a_ in zip(outside, before, after) if out_)})
                break
            differ = [nm_ for nm_, a_, a2_ in zip(names, after, after2) if not torch.equal(a_, a2_)]
            if differ:
                ctx.fail("parameters owned by the supplied optimiser instance differ, after fit, from the explicit simulate/loss/backward/step loop with the "
                         "same optimiser (class, options, earlier steps) under the same seed", fcase, key="fit:shared-optimizer:reference-loop" + sfx,
                         detail={"differ": differ, "max_abs_diff": max(float((a_ - a2_).abs().max()) for a_, a2_ in zip(after, after2))})
                break


# ---------------------------------------------------------------------------------------------------------------------------
# USER-DEFINED derivatives with SEVERAL underliers (registered through the inherited register_underlier; all of them are simulated by the
# inherited BaseDerivative.simulate and, by default, all of them are hedging instruments): best-of / basket / spread pay-offs on 2 or 3
# underliers of one primary class or of different ones (BrownianStock with different volatilities and cost rates, MertonJumpStock,
# KouJumpStock, a user-defined primary whose default initial state is overridden; HestonStock pairs / triples with a two-component state),
# fitted with a non-default init_state (floats, 0-dim tensors; also the default None) and batch sizes 1 .. 8.  The explicit loop does not
# go through the derivative's simulate: it simulates EVERY underlier itself, in registration order, with
# underlier.simulate(n_paths, time_horizon=maturity, init_state=s), then loss / backward / step as always.  Predicates (bitwise):
# at EVERY criterion evaluation of fit (the k training batches and the k * n_times validation batches) every underlier holds a batch of
# the requested size whose first column (of every buffer: spot, variance) is what that underlier produces when asked directly to simulate
# from the requested state (fit:multi-underlier:initial-state / :batch-size); history = means of the explicit loop's evaluations;
# parameters after fit = explicit loop's; gradient at every step of an optimiser instance = explicit loop's.  Event lists to the op "fit".

MULTI_KINDS = {"brownian": 1, "brownian-cost": 1, "merton": 1, "kou": 1, "shifted-default": 1, "heston": 2, "heston-fast": 2}
MULTI_CORPUS = [(["brownian", "brownian"], "best_of"), (["brownian", "merton"], "basket"), (["brownian-cost", "kou", "merton"], "best_of"),
                (["heston", "heston-fast"], "spread"), (["shifted-default", "brownian"], "basket"), (["brownian", "brownian", "brownian-cost"], "spread"),
                (["brownian", "shifted-default"], "best_of"), (["heston", "heston", "heston-fast"], "basket")]
MULTI_STATES = {1: [[1.25], [0.8], [2.0], [1.0009765625]], 2: [[1.25, 0.09], [0.9, 0.0225], [1.0, 0.16]]}


def check_multi_underlier(ctx, torch, reqs, metas):
    import pfhedge.nn as nn
    import pfhedge.instruments as I
    from pfhedge.nn import Hedger
    g = Gen(f"{ctx.seed}:multi_underlier")
    orig_backward = torch.Tensor.backward

    class ShiftedStock(I.BrownianStock):          # a user-defined primary: the inherited simulate, another default initial state
        @property
        def default_init_state(self):
            return (3.0,)

    def make_underlier(kind, j, dtc):
        if kind == "brownian":
            return I.BrownianStock(sigma=0.2 + 0.1 * j, dtype=dtc)
        if kind == "brownian-cost":
            return I.BrownianStock(sigma=0.25, cost=2.0 ** -9, dtype=dtc)
        if kind == "merton":
            return I.MertonJumpStock(sigma=0.2, cost=2.0 ** -10, dtype=dtc)
        if kind == "kou":
            return I.KouJumpStock(sigma=0.15, dtype=dtc)
        if kind == "shifted-default":
            return ShiftedStock(sigma=0.3, dtype=dtc)
        if kind == "heston":
            return I.HestonStock(rho=-0.7 + 0.2 * j, dtype=dtc)
        if kind == "heston-fast":
            return I.HestonStock(kappa=3.0, theta=0.09, cost=2.0 ** -10, dtype=dtc)
        raise InternalError(kind)
    corpus = [dict(kinds=kinds_, payoff=po_, optkind=ok_, validation=va_) for (kinds_, po_), (ok_, va_) in
              zip(MULTI_CORPUS, itertools_cycle([("cls", True), ("instance", True), ("cls", False), ("instance", False)]))]
    ctx.extra["multi_underlier_corpus_configurations"] = len(corpus)
    for it in range(len(corpus) + (24 if ctx.tier == "quick" else 300)):
        dim = g.weighted([(1, 3), (2, 1)])
        H = g.choice([2, 2, 3])
        pool = [nm_ for nm_, d_ in MULTI_KINDS.items() if d_ == dim]
        kinds = [g.choice(pool) for _ in range(H)]
        payoff_kind = g.choice(["best_of", "basket", "spread"])
        k = g.choice([1, 2, 3])
        n_paths = g.choice([1, 3, 8])
        n_steps = g.choice([2, 3, 5])
        n_times = g.choice([1, 1, 2])
        validation = g.chance(0.6)
        optkind = g.choice(["cls", "instance"])
        optname = g.choice(["SGD", "Adam"])
        with_init = g.chance(0.85)
        state_i = g.randint(0, 10)
        tensor_state = g.chance(0.25)             # the components of the state as 0-dim tensors (documented: tuple[torch.Tensor | float])
        hedge_mode = g.weighted([("default", 3), ("list", 1), ("sublist", 1)])
        prev = g.chance(0.3)                      # the previous hedge (of all instruments) among the inputs
        # the user's class: BaseDerivative alone, or - as pfhedge's own options are written - BaseDerivative with OptionMixin (strike; moneyness and
        # time to maturity of the first underlier are then available as inputs)
        option_like = g.chance(0.6)
        others = g.r.sample(["underlier_spot", "zeros"] + (["time_to_maturity", "moneyness", "log_moneyness"] if option_like else []), g.choice([1, 2]))
        crit_name = g.choice(["erm", "es", "eloss"])
        dtc = g.choice([torch.float64, torch.float64, torch.float32])
        verbose = g.chance(0.3)
        call_form = gen_call_form(g)
        seed = g.randint(0, 10 ** 6)
        if it < len(corpus):      # on every tier, for every seed
            c_ = corpus[it]
            kinds, payoff_kind, optkind, validation = list(c_["kinds"]), c_["payoff"], c_["optkind"], c_["validation"]
            H, dim = len(kinds), MULTI_KINDS[kinds[0]]
            with_init, k = True, max(k, 2)
        state = MULTI_STATES[dim][state_i % len(MULTI_STATES[dim])] if with_init else None
        n_hedge = H if hedge_mode != "sublist" else H - 1
        names = others + (["prev_hedge"] if prev else [])
        width = len(others) + (n_hedge if prev else 0)
        strike = 1.0 if state is None else state[0]
        case = {"multi_underlier": True, "underliers": kinds, "payoff": payoff_kind, "option_mixin": option_like, "strike": strike, "epochs": k, "n_paths": n_paths, "n_steps": n_steps,
                "n_times": n_times, "validation": validation, "opt": optkind, "optimizer": optname, "with_init": with_init, "init_state": state,
                "init_state_as_tensors": tensor_state if with_init else None, "hedge": hedge_mode, "inputs": names, "criterion": crit_name,
                "dtype": str(dtc).replace("torch.", ""), "verbose": verbose, "call_form": call_form, "seed": seed}
        ctx.case(case, nontrivial=with_init, tag="fit_multi_underlier")
        ctx.traces += 1
        ctx.stats[f"multi_underlier:H={H}/state_dim={dim}/with_init={with_init}"] += 1
        ctx.stats[f"multi_underlier:{'same class' if len(set(kinds)) == 1 else 'different classes'}"] += 1
        sfx = ("" if call_form == "keyword" else ":positional") + (":verbose" if verbose else "")
        events, seen = [], []
        base_opt = getattr(torch.optim, optname)
        lr = 0.05 if optname == "SGD" else 0.01

        def the_state():
            if state is None:
                return None
            return tuple(torch.tensor(x, dtype=dtc) for x in state) if tensor_state else tuple(state)

        class UserDerivative(*((I.BaseDerivative, I.OptionMixin) if option_like else (I.BaseDerivative,))):
            ref = None

            def __init__(self, unds):
                super().__init__()
                for j_, u_ in enumerate(unds):
                    # (OptionMixin's moneyness reads the attribute `underlier`: an option-like user class calls its first underlier so)
                    self.register_underlier("underlier" if (option_like and j_ == 0) else f"asset{j_}", u_)
                self.maturity = n_steps / 250
                self.strike = strike

            def simulate(self, n_paths=1, init_state=None):
                events.append(["simulate", int(n_paths), init_state is not None, bool(self.ref[0].training), bool(torch.is_grad_enabled())])
                super().simulate(n_paths=n_paths, init_state=init_state)

            def payoff_fn(self):
                last = torch.stack([u_.spot[..., -1] for u_ in self.underliers()], dim=0)      # (H, N)
                if payoff_kind == "best_of":
                    return torch.nn.functional.relu(last.max(dim=0).values - strike)
                if payoff_kind == "basket":
                    return torch.nn.functional.relu(last.mean(dim=0) - strike)
                return torch.nn.functional.relu(last[0] - last[-1])

        class LogCrit(torch.nn.Module):
            def __init__(self, inner, ref, unds):
                super().__init__()
                self.inner, self.ref, self.unds = inner, ref, unds

            def forward(self, input, target=0.0):
                events.append(["loss", bool(self.ref[0].training), bool(torch.is_grad_enabled())])
                # what every underlier holds when the criterion is evaluated on a batch: size and first column of every buffer
                seen.append([{bn_: (tuple(b_.shape), b_[:, 0].detach().clone()) for bn_, b_ in u_.named_buffers()} for u_ in self.unds])
                return self.inner(input, target)

        class LogOpt(base_opt):
            def __init__(self, params):
                events.append(["mk_optimizer"])
                super().__init__(params, lr=lr)
                self.grads_at_step = []

            def zero_grad(self, *a, **kw):
                events.append(["zero_grad"])
                return super().zero_grad(*a, **kw)

            def step(self, *a, **kw):
                events.append(["step"])
                self.grads_at_step.append([None if p.grad is None else p.grad.detach().clone() for gr in self.param_groups for p in gr["params"]])
                return super().step(*a, **kw)

        def world():
            torch.manual_seed(seed)
            model = torch.nn.Sequential(torch.nn.Linear(width, 4, dtype=dtc), torch.nn.Tanh(), torch.nn.Linear(4, n_hedge, dtype=dtc))
            unds = [make_underlier(kd_, j_, dtc) for j_, kd_ in enumerate(kinds)]
            crit = {"erm": lambda: nn.EntropicRiskMeasure(), "es": lambda: nn.ExpectedShortfall(0.5), "eloss": lambda: nn.EntropicLoss()}[crit_name]()
            ref = [None]
            hedger = Hedger(model, list(names), criterion=LogCrit(crit, ref, unds))
            ref[0] = hedger
            d = UserDerivative(unds)
            d.ref = ref
            orig_train = hedger.train

            def train(mode=True):
                events.append(["train"] if mode else ["eval"])
                return orig_train(mode)
            hedger.train = train
            hedge = {"default": None, "list": list(unds), "sublist": list(unds[:-1])}[hedge_mode]
            return hedger, d, unds, hedge
        hedger, d, unds, hedge = world()
        # the first column every underlier produces when asked DIRECTLY to simulate a batch of this size from the requested state (deterministic; bitwise oracle)
        want_first = []
        for u_ in unds:
            probe = copy.deepcopy(u_)
            if state is None:
                probe.simulate(n_paths=n_paths, time_horizon=n_steps / 250)
            else:
                probe.simulate(n_paths=n_paths, time_horizon=n_steps / 250, init_state=the_state())
            want_first.append({bn_: b_[:, 0].detach().clone() for bn_, b_ in probe.named_buffers()})
        opt = LogOpt if optkind == "cls" else LogOpt(hedger.model.parameters())
        events.clear()

        def patched_backward(self, *a, **kw):
            events.append(["backward"])
            return orig_backward(self, *a, **kw)
        torch.Tensor.backward = patched_backward
        try:
            torch.manual_seed(seed + 1)
            st, hist, _ = call_fit(hedger.fit, d, call_form, hedge=hedge, n_epochs=k, n_paths=n_paths, n_times=n_times, optimizer=opt,
                                   init_state=the_state(), validation=validation, **display_opts(verbose))
        finally:
            torch.Tensor.backward = orig_backward
        evs, fit_seen = list(events), list(seen)
        if st != "ok":
            ctx.fail("fit raised for a user-defined derivative with several underliers", case, key="fit:multi-underlier:error" + sfx, detail=hist)
            continue
        reqs.append({"op": "fit", "epochs": k, "n_paths": n_paths, "n_times": n_times, "with_init": with_init, "opt": optkind, "lazy": False,
                     "validation": validation, "start_training": True})
        metas.append((case, st, hist, evs))
        nsteps = sum(1 for e in evs if e[0] == "step")
        if nsteps != k:
            ctx.fail("fit did not perform exactly one optimiser step per epoch", case, key="fit:multi-underlier:steps" + sfx, detail={"steps": nsteps})
        if (hist is None) != (not validation) or (validation and len(hist) != k):
            ctx.fail("fit did not return one validation loss per epoch (None when validation is off)", case, key="fit:multi-underlier:history" + sfx, detail=str(hist)[:100])
            continue
        # (a) the batches the criterion was evaluated on: k training and k * n_times validation batches; in each of them EVERY underlier
        # holds n_paths paths that start from the requested state
        n_evals = k * (1 + (n_times if validation else 0))
        if len(fit_seen) != n_evals:
            ctx.fail(f"fit evaluated the criterion {len(fit_seen)} times, the protocol has {n_evals} batches (k training, k * n_times validation)", case,
                     key="fit:multi-underlier:batches" + sfx)
        bad = None
        for bi, snap in enumerate(fit_seen):
            for j_, (bufs, want_) in enumerate(zip(snap, want_first)):
                for bn_, (shape_, first_) in bufs.items():
                    if shape_ != (n_paths, n_steps + 1):
                        bad = bad or ("batch-size", bi, j_, bn_, list(shape_), [n_paths, n_steps + 1])
                    elif not torch.equal(first_, want_[bn_]):
                        bad = bad or ("initial-state", bi, j_, bn_, [float(x) for x in first_[:4]], [float(x) for x in want_[bn_][:4]])
        if bad is not None:
            what = ("a batch fit processed does not have the requested size in every underlier" if bad[0] == "batch-size" else
                    "a batch fit processed was not simulated from the requested initial state: an underlier of the derivative does not start from it "
                    "(first column of its buffer differs from what the underlier produces when simulated from that state)")
            ctx.fail(what, case | {"criterion_evaluation": bad[1], "underlier_index": bad[2], "underlier": kinds[bad[2]], "buffer": bad[3]},
                     key=f"fit:multi-underlier:{bad[0]}" + sfx, detail={"seen": bad[4], "expected": bad[5]})
        # (b) the explicit loop, same seed: every underlier simulated by hand from the requested state, in registration order
        events_fit = events
        events = []
        hedger2, d2, unds2, hedge2 = world()
        crit2 = hedger2.criterion
        plist2 = list(hedger2.model.parameters())
        ref_opt = base_opt(plist2, lr=lr)

        def simulate_all():
            for u_ in unds2:
                if state is None:
                    u_.simulate(n_paths=n_paths, time_horizon=n_steps / 250)
                else:
                    u_.simulate(n_paths=n_paths, time_horizon=n_steps / 250, init_state=the_state())
        ref_grads, ref_vals = [], []
        torch.manual_seed(seed + 1)
        for ep in range(k):
            hedger2.train()
            ref_opt.zero_grad()
            simulate_all()
            loss = crit2(hedger2.compute_portfolio(d2, hedge=hedge2), d2.payoff())
            loss.backward()
            ref_grads.append([None if p.grad is None else p.grad.detach().clone() for p in plist2])
            ref_opt.step()
            if validation:
                hedger2.eval()
                with torch.no_grad():
                    vals = []
                    for _ in range(n_times):
                        simulate_all()
                        vals.append(float(crit2(hedger2.compute_portfolio(d2, hedge=hedge2), d2.payoff())))
                    ref_vals.append(vals)
        events = events_fit
        if validation:
            fi = torch.finfo(dtc)
            for ep, (h, vals) in enumerate(zip(hist, ref_vals)):
                if not history_entry_ok(h, vals, fi.eps, fi.max):
                    ctx.fail("a validation loss returned by fit is not the mean of the n_times evaluations of the explicit loop under the same seed, in which "
                             "every underlier of the derivative is simulated from the requested initial state", case | {"epoch": ep},
                             key="fit:multi-underlier:history-values" + sfx, detail={"returned": h, "explicit_loop_evaluations": vals})
                    break
        p1 = [p.detach() for p in hedger.parameters()]
        p2 = [p.detach() for p in hedger2.parameters()]
        if len(p1) != len(p2) or any(not torch.equal(a, b) for a, b in zip(p1, p2)):
            ctx.fail("parameters after fit differ from the explicit simulate/loss/backward/step loop under the same seed, in which every underlier of the "
                     "user-defined derivative is simulated with the requested batch size and initial state", case, key="fit:multi-underlier:reference-loop" + sfx,
                     detail={"max_abs_diff": max(float((a - b).abs().max()) for a, b in zip(p1, p2)) if len(p1) == len(p2) else None})
        if optkind == "instance" and len(opt.grads_at_step) == len(ref_grads):
            for ep, (ga, gb) in enumerate(zip(opt.grads_at_step, ref_grads)):
                if len(ga) != len(gb) or any((x is None) != (y is None) or (x is not None and not torch.equal(x, y)) for x, y in zip(ga, gb)):
                    ctx.fail("the gradient applied at an optimiser step is not the gradient of the criterion over that epoch's batch simulated from the "
                             "requested initial state (all underliers)", case | {"epoch": ep}, key="fit:multi-underlier:gradient-per-step" + sfx)
                    break


def itertools_cycle(xs):
    import itertools
    return itertools.cycle(xs)


# ---------------------------------------------------------------------------------------------------------------------------
# state-dependent hedgers: the previous hedge is an input of the model.  The reference of the main loop goes through
# Hedger.compute_portfolio, i.e. through the very recursion whose gradient is in question; here the loss of a batch is written out
# by hand (no Hedger, no pfhedge.nn.functional.pl): delta_i = model([features at step i, delta_{i-1}]), delta_{-1} = 0, the last
# position is kept until maturity, wealth = sum_i delta_i (S_{i+1} - S_i) - c S_0 |delta_0| - c sum_i S_{i+1} |delta_{i+1} - delta_i|,
# loss = criterion(wealth - payoff).  Two differently ordered float64 computations of the same quantity: compared with a relative
# tolerance of 1e-9 on the max-norm over all parameters (round-off is ~1e-14; a gradient that ignores a path of dependence is off
# by 1e-3 .. 1e-1)

def hand_loss(torch, model, crit, names, feats, spot, strike, call, cost):
    N, T = spot.shape
    prev = spot.new_zeros((N, 1))
    deltas = []
    for i in range(T - 1):
        x = torch.cat([prev if nm == "prev_hedge" else feats[nm][i] for nm in names], dim=-1)      # (N, F)
        prev = model(x)                                                                            # (N, 1)
        deltas.append(prev[:, 0])
    deltas.append(deltas[-1])
    wealth = spot.new_zeros((N,))
    for i in range(T - 1):
        wealth = wealth + deltas[i] * (spot[:, i + 1] - spot[:, i])
    wealth = wealth - cost * spot[:, 0] * deltas[0].abs()
    for i in range(T - 1):
        wealth = wealth - cost * spot[:, i + 1] * (deltas[i + 1] - deltas[i]).abs()
    payoff = (spot[:, -1] - strike).clamp(min=0) if call else (strike - spot[:, -1]).clamp(min=0)
    return crit(wealth - payoff)


def hand_features(torch, d, names):
    """the state-INDEPENDENT features of the current batch from pfhedge's feature objects: {name: [(N, 1) tensor per time step]}"""
    from pfhedge.features import get_feature
    T = d.ul().spot.size(1)
    with torch.no_grad():
        return {nm: [get_feature(nm).of(d).get(i)[:, 0, :].detach().clone() for i in range(T - 1)] for nm in names if nm != "prev_hedge"}


def max_rel_diff(xs, ys):
    """(max |x - y|, max(|x|, |y|)) over two lists of tensors"""
    diff = max([float((x - y).abs().max()) for x, y in zip(xs, ys) if x.numel()] + [0.0])
    scale = max([float(x.abs().max()) for x in list(xs) + list(ys) if x.numel()] + [0.0])
    return diff, scale


def check_prev_hedge(ctx, torch, g):
    import pfhedge.nn as nn
    import pfhedge.instruments as I
    from pfhedge.nn import Hedger
    from pfhedge.nn.modules.loss import OCE
    dt = torch.float64
    RTOL = 1e-9

    def exp_utility(x):
        return 1 - (-x).exp()
    for it in range(30 if ctx.tier == "quick" else 400):
        k = g.choice([1, 2, 3])
        n_paths = g.choice([2, 8, 32])
        n_steps = g.choice([3, 4, 6])                  # hedging dates: the spot buffer has n_steps + 1 columns
        n_times = g.choice([1, 2])
        validation = g.chance(0.5)
        optkind = g.choice(["cls", "instance"])
        optname = g.choice(["SGD", "Adam"])
        lr = g.choice([0.01, 0.1, 0.5]) if optname == "SGD" else 0.01
        crit_name = g.choice(["erm", "es", "oce"])
        others = g.r.sample(["moneyness", "log_moneyness", "time_to_maturity"], g.choice([1, 2]))
        names = others + ["prev_hedge"]
        g.r.shuffle(names)
        width = g.choice([2, 4, 8])
        act = g.choice(["Tanh", "ReLU", "Sigmoid"])
        gain = g.choice([1.0, 2.0, 4.0])               # weight of the fed-back hedge in the first layer
        call = g.chance(0.5)
        strike = g.choice([1.0, 0.95, 1.05])
        # cost rates exactly representable in single precision: pl() builds torch.tensor(cost) (float32) before casting to the
        # spot's dtype (DESIGN 'cost rates k*2^-8'), a 6e-8 relative rounding of the rate that is not this property's subject
        cost = g.choice([0.0, 2.0 ** -10, 2.0 ** -7, 3 * 2.0 ** -9])
        with_init = g.chance(0.3)
        seed = g.randint(0, 10 ** 6)
        call_form = gen_call_form(g)
        # the first layer a USER-DEFINED lazy layer (lazy-typed for ever): materialised by the caller's own placeholder forward, or - optimiser
        # given as a class - left to fit, which then simulates ONE single-path batch and runs a forward before constructing the optimiser
        lazy_user = g.chance(0.3)
        materialised = lazy_user and (optkind == "instance" or g.chance(0.5))
        uninit = lazy_user and not materialised
        if it < 4:      # on every tier, for every seed
            lazy_user, materialised, uninit, optkind = True, it < 3, it == 3, ("cls", "cls", "instance", "cls")[it]
        if uninit:
            gain = 1.0      # (the first layer's weight does not exist yet)
        # the display option (see the main loop): at random, and on every tier for every seed all combinations of validation x verbose x n_times
        verbose = g.chance(0.5)
        if it < 12:
            verbose, validation, n_times = it % 2 == 0, (it // 2) % 2 == 0, 1 + it // 4
        sfx = (":user-lazy" if lazy_user else "") + ("" if call_form == "keyword" else ":positional") + (":verbose" if verbose else "")
        case = {"prev_hedge": True, "lazy_kind": "user" if lazy_user else None, "materialised": materialised if lazy_user else None, "call_form": call_form, "inputs": names, "epochs": k, "n_paths": n_paths, "n_steps": n_steps, "n_times": n_times,
                "validation": validation, "verbose": verbose, "opt": optkind, "optimizer": optname, "lr": lr, "criterion": crit_name, "width": width,
                "activation": act, "prev_hedge_gain": gain, "call": call, "strike": strike, "cost": cost, "with_init": with_init, "seed": seed}
        ctx.case(case, nontrivial=True, tag="fit_prev_hedge")
        ctx.traces += 1
        ctx.stats[f"prev_hedge:opt={optkind}/{optname}"] += 1
        init_state = (1.25,) if with_init else None

        def build():
            torch.manual_seed(seed)
            first = user_lazy_layer(torch)(width, dtype=dt) if lazy_user else torch.nn.Linear(len(names), width, dtype=dt)
            model = torch.nn.Sequential(first, getattr(torch.nn, act)(), torch.nn.Linear(width, 1, dtype=dt))
            if materialised:
                model(torch.zeros(1, len(names), dtype=dt))      # the caller's placeholder forward
            if not uninit:
                with torch.no_grad():
                    model[0].weight[:, names.index("prev_hedge")] *= gain
            crit = {"erm": lambda: nn.EntropicRiskMeasure(), "es": lambda: nn.ExpectedShortfall(0.5), "oce": lambda: OCE(exp_utility)}[crit_name]()
            stock = I.BrownianStock(cost=cost, dtype=dt)
            d = recording_option(I, sims)(stock, call=call, strike=strike, maturity=n_steps / 250)
            return model, crit, d
        sims = []
        model, crit, d = build()
        hedger = Hedger(model, list(names), criterion=crit)
        base_opt = getattr(torch.optim, optname)
        steps = []          # per optimiser step of the real fit: (gradient present at the step, hand-unrolled gradient, same batch, same parameters)

        class HandOpt(base_opt):
            def __init__(self, params):
                super().__init__(params, lr=lr)

            def step(self, *a, **kw):
                present = [None if p.grad is None else p.grad.detach().clone() for p in model.parameters()]
                twin = copy.deepcopy(model)
                with torch.enable_grad():
                    loss = hand_loss(torch, twin, crit, names, hand_features(torch, d, names), d.ul().spot.detach(), strike, call, cost)
                    hand = torch.autograd.grad(loss, list(twin.parameters()), allow_unused=True)
                steps.append((present, [None if h is None else h.detach() for h in hand], twin.training))
                return super().step(*a, **kw)
        opt = HandOpt if optkind == "cls" else HandOpt(model.parameters())
        torch.manual_seed(seed + 1)
        st, hist, _ = call_fit(hedger.fit, d, call_form, hedge=None, n_epochs=k, n_paths=n_paths, n_times=n_times, optimizer=opt,
                               init_state=init_state, validation=validation, **display_opts(verbose))
        ctx.stats[f"prev_hedge:call_form={call_form}"] += 1
        ctx.stats[f"prev_hedge:display:validation={validation}/verbose={verbose}"] += 1
        if lazy_user:
            ctx.stats[f"prev_hedge:user-lazy/{'materialised' if materialised else 'uninitialised'}/{optkind}"] += 1
        fit_sims = list(sims)
        if st != "ok":
            ctx.fail("fit raised for a hedger with prev_hedge among its inputs", case, key="fit:prev-hedge:error" + sfx, detail=hist)
            continue
        if len(steps) != k:
            ctx.fail("fit did not perform exactly one optimiser step per epoch", case, key="fit:steps" + sfx, detail={"steps": len(steps)})
            continue
        if (hist is None) != (not validation) or (validation and len(hist) != k):
            ctx.fail("fit did not return one validation loss per epoch (None when validation is off)", case, key="fit:history" + sfx, detail=str(hist)[:100])
            continue
        want_sims = expected_batches(k, n_paths, n_times, validation, placeholder=uninit and optkind == "cls")
        if fit_sims != want_sims:
            ctx.fail("fit simulated other batches (number / sizes) than the k training and k * n_times validation batches of the requested size"
                     + (" preceded by the single-path placeholder batch that materialises the uninitialised parameters" if uninit else
                        "; the model has no uninitialised parameter" + (" (materialised by the caller before fit)" if lazy_user else "")),
                     case, key="fit:batches" + sfx, detail={"simulated": fit_sims[:40], "expected": want_sims[:40]})
        # (a) the gradient present at every optimiser step = gradient of the hand-unrolled loss of that batch at those parameters
        for ep, (present, hand, _) in enumerate(steps):
            if any(x is None for x in present) or any(x is None for x in hand):
                ctx.fail("a parameter of the model has no gradient at an optimiser step of fit (hedger with prev_hedge)", case | {"epoch": ep},
                         key="fit:prev-hedge:gradient-missing" + sfx)
                break
            diff, scale = max_rel_diff(present, hand)
            ctx.stats["prev_hedge:steps_compared"] += 1
            if scale > 0 and diff == diff:
                ctx.extra["prev_hedge_max_rel_gradient_diff"] = max(ctx.extra.get("prev_hedge_max_rel_gradient_diff", 0.0), diff / scale)
            if not diff <= RTOL * scale:
                ctx.fail("the gradient applied at an optimiser step of fit is not the gradient of the criterion over that batch: it differs from "
                         "the gradient of the loss with the hedge unrolled by hand (previous hedge fed back as an input)", case | {"epoch": ep},
                         key="fit:gradient-per-step:hand-unrolled" + sfx, detail={"max_abs_diff": diff, "max_abs_gradient": scale})
                break
        # (b) parameters after fit = parameters after the explicit simulate / hand-unrolled loss / backward / step loop, same seed
        model2, crit2, d2 = build()
        torch.manual_seed(seed + 1)
        if uninit:
            # fit materialises the lazy parameters by a placeholder simulate(1) + forward after the seed was set and before constructing
            # the optimiser: the explicit loop's own placeholder batch and forward
            d2.simulate(n_paths=1)
            model2(torch.zeros(1, len(names), dtype=dt))
        ref_opt = base_opt(model2.parameters(), lr=lr)
        for ep in range(k):
            model2.train()
            ref_opt.zero_grad()
            d2.simulate(n_paths=n_paths, init_state=init_state)
            loss = hand_loss(torch, model2, crit2, names, hand_features(torch, d2, names), d2.ul().spot, strike, call, cost)
            loss.backward()
            ref_opt.step()
            if validation:
                model2.eval()
                with torch.no_grad():
                    for _ in range(n_times):
                        d2.simulate(n_paths=n_paths, init_state=init_state)
        p1 = [p.detach() for p in model.parameters()]
        p2 = [p.detach() for p in model2.parameters()]
        diff, scale = max_rel_diff(p1, p2)
        if scale > 0 and diff == diff:
            ctx.extra["prev_hedge_max_rel_parameter_diff"] = max(ctx.extra.get("prev_hedge_max_rel_parameter_diff", 0.0), diff / scale)
        if not diff <= RTOL * scale:
            ctx.fail("parameters after fit differ from an explicit simulate/loss/backward/step loop under the same seed whose loss unrolls the "
                     "hedge by hand (hedger with prev_hedge among its inputs)", case, key="fit:reference-loop:hand-unrolled" + sfx,
                     detail={"max_abs_diff": diff, "max_abs_parameter": scale})


# ---------------------------------------------------------------------------------------------------------------------------
# the NUMBERS of the protocol: the Lean model `fitNum` (Model/FitNum.lean, driver op "fit_num") executes the whole training loop on the
# batches of the run - per epoch zero_grad, loss of THAT batch (`lossOfH`), gradient (eps-parts of the same loss at dual numbers, one
# forward pass per parameter), torch.optim.SGD / Adam step, validation losses at the new parameters - and must reproduce what the REAL
# Hedger.fit leaves behind: the parameters after fit, the training loss of every epoch (read off a logging criterion), the individual
# validation evaluations and the returned history.  The batches are obtained by re-simulating under the same seed with a twin derivative
# (simulate calls in the documented order: training batch, then n_times validation batches per epoch); the twin also runs the explicit
# reference loop, only to locate kinks (|position change| / |first position| of an instrument with a non-zero cost rate, ReLU pre-activation,
# tie at the cut of the expected shortfall) on the trajectory: a case within 2^-20 of one is rejected and counted, not tolerated.
# float64 throughout; the model's gradients are forward-mode, torch's reverse-mode, the optimiser kernels fuse multiply-adds: relative
# tolerance 1e-9 on the max-norm.

def check_fit_num(ctx, torch):
    import functools
    import pfhedge.nn as nn
    import pfhedge.instruments as I
    from pfhedge.nn import Hedger
    g = Gen(f"{ctx.seed}:fit_num")
    dt = torch.float64
    RTOL = 1e-9
    KINK = 2.0 ** -20
    want = 36 if ctx.tier == "quick" else 360
    BIG = 1e100          # a run that diverges: numbers are compared with the model up to the first epoch that leaves [-BIG, BIG]
    FEATS = {"moneyness": ["moneyness", False], "log_moneyness": ["moneyness", True], "time_to_maturity": ["time_to_maturity"],
             "volatility": ["volatility"], "underlier_spot": ["underlier_spot", False], "prev_hedge": ["prev_hedge"]}
    reqs, metas = [], []
    accepted = attempts = rejected = 0
    while accepted < want and attempts < 8 * want:
        attempts += 1
        k = g.choice([0, 1, 2, 3, 4])
        n_paths = g.choice([2, 4, 8, 16])
        n_steps = g.choice([2, 3, 5])
        n_times = g.choice([1, 1, 2, 3])
        validation = g.chance(0.6)
        optkind = g.choice(["cls", "instance"])
        optname = g.weighted([("SGD", 3), ("Adam", 1)])
        if optname == "SGD":
            lr = g.choice([0.01, 0.1, 0.5])
            momentum = g.choice([0.0, 0.0, 0.9, 0.5])
            wd = g.choice([0.0, 0.0, 0.0, 0.0625])
            okw = dict(lr=lr, momentum=momentum, weight_decay=wd)
        else:
            lr = g.choice([0.001, 0.01, 0.1])
            momentum, wd = None, g.choice([0.0, 0.0, 0.0625])
            okw = dict(lr=lr, weight_decay=wd)
        H = g.choice([1, 1, 2])
        prev = g.chance(0.4)
        names = g.r.sample(["moneyness", "log_moneyness", "time_to_maturity", "volatility", "underlier_spot"], g.choice([1, 2]))
        if prev:
            names = names + ["prev_hedge"]
            g.r.shuffle(names)
        width = sum(H if nm == "prev_hedge" else 1 for nm in names)
        relu = g.chance(0.5)
        hid = g.choice([2, 3])
        crit_name = g.choice(["erm", "es", "eloss", "mse"])
        a = g.choice([0.5, 1.0, 2.0])
        kk = g.choice([x for x in (1, 2, n_paths // 2, n_paths) if x <= n_paths])
        call = g.chance(0.5)
        strike = g.choice([1.0, 0.95, 1.05])
        cost = g.choice([0.0, 0.0, 2.0 ** -10, 2.0 ** -7, 3 * 2.0 ** -9])       # exactly representable in single precision (see above)
        cost2 = g.choice([0.0, 2.0 ** -9, 2.0 ** -6])
        pa, pb = g.choice([1.0, 2.0, 0.5]), g.choice([0.0, 1.0, -0.25])
        with_init = g.chance(0.3)
        seed = g.randint(0, 10 ** 6)
        call_form = gen_call_form(g)
        # the first layer a user-defined lazy layer (keeps its lazy class), materialised by the caller's placeholder forward: the model has no
        # uninitialised parameter, fit is the same protocol on the same batches as for a Linear layer holding these numbers
        lazy_user = g.chance(0.25) or attempts <= 3
        # runs that leave the finite range (see the main loop): a learning rate far too large, or an entropic loss that overflows on the
        # first batch.  The counts (optimiser steps, criterion evaluations, history length) are compared with the model exactly as
        # always; the numbers up to the first epoch in which a loss / gradient / parameter is non-finite or beyond 1e100
        diverge = g.weighted([(None, 6), ("lr", 1), ("scale", 1)])
        if diverge == "lr":
            lr = g.choice([1e150, 1e300])
            okw["lr"] = lr
        if diverge == "scale":
            crit_name = "eloss"
        # the display option (see the main loop): at random, and for the first attempts of every run all combinations of validation x verbose x n_times
        verbose = g.chance(0.5)
        if attempts <= 12:
            verbose, validation, n_times = attempts % 2 == 1, (attempts // 2) % 2 == 0, 1 + (attempts - 1) // 4
            k = max(k, 1)
        sfx = ((":user-lazy" if lazy_user else "") + ("" if call_form == "keyword" else ":positional") + (":nonfinite-loss" if diverge else "")
               + (":verbose" if verbose else ""))
        case = {"fit_num": True, "lazy_kind": "user" if lazy_user else None, "materialised": True if lazy_user else None, "call_form": call_form, "diverge": diverge, "epochs": k, "n_paths": n_paths, "n_steps": n_steps, "n_times": n_times, "validation": validation,
                "verbose": verbose, "opt": optkind, "optimizer": optname, "lr": lr, "momentum": momentum, "weight_decay": wd, "H": H, "inputs": names,
                "relu_mlp": relu, "hidden": hid if relu else None, "criterion": crit_name, "a": a, "es_k": kk, "call": call, "strike": strike,
                "cost": cost, "cost2": cost2 if H == 2 else None, "listed_pricer": [pa, pb] if H == 2 else None, "with_init": with_init, "seed": seed}
        init_state = (1.25,) if with_init else None

        def build():
            torch.manual_seed(seed)
            first = (lambda out_: user_lazy_layer(torch)(out_, dtype=dt)) if lazy_user else (lambda out_: torch.nn.Linear(width, out_, dtype=dt))
            if relu:
                model = torch.nn.Sequential(first(hid), torch.nn.ReLU(), torch.nn.Linear(hid, H, dtype=dt))
            else:
                model = first(H)
            if lazy_user:
                model(torch.zeros(1, width, dtype=dt))      # the caller's placeholder forward
            if diverge == "scale":
                with torch.no_grad():
                    last = model[2] if relu else model
                    last.weight *= 2.0 ** 40
                    last.bias *= 2.0 ** 40
            crit = {"erm": lambda: nn.EntropicRiskMeasure(a), "es": lambda: nn.ExpectedShortfall(kk / n_paths),
                    "eloss": lambda: nn.EntropicLoss(a), "mse": lambda: torch.nn.MSELoss()}[crit_name]()
            stock = I.BrownianStock(cost=cost, dtype=dt)
            d = recording_option(I, sims)(stock, call=call, strike=strike, maturity=n_steps / 250)
            hedge = [stock]
            if H == 2:
                o = I.EuropeanOption(stock, maturity=n_steps / 250)
                o.list(lambda dd, a_=pa, b_=pb: dd.ul().spot * a_ + b_, cost=cost2)
                hedge.append(o)
            return model, crit, d, stock, hedge
        crit_spec = {"erm": ["erm", float_bits(a)], "es": ["es", kk], "eloss": ["eloss", float_bits(a)], "mse": ["mse"]}[crit_name]
        sims = []
        model, crit, d, stock, hedge = build()
        log = []          # (gradients enabled, value) of every criterion evaluation of the real fit

        class LogCrit(torch.nn.Module):
            def __init__(self, inner):
                super().__init__()
                self.inner = inner

            def forward(self, input, target=0.0):
                out = self.inner(input, target)
                log.append((bool(torch.is_grad_enabled()), float(out.detach())))
                return out
        hedger = Hedger(model, list(names), criterion=LogCrit(crit))
        base_opt = getattr(torch.optim, optname)
        seen_grads = []

        class TheOpt(base_opt):          # fit() accepts an Optimizer SUBCLASS (it looks for Optimizer in __mro__: a lambda / functools.partial is a TypeError)
            def __init__(self, params):
                super().__init__(params, **okw)

            def step(self, *a_, **kw_):
                seen_grads.append([None if p.grad is None else p.grad.detach().clone() for p in model.parameters()])
                return super().step(*a_, **kw_)
        opt = TheOpt if optkind == "cls" else TheOpt(model.parameters())
        theta0 = [p.detach().clone() for p in model.parameters()]
        torch.manual_seed(seed + 1)
        st, hist, _ = call_fit(hedger.fit, d, call_form, hedge=hedge, n_epochs=k, n_paths=n_paths, n_times=n_times, optimizer=opt,
                               init_state=init_state, validation=validation, **display_opts(verbose))
        fit_sims = list(sims)
        if st == "ok" and fit_sims != expected_batches(k, n_paths, n_times, validation, placeholder=False):
            ctx.fail("fit simulated other batches (number / sizes) than the k training and k * n_times validation batches of the requested size; the model "
                     "has no uninitialised parameter" + (" (materialised by the caller before fit)" if lazy_user else ""),
                     case, key="fit:batches" + sfx, detail={"simulated": fit_sims[:40], "expected": expected_batches(k, n_paths, n_times, validation, False)[:40]})
        # ---- the twin: the batches of the run, re-simulated under the same seed, and the kinks on the reference trajectory
        model2, crit2, d2, stock2, hedge2 = build()
        hedger2 = Hedger(model2, list(names), criterion=crit2)
        ref_opt = base_opt(model2.parameters(), **okw)
        sigma = float(stock2.sigma)

        def batch_json():
            spot = d2.ul().spot.detach()
            out = []
            for p_ in range(spot.size(0)):
                row = enc_flt([float(x) for x in spot[p_].tolist()])
                T_ = spot.size(1)
                mj = {"spot": row, "variance": enc_flt([sigma * sigma] * T_), "volatility": enc_flt([sigma] * T_), "listed": row,
                      "dt": float_bits(float(stock2.dt)), "strike": float_bits(strike), "oracle": enc_flt([0.0] * T_)}
                hs = [{"kind": "primary", "row": row, "cost": float_bits(cost)}]
                if H == 2:
                    hs.append({"kind": "listed", "a": float_bits(pa), "b": float_bits(pb), "row": row, "cost": float_bits(cost2)})
                out.append({"market": mj, "hedges": hs})
            return out

        def near_kink():
            with torch.no_grad():
                unit = hedger2.compute_hedge(d2, hedge=hedge2)          # (N, H, T)
                for j_, c_ in enumerate([cost, cost2][:H]):
                    if c_ > 0:
                        if unit.size(-1) > 2 and bool((unit[:, j_, :].diff(dim=-1).abs()[..., :-1] < KINK).any()):
                            return True
                        if bool((unit[:, j_, 0].abs() < KINK).any()):
                            return True
                if relu:
                    pre_min = [float("inf")]

                    def hook(mod, inp):
                        pre_min[0] = min(pre_min[0], float(inp[0].abs().min()))
                    hs_ = [m_.register_forward_pre_hook(hook) for m_ in model2.modules() if isinstance(m_, torch.nn.ReLU)]
                    hedger2.compute_hedge(d2, hedge=hedge2)
                    for h_ in hs_:
                        h_.remove()
                    if pre_min[0] < KINK:
                        return True
                if crit_name == "es" and kk < n_paths:
                    plv = (hedger2.compute_portfolio(d2, hedge=hedge2) - d2.payoff()).sort().values
                    if bool((plv[kk] - plv[kk - 1]).abs() < KINK):
                        return True
            return False
        epochs_json, kink, small_grad = [], False, False
        torch.manual_seed(seed + 1)
        twin_err = None
        try:
            for ep in range(k):
                hedger2.train()
                ref_opt.zero_grad()
                d2.simulate(n_paths=n_paths, init_state=init_state)
                ej = {"train": batch_json(), "val": None}
                kink = kink or near_kink()
                loss = crit2(hedger2.compute_portfolio(d2, hedge=hedge2), d2.payoff())
                loss.backward()
                if optname == "Adam":
                    # Adam divides by sqrt(g^2) + 1e-8: a gradient component that is zero up to rounding has no stable update
                    for p_ in model2.parameters():
                        gabs = p_.grad.abs()
                        small_grad = small_grad or bool(((gabs < 1e-6) & (gabs > 0)).any())
                ref_opt.step()
                if validation:
                    hedger2.eval()
                    vals = []
                    with torch.no_grad():
                        for _ in range(n_times):
                            d2.simulate(n_paths=n_paths, init_state=init_state)
                            vals.append(batch_json())
                            kink = kink or (crit_name == "es" and near_kink())
                    ej["val"] = vals
                epochs_json.append(ej)
        except Exception as e:  # noqa
            if not diverge:
                raise
            twin_err = canon_error(e)
        if st != "ok" and twin_err == hist:
            ctx.stats["fit_num:diverge:explicit_loop_raises_too"] += 1          # torch / the optimiser itself refuses the run
            continue
        if st != "ok" or twin_err is not None:
            ctx.fail("fit raised" + (" in a run whose losses become inf / nan (it must carry on for k epochs and return them)" if diverge else "")
                     if st != "ok" else "fit returned normally where the explicit loop under the same seed raises",
                     case, key=("fit:error" if st != "ok" else "fit:reference-loop") + sfx,
                     detail={"error": hist if st != "ok" else twin_err, "optimiser_steps_done": len(seen_grads)})
            if twin_err is not None:
                continue
        for key_ in (f"fit_num:call_form={call_form}", f"fit_num:diverge={diverge}", f"fit_num:opt={optkind}/{optname}", f"fit_num:epochs={k}", f"fit_num:crit={crit_name}", f"fit_num:H={H}",
                     f"fit_num:prev_hedge={prev}", f"fit_num:user_lazy_layer={lazy_user}", f"fit_num:cost>0={cost > 0 or (H == 2 and cost2 > 0)}", f"fit_num:validation={validation}",
                     f"fit_num:display:validation={validation}/verbose={verbose}"):
            ctx.stats[key_] += 1
        if kink or small_grad:
            rejected += 1
            ctx.stats["fit_num:rejected_near_kink"] += 1
            if small_grad and not kink:
                ctx.stats["fit_num:rejected_adam_gradient_component_near_zero"] += 1
            continue
        accepted += 1
        ctx.case(case, nontrivial=k >= 1, tag="fit_num")
        ctx.traces += 1
        layers = [{"w": enc_flt([[float(x) for x in r] for r in w_.tolist()]), "b": enc_flt([float(x) for x in b_.tolist()])}
                  for w_, b_ in zip(theta0[0::2], theta0[1::2])]
        opt_spec = (["sgd", float_bits(lr), float_bits(momentum), float_bits(wd)] if optname == "SGD"
                    else ["adam", float_bits(lr), float_bits(0.9), float_bits(0.999), float_bits(1e-8), float_bits(wd)])
        reqs.append({"op": "fit_num", "features": [FEATS[nm] for nm in names], "layers": layers,
                     "payoff": {"kind": "european", "call": call, "strike": float_bits(strike)}, "adds": [], "first": True,
                     "crit": crit_spec, "opt": opt_spec, "epochs": epochs_json})
        final = [float(x) for p in model.parameters() for x in p.detach().reshape(-1).tolist()]
        metas.append((case, st, hist, final, list(log), [[float(x) for t_ in gs if t_ is not None for x in t_.reshape(-1).tolist()] for gs in seen_grads]))
    ctx.extra["fit_num_cases"] = accepted
    ctx.extra["fit_num_rejected_near_kink"] = rejected
    try:
        outs = ctx.driver(reqs)
    except DriverBroken as e:
        ctx.ties_broken.append({"kind": "driver", "detail": str(e)[:1500]})
        outs = []

    def rel(xs, ys):
        if len(xs) != len(ys):
            return float("inf")
        diff = max([abs(x - y) for x, y in zip(xs, ys)] + [0.0])
        scale = max([abs(x) for x in list(xs) + list(ys)] + [0.0])
        if not (diff == diff and scale == scale):
            return float("inf")
        return 0.0 if diff == 0.0 else diff / scale
    worst = 0.0
    for (case, st, hist, final, log, grads), mo in zip(metas, outs):
        k, n_times, validation = case["epochs"], case["n_times"], case["validation"]
        if st != "ok" or "ok" not in mo:
            ctx.disagree("fit_num", case, (st, str(hist)[:80]), {k_: v_ for k_, v_ in mo.items() if k_ != "ok"} or "ok")
            continue
        m = mo["ok"]
        m_final, m_train = dec_flt(m["final"]), dec_flt(m["train"])
        m_hist = [None if v is None else float_of_bits(v) for v in m["val"]]
        m_evals = [x for row in dec_flt(m["val_evals"]) for x in row]
        m_grads = dec_flt(m["grads"])
        train = [v for ge, v in log if ge]
        evals = [v for ge, v in log if not ge]
        # counts first (exact), then the numbers
        if m["steps"] != len(grads) or m["loss_evals"] != len(log) or len(m_train) != len(train) or len(m_evals) != len(evals):
            ctx.disagree("fit_num", case | {"what": "number of optimiser steps / criterion evaluations"},
                         {"steps": len(grads), "loss_evals": len(log), "training": len(train), "validation": len(evals)},
                         {"steps": m["steps"], "loss_evals": m["loss_evals"], "training": len(m_train), "validation": len(m_evals)})
            continue
        if (hist is None) != (not validation) or (validation and (not isinstance(hist, list) or len(hist) != len(m_hist) or any(v is None for v in m_hist))):
            ctx.disagree("fit_num", case | {"what": "returned history"}, None if hist is None else len(hist), m_hist)
            continue
        checks = [("parameters after fit", final, m_final), ("training loss per epoch", train, m_train),
                  ("validation evaluations", evals, m_evals)]
        if validation:
            checks.append(("returned validation history", [float(x) for x in hist], m_hist))
        for ep, (ga, gb) in enumerate(zip(grads, m_grads)):
            checks.append((f"gradient at the optimiser step of epoch {ep}", ga, gb))
        if case["diverge"]:
            # the same quantities in the order of the run, cut at the first one that is non-finite or beyond BIG on either side (the
            # numeric model is tied to the code on ordinary floats: logsumexp vs log-sum-exp, forward- vs reverse-mode products 0 * inf
            # ... are free to differ there); the counts above were compared in full
            chrono = []
            for ep in range(k):
                chrono.append((f"training loss of epoch {ep}", [train[ep]], [m_train[ep]]))
                chrono.append((f"gradient at the optimiser step of epoch {ep}", grads[ep], m_grads[ep]))
                if validation:
                    chrono.append((f"validation evaluations of epoch {ep}", evals[ep * n_times:(ep + 1) * n_times], m_evals[ep * n_times:(ep + 1) * n_times]))
                    chrono.append((f"returned validation loss of epoch {ep}", [float(hist[ep])], [m_hist[ep]]))
            chrono.append(("parameters after fit", final, m_final))
            checks = []
            for item in chrono:
                if not all(math.isfinite(x) and abs(x) <= BIG for x in list(item[1]) + list(item[2])):
                    break
                checks.append(item)
            ctx.stats["fit_num:diverge:quantities_compared_before_leaving_the_ordinary_range"] += len(checks)
            ctx.stats["fit_num:diverge:really_nonfinite" if not all(math.isfinite(x) for x in train + evals + final) else "fit_num:diverge:stayed_finite"] += 1
        for what, impl, model_ in checks:
            r = rel(impl, model_)
            if r != float("inf"):
                worst = max(worst, r)
            if not r <= RTOL:
                ctx.disagree("fit_num", case | {"what": what}, impl, model_, note=f"relative max-norm difference {r:.3e} > {RTOL}")
                break
    ctx.extra["fit_num_max_rel_diff"] = worst
