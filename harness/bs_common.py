"""Shared pieces for C07/C08/C09: calling the real bs_* functions, the model op, box generators."""
import math
from common import *  # noqa

FN_ARGS = {
    "european_price": "stvkc", "european_delta": "stvc", "european_gamma": "stvk", "european_vega": "stvk", "european_theta": "stvk",
    "european_binary_price": "stvc", "european_binary_delta": "stvck", "european_binary_gamma": "stvck",
    "european_binary_vega": "stvck", "european_binary_theta": "stvck",
    "american_binary_price": "smtv", "american_binary_delta": "smtvk", "american_binary_gamma": "smtvk",
    "american_binary_vega": "smtvk", "american_binary_theta": "smtvk",
    "lookback_price": "smtvk", "lookback_delta": "smtvk", "lookback_gamma": "smtvk", "lookback_vega": "smtvk", "lookback_theta": "smtvk",
}


def call_bs(torch, fn, s, t, v, k, m, call, dtype=None):
    """evaluate pfhedge.nn.functional.bs_<fn> at tensors/lists s,t,v,(m)"""
    import pfhedge.nn.functional as fnl
    dtype = dtype or torch.float64
    T = lambda x: x if isinstance(x, torch.Tensor) else torch.tensor(x, dtype=dtype)
    f = getattr(fnl, "bs_" + fn)
    sig = FN_ARGS[fn]
    kw = {}
    if "c" in sig:
        kw["call"] = call
    if "k" in sig:
        kw["strike"] = k
    if "m" in sig:
        return f(T(s), T(m), T(t), T(v), **kw)
    return f(T(s), T(t), T(v), **kw)


def gen_point(g, path_dep=False):
    s = g.choice([g.r.uniform(-1, 1), g.r.uniform(-0.2, 0.2), 0.0, g.r.uniform(-1, 1)])
    t = g.choice([g.r.uniform(0.01, 5), g.r.uniform(0.01, 0.5), 1.0, 0.25, 4.0])
    v = g.choice([g.r.uniform(0.02, 2), g.r.uniform(0.05, 0.5), 0.2, 1.0])
    k = g.choice([g.r.uniform(0.1, 10), 1.0, 0.5, 7.5])
    m = s
    if path_dep:
        r = g.r.random()
        # running max = spot; running max exactly AT the strike (m == 0 with s <= 0); above the spot
        if r < 0.25:
            m = s
        elif r < 0.5:
            s, m = (-abs(s) if g.chance(0.8) else 0.0), 0.0
        else:
            m = s + g.r.uniform(0, 0.6)
    return s, t, v, k, m


def rel_close(a, b, rel=1e-9, ab=1e-12):
    if math.isnan(a) or math.isnan(b):
        return math.isnan(a) and math.isnan(b)
    if math.isinf(a) or math.isinf(b):
        return a == b
    return abs(a - b) <= rel * max(abs(a), abs(b)) + ab


def model_vals(ctx, items):
    """items: list of (fn, call, [s,t,v,k,m]) -> list of float | ('err', kind)"""
    reqs = [{"op": "bs", "fn": fn, "call": call, "elems": [enc_flt(e)]} for fn, call, e in items]
    outs = ctx.driver(reqs)
    res = []
    for o in outs:
        o = o[0]
        res.append(float_of_bits(o["ok"]) if "ok" in o else ("err", o.get("err")))
    return res
