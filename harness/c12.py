"""C12 — Payoffs equal their contractual definitions and ordering.

correspondence: functional *_payoff and derivative.payoff() (with clauses) vs the Lean model
(Model/Payoff.lean) at Rat, exact on dyadic paths; variance swap through the Float carrier;
forward-start index through the bit-exact Float replica of floor(start/dt);
whole SESSIONS on one derivative object (attribute re-assignments, in-place price edits, buffer replacement, clause
registration, refused operations, payoff() in between) vs `run` of Model/Session.lean (driver op "session"), every answer exact;
clauses handed over as lambdas / functions / callable instances / bound methods / partials, one descriptor = ONE callable object, so a
clause registered twice (under two names) is the same callable twice (ops "clauses" and "session" see the same registrations);
functionals on price tensors of shape (T,), (B, N, T), ... (contiguous, permuted, strided) vs op "payoff" / "var_swap" path by path.
property predicate: the contract formulas in exact Fractions (independent of the model).
"""
import math
from fractions import Fraction as F
from common import *  # noqa

KINDS = ["european", "lookback", "american_binary", "european_binary", "forward_start"]


def contract(kind, call, k, xs, start=0, stop=-1):
    """the property statement, one path, exact"""
    sT = xs[-1]
    if kind == "european":
        return max(sT - k, 0) if call else max(k - sT, 0)
    if kind == "lookback":
        return max(max(xs) - k, 0) if call else max(k - min(xs), 0)
    if kind == "american_binary":
        return F(1) if ((max(xs) >= k) if call else (min(xs) <= k)) else F(0)
    if kind == "european_binary":
        return F(1) if ((sT >= k) if call else (sT <= k)) else F(0)
    if kind == "forward_start":
        return max(xs[stop] / xs[start] - k, 0)
    raise ValueError(kind)


def gen_paths(g, N, T, bits, pow2=False):
    paths = []
    for _ in range(N):
        if pow2:
            p = [F(2) ** g.randint(-2, 2) for _ in range(T)]
        else:
            p = []
            for t in range(T):
                p.append(p[-1] if (p and g.chance(0.15)) else g.dy(F(1, 4), 4, bits))
        paths.append(p)
    return paths


def gen_case(g, tier, N=None):
    kind = g.choice(KINDS)
    dtype = g.weighted([("float64", 3), ("float32", 1)])
    N = g.small() if N is None else N
    T = g.small((1, 1, 2, 2, 3, 4, 5, 8, 16)) if not (tier == "thorough" and g.chance(0.03)) else 150
    bits = 3
    paths = gen_paths(g, N, T, bits, pow2=(kind == "forward_start"))
    # strike: tie with some path value often
    flat = [x for p in paths for x in p]
    r = g.r.random()
    if r < 0.35:
        k = g.choice([p[-1] for p in paths])          # tie with a terminal price
    elif r < 0.55:
        k = g.choice([max(p) for p in paths] + [min(p) for p in paths])   # tie with an extreme
    else:
        k = g.dy(F(1, 4), 4, bits)
    if kind == "forward_start":
        k = g.choice([F(1, 4), F(1, 2), F(1), F(2), F(3, 4)])
    call = g.chance(0.5)
    start, stop = 0, -1
    if kind == "forward_start":
        start = g.randint(-T, T - 1)
        stop = g.choice([-1, -1, -1, g.randint(-T, T - 1)])
        call = True
    return dict(kind=kind, call=call, strike=k, paths=paths, start=start, stop=stop, dtype=dtype)


def to_req(c):
    return {"op": "payoff", "kind": c["kind"], "call": c["call"], "strike": rat_str(c["strike"]),
            "paths": enc_rat(c["paths"]), "start": c["start"], "stop": c["stop"]}


def impl_functional(torch, c):
    import pfhedge.nn.functional as fnl
    dt = getattr(torch, c["dtype"])
    x = torch.tensor([[float(v) for v in p] for p in c["paths"]], dtype=dt)
    k = float(c["strike"])
    if c["kind"] == "forward_start":
        st, v, mut = call_impl(fnl.european_forward_start_payoff, x, strike=k, start_index=c["start"],
                               end_index=c["stop"])
    else:
        f = getattr(fnl, c["kind"] + "_payoff")
        st, v, mut = call_impl(f, x, call=c["call"], strike=k)
    if st == "ok":
        if tuple(v.shape) != (len(c["paths"]),) or v.dtype != dt:
            return ("badshape", [list(v.shape), str(v.dtype)]), mut
        return ("ok", tensor_to_fracs(v)), mut
    return ("err", v), mut


def mres(m):
    if "ok" in m:
        return ("ok", dec_rat(m["ok"]))
    if "err" in m:
        return ("err", m["err"])
    return ("bad", m)


CLAUSES = {
    "affine": lambda a, b: (lambda d, p: p * float(a) + float(b)),
    "cap": lambda c: (lambda d, p: p.clamp(max=float(c))),
    "floor": lambda c: (lambda d, p: p.clamp(min=float(c))),
    # reads the CURRENT price buffer of the underlier: zero where the path maximum reached the barrier
    "knock_out": lambda b: (lambda d, p: _where(d.ul().spot.max(-1).values < float(b), p)),
}


def _where(cond, p):
    import torch
    return torch.where(cond, p, torch.zeros_like(p))


# the callable a clause is handed over as: the property speaks of "any sequence of user clauses", i.e. any callable
# (derivative, payoff) -> payoff, and the SAME callable may be registered more than once (under several names)
CFORMS = ["lambda", "function", "instance", "method", "partial"]


class _ClauseObj:
    """a callable instance; `apply` is handed over as a bound method (a new, equal bound-method object at every access)"""

    def __init__(self, f):
        self.f = f

    def __call__(self, derivative, payoff):
        return self.f(derivative, payoff)

    def apply(self, derivative, payoff):
        return self.f(derivative, payoff)


def _call3(f, derivative, payoff):
    return f(derivative, payoff)


class ClausePool:
    """the clause callables of ONE derivative.  share=True: one descriptor = one callable object, however often and under
    however many names it is registered (two 50% haircuts, a fee before and after a cap); share=False: a new callable each time"""

    def __init__(self, cform, share):
        self.cform, self.share, self.pool = cform, share, {}

    def get(self, desc):
        key = tuple(desc)
        if not (self.share and key in self.pool):
            f = CLAUSES[desc[0]](*[F(x) for x in desc[1:]])
            if self.cform == "function":
                def clause(derivative, payoff, f=f):
                    return f(derivative, payoff)
                f = clause
            elif self.cform in ("instance", "method"):
                f = _ClauseObj(f)
            elif self.cform == "partial":
                import functools
                f = functools.partial(_call3, f)
            self.pool[key] = f
        f = self.pool[key]
        return f.apply if self.cform == "method" else f


def same_clause_twice(adds):
    """the registry holds one descriptor under two (or more) names"""
    order, table = [], {}
    for name, desc in adds:
        if name not in table:
            order.append(name)
        table[name] = tuple(desc)
    return len({table[n] for n in order}) < len(order)


def gen_deriv(g, tier):
    kind = g.choice(KINDS + ["variance_swap"])
    N, T = g.small(), g.small((2, 2, 3, 4, 5, 8))
    paths = gen_paths(g, N, T, 3, pow2=(kind == "forward_start"))
    k = g.choice([p[-1] for p in paths] + [max(p) for p in paths] + [g.dy(F(1, 4), 4, 3)])
    if kind == "forward_start":
        k = g.choice([F(1, 2), F(1), F(2)])
    call = g.chance(0.5) if kind != "forward_start" else True
    adds = []
    for _ in range(g.choice([0, 0, 1, 2, 3, 5])):
        name = g.choice(["a", "b", "c", "knock"])
        ck = g.choice(["affine", "cap", "floor"])
        if adds and g.chance(0.35):
            d = list(g.choice(adds)[1])          # a clause registered before, once more (mostly under another name)
        elif ck == "affine":
            d = ["affine", rat_str(g.choice([F(1, 2), F(2), F(-1), F(1)])), rat_str(g.choice([F(0), F(1, 2), F(-1, 4)]))]
        else:
            d = [ck, rat_str(g.dy(0, 2, 2))]
        adds.append([name, d])
    dtk = g.choice([F(1, 4), F(1, 8), F(1, 256), F(1, 2)])
    sidx = g.randint(0, T - 1)
    return dict(kind=kind, call=call, strike=k, paths=paths, adds=adds, dt=dtk, sidx=sidx,
                cform=g.choice(CFORMS), share=g.chance(0.8))


def build_deriv(torch, c, pool=None):
    import pfhedge.instruments as I
    pool = pool if pool is not None else ClausePool(c["cform"], c["share"])
    dt = torch.float64
    stock = I.BrownianStock(dt=float(c["dt"]), dtype=dt)
    stock.register_buffer("spot", torch.tensor([[float(v) for v in p] for p in c["paths"]], dtype=dt))
    T = len(c["paths"][0])
    mat = (T - 1) * float(c["dt"])
    k = float(c["strike"])
    kind = c["kind"]
    if kind == "european":
        d = I.EuropeanOption(stock, call=c["call"], strike=k, maturity=mat)
    elif kind == "lookback":
        d = I.LookbackOption(stock, call=c["call"], strike=k, maturity=mat)
    elif kind == "american_binary":
        d = I.AmericanBinaryOption(stock, call=c["call"], strike=k, maturity=mat)
    elif kind == "european_binary":
        d = I.EuropeanBinaryOption(stock, call=c["call"], strike=k, maturity=mat)
    elif kind == "forward_start":
        d = I.EuropeanForwardStartOption(stock, strike=k, maturity=mat, start=c["sidx"] * float(c["dt"]))
    else:
        d = I.VarianceSwap(stock, strike=k, maturity=mat)
    for name, desc in c["adds"]:
        d.add_clause(name, pool.get(desc))
    return d, stock


def apply_clauses_py(adds, p, path=None):
    """independent reading of the property: registration order, re-registration replaces in place"""
    order, table = [], {}
    for name, desc in adds:
        if name not in table:
            order.append(name)
        table[name] = desc
    for name in order:
        d = table[name]
        if d[0] == "affine":
            p = F(d[1]) * p + F(d[2])
        elif d[0] == "cap":
            p = min(p, F(d[1]))
        elif d[0] == "knock_out":
            p = p if max(path) < F(d[1]) else F(0)
        else:
            p = max(p, F(d[1]))
    return order, p


def apply_clauses_float(adds, x):
    """apply_clauses_py in doubles (affine / cap / floor)"""
    order, table = [], {}
    for name, desc in adds:
        if name not in table:
            order.append(name)
        table[name] = desc
    for name in order:
        d = table[name]
        if d[0] == "affine":
            x = x * float(F(d[1])) + float(F(d[2]))
        elif d[0] == "cap":
            x = min(x, float(F(d[1])))
        else:
            x = max(x, float(F(d[1])))
    return x


def check(ctx):
    torch, pfhedge = import_impl()
    g = ctx.gen
    ctx.lean_gate()
    n1 = 2500 if ctx.tier == "quick" else 40000
    n2 = 400 if ctx.tier == "quick" else 5000
    cases = [gen_case(g, ctx.tier) for _ in range(n1)]
    impl = []
    for c in cases:
        r, mut = impl_functional(torch, c)
        if mut:
            ctx.mutated("functional." + c["kind"] + "_payoff", mut, to_req(c))
        impl.append(r)
    try:
        model = [mres(m) for m in ctx.driver([to_req(c) for c in cases])]
    except DriverBroken as e:
        ctx.ties_broken.append({"kind": "driver", "detail": str(e)[:1500]})
        model = [("bad", None)] * len(cases)
    for c, ri, rm in zip(cases, impl, model):
        k = c["strike"]
        T = len(c["paths"][0])
        tie = any(p[-1] == k or max(p) == k or min(p) == k for p in c["paths"])
        ctx.stats[f"kind={c['kind']}"] += 1
        ctx.stats[f"call={c['call']}"] += 1
        ctx.stats[f"tie={tie}"] += 1
        ctx.stats[f"T={T if T < 10 else '10+'}"] += 1
        ctx.case(to_req(c) | {"dtype": c["dtype"]}, nontrivial=(T >= 2), tag=c["kind"])
        ctx.traces += 1
        if ri != rm:
            ctx.disagree("payoff", to_req(c), ri if ri[0] != "ok" else ("ok", enc_rat(ri[1])),
                         rm if rm[0] != "ok" else ("ok", enc_rat(rm[1])))
        # predicate
        oob = c["kind"] == "forward_start" and False
        if ri[0] == "ok":
            exp = [contract(c["kind"], c["call"], k, p, c["start"], c["stop"]) for p in c["paths"]]
            if ri[1] != exp:
                ctx.fail(f"{c['kind']}_payoff differs from its contractual definition", to_req(c),
                         key=f"functional.{c['kind']}_payoff:value",
                         detail={"impl": enc_rat(ri[1]), "contract": enc_rat(exp)})
        elif ri[0] == "err" and T >= 1:
            ctx.fail(f"{c['kind']}_payoff raised on a valid path", to_req(c),
                     key=f"functional.{c['kind']}_payoff:error", detail=ri)
    check_functional_nd(ctx, torch, g)
    # ------------- derivative level: payoff_fn wiring, clauses, start index, variance swap
    reqs, metas = [], []
    vs_reqs, vs_meta = [], []
    for _ in range(n2):
        c = gen_deriv(g, ctx.tier)
        try:
            d, stock = build_deriv(torch, c)
        except Exception as e:  # noqa
            raise InternalError("cannot build derivative: " + repr(e))
        with torch.no_grad():
            st, v, mut = call_impl(d.payoff, watch=[("derivative", d)])
        if mut:
            ctx.mutated("derivative.payoff", mut, _small(c))
        ctx.stats[f"d:kind={c['kind']}"] += 1
        ctx.stats[f"d:nclauses={len(c['adds'])}"] += 1
        ctx.stats[f"d:clause_callable={c['cform']}"] += 1
        ctx.stats[f"d:same-clause-twice={same_clause_twice(c['adds'])}"] += 1
        ctx.case(_small(c), nontrivial=True, tag="deriv_" + c["kind"])
        ctx.traces += 1
        if st != "ok":
            ctx.fail("derivative.payoff() raised on a simulated path", _small(c),
                     key=f"derivative.{c['kind']}.payoff:error", detail=v)
            continue
        if tuple(v.shape) != (len(c["paths"]),):
            ctx.fail("derivative.payoff() does not have one entry per path", _small(c),
                     key=f"derivative.{c['kind']}.payoff:shape", detail=list(v.shape))
            continue
        if c["kind"] == "variance_swap":
            # Float carrier; clauses applied in float by the harness (only the base is compared)
            base = d.payoff_fn()
            vs_reqs.append({"op": "var_swap", "dt": float_bits(float(c["dt"])), "strike": float_bits(float(c["strike"])),
                            "paths": enc_flt([[float(x) for x in p] for p in c["paths"]])})
            vs_meta.append((c, [float(x) for x in base.tolist()]))
            # predicate: annualised mean squared log return - strike (math, double)
            for p, got in zip(c["paths"], base.tolist()):
                lr = [math.log(float(p[i + 1])) - math.log(float(p[i])) for i in range(len(p) - 1)]
                exp = sum(x * x for x in lr) / len(lr) / float(c["dt"]) - float(c["strike"])
                if abs(got - exp) > 1e-9 * (1 + abs(exp)):
                    ctx.fail("variance swap payoff differs from annualised mean squared log-return minus strike",
                             _small(c), key="derivative.variance_swap.payoff:value", detail={"impl": got, "def": exp})
            # registered clauses on payoff_fn() in registration order: the clause arithmetic (one IEEE multiplication and addition,
            # min, max) is correctly rounded, so doing the same in Python doubles on the base payoff is exact
            expc = [apply_clauses_float(c["adds"], float(b)) for b in base.tolist()]
            gotc = [float(z) for z in v.tolist()]
            if gotc != expc:
                ctx.fail("variance swap: payoff() differs from the registered clauses applied to payoff_fn() in registration order",
                         _small(c), key="derivative.variance_swap.payoff:" + ("same-clause-twice" if same_clause_twice(c["adds"])
                                                                            else "clauses"),
                         detail={"impl": gotc, "clauses(payoff_fn)": expc, "payoff_fn": base.tolist()})
            continue
        got = tensor_to_fracs(v)
        start = c["sidx"] if c["kind"] == "forward_start" else 0
        base = [contract(c["kind"], c["call"], c["strike"], p, start, -1) for p in c["paths"]]
        order, _ = apply_clauses_py(c["adds"], F(0))
        exp = [apply_clauses_py(c["adds"], b)[1] for b in base]
        if got != exp:
            if c["kind"] == "forward_start" and d._start_index() != c["sidx"]:
                ctx.fail("forward-start option starts at the wrong time index: floor(start/dt) in doubles lands one index early",
                         _small(c) | {"start_index": d._start_index()}, key="cliquet._start_index:floor(start/dt)",
                         detail={"impl": enc_rat(got), "contract": enc_rat(exp)})
            elif same_clause_twice(c["adds"]):
                ctx.fail("derivative.payoff() differs from clauses(contract payoff) in registration order: one clause is registered "
                         "under several names (" + ("the same callable object" if c["share"] else "equal callables") + ") and applies "
                         "once per registration", _small(c), key=f"derivative.{c['kind']}.payoff:same-clause-twice",
                         detail={"impl": enc_rat(got), "contract": enc_rat(exp)})
            else:
                ctx.fail("derivative.payoff() differs from clauses(contract payoff) in registration order",
                         _small(c), key=f"derivative.{c['kind']}.payoff:value",
                         detail={"impl": enc_rat(got), "contract": enc_rat(exp)})
        # model: base payoff through `payoff`, clauses through `clauses`
        reqs.append({"op": "payoff", "kind": c["kind"], "call": c["call"], "strike": rat_str(c["strike"]),
                     "paths": enc_rat(c["paths"]), "start": d._start_index() if c["kind"] == "forward_start" else 0,
                     "stop": -1})
        metas.append(("base", c, tensor_to_fracs(d.payoff_fn()), None))
        reqs.append({"op": "clauses", "adds": c["adds"], "base": enc_rat(tensor_to_fracs(d.payoff_fn()))})
        metas.append(("clauses", c, got, [n for n, _ in d.named_clauses()]))
    try:
        outs = ctx.driver(reqs)
        vouts = ctx.driver(vs_reqs)
    except DriverBroken as e:
        ctx.ties_broken.append({"kind": "driver", "detail": str(e)[:1500]})
        outs, vouts = [], []
    for (what, c, got, names), m in zip(metas, outs):
        if what == "base":
            if mres(m) != ("ok", got):
                ctx.disagree("deriv_payoff_fn", _small(c), enc_rat(got), m)
        else:
            if m.get("names") != names or dec_rat(m.get("payoff", [])) != got:
                ctx.disagree("clauses", _small(c), {"names": names, "payoff": enc_rat(got)}, m)
    for (c, got), m in zip(vs_meta, vouts):
        mv = dec_flt(m["payoff"])
        for a, b in zip(got, mv):
            if not (abs(a - b) <= 1e-10 * (1 + abs(a))):
                ctx.disagree("var_swap", _small(c), got, mv)
                break
    # ------------- start index sweep (Float replica is bit-exact; predicate in exact rationals)
    greqs, gmeta = [], []
    import pfhedge.instruments as I
    dens = [250, 365, 12, 10, 252, 100, 52, 4, 8]
    for _ in range(300 if ctx.tier == "quick" else 4000):
        den = g.choice(dens)
        dt = 1 / den if g.chance(0.7) else g.choice([0.1, 0.01, 0.05, 0.2])
        kk = g.randint(0, 60)
        form = g.choice(["k/den", "k*dt", "noninteger"])
        if form == "k/den":
            start = kk / den if isinstance(dt, float) and dt == 1 / den else kk * dt
        elif form == "k*dt":
            start = kk * dt
        else:
            start = (kk + g.choice([0.25, 0.5, 0.9])) * dt
        stock = I.BrownianStock(dt=dt)
        o = I.EuropeanForwardStartOption(stock, start=start, maturity=start + 10 * dt)
        got = o._start_index()
        greqs.append({"op": "grid", "m": float_bits(start), "dt": float_bits(dt), "start": float_bits(start)})
        gmeta.append((start, dt, got, form, kk))
    try:
        gouts = ctx.driver(greqs)
    except DriverBroken as e:
        ctx.ties_broken.append({"kind": "driver", "detail": str(e)[:1500]})
        gouts = []
    for (start, dt, got, form, kk), m in zip(gmeta, gouts):
        case = {"start": start, "dt": dt, "form": form, "k": kk}
        ctx.case(case, nontrivial=True, tag="start_index")
        ctx.traces += 1
        if m["start_shipped"] != got:
            ctx.disagree("start_index", case, got, m["start_shipped"])
        ratio = F(start) / F(dt)
        near = round(ratio)
        if abs(ratio - near) <= F(1, 10 ** 9) * max(1, abs(near)):
            want = near          # within rounding distance of an integer k: index k
        else:
            want = math.floor(ratio)
        ctx.stats[f"start:form={form}"] += 1
        if got != want:
            ctx.fail("forward-start option starts at the wrong time index: floor(start/dt) in doubles lands one index early",
                     case | {"start_index": got, "expected": want}, key="cliquet._start_index:floor(start/dt)",
                     detail={"ratio": float(ratio)})
    # ---------------- strikes and prices that are NOT representable in single precision, on float64 paths: IEEE subtraction is
    # correctly rounded, so the payoff must be the double nearest to the exact contract value of the doubles involved
    import pfhedge.nn.functional as fnl2
    import pfhedge.instruments as I2
    for it in range(60 if ctx.tier == "quick" else 900):
        kind = g.choice(["european", "lookback", "american_binary", "european_binary"])
        call = g.chance(0.5)
        K = g.choice([0.9, 1.1, 1.03, 1 / 3, 0.7, 1.0000001])
        N, T = g.choice([1, 3, 6]), g.choice([1, 2, 5])
        x = torch.tensor([[g.r.uniform(0.5, 1.6) for _ in range(T)] for _ in range(N)], dtype=torch.float64)
        if g.chance(0.3):
            x[0, -1] = K          # tie with the strike (as a double)
        via = g.choice(["functional", "derivative"])
        case = {"kind": kind, "call": call, "strike": K, "dtype": "float64", "via": via, "paths": [[float(v) for v in r] for r in x.tolist()]}
        ctx.case(case, True, tag="nondyadic-strike")
        ctx.traces += 1
        if via == "functional":
            st, v, _ = call_impl(getattr(fnl2, kind + "_payoff"), x, call=call, strike=K)
        else:
            stock = I2.BrownianStock(dtype=torch.float64)
            stock.register_buffer("spot", x.clone())
            cls = {"european": I2.EuropeanOption, "lookback": I2.LookbackOption, "american_binary": I2.AmericanBinaryOption,
                   "european_binary": I2.EuropeanBinaryOption}[kind]
            st, v, _ = call_impl(cls(stock, call=call, strike=K, maturity=max(T - 1, 1) * stock.dt).payoff)
        if st != "ok":
            ctx.fail("payoff raised on a float64 path with a non-dyadic strike", case, key=f"{via}.{kind}.payoff:error", detail=v)
            continue
        exp = [float(contract(kind, call, F(K), [F(float(z)) for z in r])) for r in x.tolist()]
        got = [float(z) for z in v.tolist()]
        if v.dtype != torch.float64 or got != exp:
            ctx.fail("payoff on a float64 path is not the (correctly rounded) contract value at the given strike: strike or prices rounded through "
                     "a lower precision?", case, key=f"{via}.{kind}.payoff:double-precision", detail={"impl": got, "contract": exp})
    check_reuse(ctx, torch, g)
    check_offgrid_maturity(ctx, torch, g)
    return ctx.finish(
        rule="functional payoffs on dyadic paths (ties with the strike/extremes frequent, T=1,2,.., float32/64), derivative objects "
             "with injected buffers and random clause sequences (re-registration included; the same clause = the same callable object "
             "registered under several names; callables of five kinds; variance swap with clauses), functionals on 1-D / 3-D / 4-D price "
             "tensors incl. square shapes and non-contiguous layouts (one entry per path, each the contract value; realized variance / "
             "volatility likewise), forward-start index sweeps over dt/start; "
             "ONE derivative object re-used over a sequence of contract-term changes (strike, call flag, start), in-place price edits, "
             "buffer re-registrations / simulate() and clause registrations (incl. a knock-out clause reading the current buffer, refused names, "
             "cell indices outside the buffer) with payoff() after most steps, each such session also run through the Lean session model "
             "(op session: every payoff() answer / raised error / final object state compared exactly); forward-start options on SIMULATED paths "
             "whose maturity is / is not a whole number of steps (terminal price = last simulated column, start=0 vs EuropeanOption); "
             "non-trivial = T>=2 (functional), any derivative/start-index/re-use/off-grid case; distinct = sha1 of canonical case")


# ---------------------------------------------------------------------------------------------------------------------------
# the functionals are documented for price tensors of shape (*, T) -> (*): a single path (T,), scenarios x paths x time, ... ;
# the last axis is time, every other axis enumerates paths: one entry per path, each the contract value of that path

ND_BATCHES = [(), (), (1,), (1, 1), (2, 2), (3, 3), (2, 3), (3, 2), (1, 4), (4, 1), (2, 2, 2), (3, 3, 3), (2, 1, 3), (1, 2, 1, 2)]


def check_functional_nd(ctx, torch, g):
    import pfhedge.nn.functional as fnl
    cases, impl, reqs = [], [], []
    for _ in range(350 if ctx.tier == "quick" else 5000):
        batch = g.choice(ND_BATCHES)
        if g.chance(0.3) and batch:
            batch = batch[:-1] + (g.choice([1, 2, 3, 5]),)
        N = 1
        for b in batch:
            N *= b
        c = gen_case(g, "quick", N=N)
        T = len(c["paths"][0])
        if g.chance(0.35) and batch:
            # the time axis as long as a path axis: reading the wrong axis gives a tensor of the right size with other values
            T = g.choice(batch)
            c["paths"] = gen_paths(g, N, T, 3, pow2=(c["kind"] == "forward_start"))
            if c["kind"] == "forward_start":
                c["start"], c["stop"] = g.randint(-T, T - 1), g.choice([-1, -1, g.randint(-T, T - 1)])
            else:
                c["strike"] = g.choice([p[-1] for p in c["paths"]] + [max(p) for p in c["paths"]] + [g.dy(F(1, 4), 4, 3)])
        layout = g.choice(["contiguous", "contiguous", "permuted", "strided"]) if len(batch) >= 2 else "contiguous"
        c["batch"], c["layout"] = list(batch), layout
        dt = getattr(torch, c["dtype"])
        x = torch.tensor([[float(v) for v in p] for p in c["paths"]], dtype=dt).reshape(tuple(batch) + (T,))
        if layout == "permuted":
            # the same values, the memory laid out with the time axis first (a non-contiguous view)
            nd = x.dim()
            x = x.permute(nd - 1, *range(nd - 1)).contiguous().permute(*range(1, nd), 0)
        elif layout == "strided":
            # every second column of a tensor twice as long (a non-contiguous time axis)
            wide = torch.zeros(tuple(batch) + (2 * T,), dtype=dt)
            wide[..., ::2] = x
            x = wide[..., ::2]
        k = float(c["strike"])
        if c["kind"] == "forward_start":
            st, v, mut = call_impl(fnl.european_forward_start_payoff, x, strike=k, start_index=c["start"], end_index=c["stop"])
        else:
            st, v, mut = call_impl(getattr(fnl, c["kind"] + "_payoff"), x, call=c["call"], strike=k)
        req = to_req(c)
        case = req | {"dtype": c["dtype"], "batch": list(batch), "layout": layout}
        if mut:
            ctx.mutated("functional." + c["kind"] + "_payoff", mut, case)
        ctx.case(case, nontrivial=True, tag="nd_" + c["kind"])
        ctx.stats[f"nd:dims={len(batch) + 1}"] += 1
        ctx.stats[f"nd:layout={layout}"] += 1
        ctx.traces += 1
        cases.append((c, case))
        reqs.append(req)
        if st != "ok":
            impl.append(("err", v))
            ctx.fail(f"{c['kind']}_payoff raised on a price tensor of shape {list(batch) + [T]} (documented: (*, T) -> (*))", case,
                     key=f"functional.{c['kind']}_payoff:nd-error", detail=v)
            continue
        if tuple(v.shape) != tuple(batch) or v.dtype != dt:
            impl.append(("badshape", [list(v.shape), str(v.dtype)]))
            ctx.fail(f"{c['kind']}_payoff on a price tensor of shape {list(batch) + [T]} does not have one entry per path "
                     f"(shape {list(batch)})", case, key=f"functional.{c['kind']}_payoff:nd-shape",
                     detail=[list(v.shape), str(v.dtype)])
            continue
        got = tensor_to_fracs(v.reshape(-1))
        impl.append(("ok", got))
        exp = [contract(c["kind"], c["call"], c["strike"], p, c["start"], c["stop"]) for p in c["paths"]]
        if got != exp:
            ctx.fail(f"{c['kind']}_payoff on a price tensor of shape {list(batch) + [T]}: an entry is not the contract value of its path",
                     case, key=f"functional.{c['kind']}_payoff:nd-value", detail={"impl": enc_rat(got), "contract": enc_rat(exp)})
    try:
        model = [mres(m) for m in ctx.driver(reqs)]
    except DriverBroken as e:
        ctx.ties_broken.append({"kind": "driver", "detail": str(e)[:1500]})
        model = []
    for (c, case), ri, rm in zip(cases, impl, model):
        if ri != rm:
            ctx.disagree("payoff_nd", case, ri if ri[0] != "ok" else ("ok", enc_rat(ri[1])),
                         rm if rm[0] != "ok" else ("ok", enc_rat(rm[1])))
    # realized variance / volatility (the variance swap's floating leg), same shapes: Float carrier, tolerance as for op var_swap
    vreqs, vmeta = [], []
    for _ in range(60 if ctx.tier == "quick" else 800):
        batch = g.choice(ND_BATCHES)
        N = 1
        for b in batch:
            N *= b
        T = g.choice([2, 2, 3, 5] + [b for b in batch if b >= 2])
        paths = gen_paths(g, N, T, 3)
        dtv = float(g.choice([F(1, 4), F(1, 8), F(1, 256), F(1, 2)]))
        x = torch.tensor([[float(v) for v in p] for p in paths], dtype=torch.float64).reshape(tuple(batch) + (T,))
        case = {"realized": True, "batch": list(batch), "dt": dtv, "paths": enc_rat(paths)}
        ctx.case(case, True, tag="nd_realized_variance")
        ctx.traces += 1
        res = {}
        for name in ("realized_variance", "realized_volatility"):
            st, v, mut = call_impl(getattr(fnl, name), x, dt=dtv)
            if st != "ok" or tuple(v.shape) != tuple(batch):
                ctx.fail(f"{name} raised / does not have one entry per path on a price tensor of shape {list(batch) + [T]}", case,
                         key=f"functional.{name}:nd-shape", detail=v if st != "ok" else list(v.shape))
                continue
            res[name] = [float(z) for z in v.reshape(-1).tolist()]
            for p, got in zip(paths, res[name]):
                lr = [math.log(float(p[i + 1])) - math.log(float(p[i])) for i in range(len(p) - 1)]
                exp = sum(z * z for z in lr) / len(lr) / dtv
                exp = exp if name == "realized_variance" else math.sqrt(exp)
                if abs(got - exp) > 1e-9 * (1 + abs(exp)):
                    ctx.fail(f"{name} on a price tensor of shape {list(batch) + [T]} is not the annualised mean squared log-return "
                             "of its path", case, key=f"functional.{name}:nd-value", detail={"impl": got, "def": exp})
                    break
        if len(res) == 2:
            vreqs.append({"op": "var_swap", "dt": float_bits(dtv), "strike": float_bits(0.0),
                          "paths": enc_flt([[float(z) for z in p] for p in paths])})
            vmeta.append((case, res))
    try:
        vouts = ctx.driver(vreqs)
    except DriverBroken as e:
        ctx.ties_broken.append({"kind": "driver", "detail": str(e)[:1500]})
        vouts = []
    for (case, res), m in zip(vmeta, vouts):
        for name, field in (("realized_variance", "payoff"), ("realized_volatility", "rvol")):
            mv = dec_flt(m[field])
            if len(mv) != len(res[name]) or not all(abs(a - b) <= 1e-10 * (1 + abs(a)) for a, b in zip(res[name], mv)):
                ctx.disagree("var_swap_nd:" + name, case, res[name], mv)


# ---------------------------------------------------------------------------------------------------------------------------
# ONE derivative object, a sequence of changes, payoff() after every change: the contract is the one at the CURRENT terms on
# the CURRENT prices (nothing of an earlier evaluation may survive)

BAD_NAMES = ["strike", "payoff", "maturity", "a.b", ""]          # add_clause refuses these (KeyError): attribute / "." / empty
ATTR_CANDIDATES = ["strike", "payoff", "maturity", "a", "b", "c", "z", "knock", "call", "start", "underlier", "cost", "pricer"]


def gen_reuse_ops(g, c):
    """a history of operations on ONE object.  Kinds: strike / call (toggle, same, true, false) / start / spot (in-place cell edits,
    Python indices incl. negative ones) / badcell (index outside the buffer: IndexError, nothing changes) / reregister (a new buffer
    object, possibly of another shape) / simulate (the library replaces the buffer; the prices are then overwritten in place) /
    clause (affine, cap, floor, knock_out on the current path maximum) / badclause (refused name: KeyError, nothing changes) /
    again (payoff() once more); ["quiet", op] = the operation is NOT followed by a payoff() call"""
    kind = c["kind"]
    paths = [list(p) for p in c["paths"]]
    T0 = len(paths[0])
    pow2 = kind == "forward_start"
    vs = kind == "variance_swap"
    ops = []
    descs = [list(d) for _, d in c["adds"]]          # clauses registered so far (whatever the name)
    for _ in range(g.choice([1, 2, 3, 4, 6, 10])):
        N, T = len(paths), len(paths[0])
        menu = [("strike", 4), ("again", 1), ("reregister", 1), ("simulate", 1), ("badcell", 1)]
        if T > 0:
            menu.append(("spot", 3))
        if kind not in ("forward_start", "variance_swap"):
            menu.append(("call", 3))
        if kind == "forward_start":
            menu.append(("start", 3))
        if not vs:
            menu.append(("clause", 2))
            menu.append(("badclause", 1))
        op = g.weighted(menu)
        if op == "strike":
            if pow2:
                o = ["strike", rat_str(g.choice([F(1, 4), F(1, 2), F(1), F(2), F(3, 4)]))]
            else:
                o = ["strike", rat_str(g.choice([p[-1] for p in paths if p] + [g.dy(F(1, 4), 4, 3)] * 2))]
        elif op == "call":
            o = ["call", g.weighted([("toggle", 6), ("same", 2), ("true", 1), ("false", 1)])]
        elif op == "start":
            if T > 0 and g.chance(0.8):
                o = ["start", g.randint(0, T - 1)]
            else:
                o = ["start", g.choice([-1, -T, T, T + 1, -T - 1])]       # Python index from the end / outside the buffer
        elif op == "spot":
            cells = []
            for _ in range(g.choice([1, 1, 2, N * T])):
                v = F(2) ** g.randint(-2, 2) if pow2 else g.dy(F(1, 4), 4, 3)
                i, j = g.randint(-N, N - 1), g.choice([T - 1, -1, g.randint(-T, T - 1)])
                paths[i][j] = v
                cells.append([i, j, rat_str(v)])
            o = ["spot", cells]
        elif op == "badcell":
            i, j = g.choice([(N, 0), (-N - 1, 0), (0, T), (0, -T - 1), (N + 2, T + 2)])
            o = ["badcell", [[i, j, rat_str(F(3, 2))]]]
        elif op in ("reregister", "simulate"):
            if op == "simulate":
                N2, T2 = (N if g.chance(0.5) else g.small()), T0          # maturity fixes the number of columns
            else:
                N2 = N if g.chance(0.6) else g.small()
                T2 = T if (T > 0 and g.chance(0.6)) else g.choice([2, 3, 5] if vs else [1, 2, 3, 5])
                if not vs and g.chance(0.04):
                    T2 = 0                                                # an empty time axis: payoff() must raise
            paths = gen_paths(g, N2, T2, 3, pow2=pow2)
            o = [op, enc_rat(paths)]
        elif op in ("clause", "badclause"):
            ck = g.choice(["affine", "cap", "floor", "knock_out"])
            if descs and g.chance(0.35):
                d = list(g.choice(descs))                # the SAME clause once more: under a new name, or replacing another one
            elif ck == "affine":
                d = ["affine", rat_str(g.choice([F(1, 2), F(2), F(-1)])), rat_str(g.choice([F(0), F(1, 2), F(-1, 4)]))]
            elif ck == "knock_out":
                d = ["knock_out", rat_str(g.choice([max(p) for p in paths if p] + [g.dy(F(1, 4), 4, 3), F(2), F(4)]))]
            else:
                d = [ck, rat_str(g.dy(0, 2, 2))]
            o = [op, g.choice(["a", "b", "z"]) if op == "clause" else g.choice(BAD_NAMES), d]
            if op == "clause":
                descs.append(list(d))
        else:
            o = ["again"]
        ops.append(["quiet", o] if (o[0] != "again" and g.chance(0.2)) else o)
    return ops


def reuse_expected(cur):
    """the property statement at the current terms / prices: exact Fractions, floats (tolerance) for the variance swap.
    IndexError = no contract value (start index / terminal price outside the buffer)"""
    if cur["kind"] == "variance_swap":
        out = []
        for p in cur["paths"]:
            lr = [math.log(float(p[i + 1])) - math.log(float(p[i])) for i in range(len(p) - 1)]
            out.append(sum(x * x for x in lr) / len(lr) / float(cur["dt"]) - float(cur["strike"]))
        return out
    start = cur["sidx"] if cur["kind"] == "forward_start" else 0
    base = [contract(cur["kind"], cur["call"], cur["strike"], p, start, -1) for p in cur["paths"]]
    return [apply_clauses_py(cur["adds"], b, path=p)[1] for b, p in zip(base, cur["paths"])]


def check_reuse(ctx, torch, g):
    sreqs, smeta = [], []
    for _ in range(160 if ctx.tier == "quick" else 2500):
        c = gen_deriv(g, ctx.tier)
        if c["kind"] == "variance_swap":
            c["adds"] = []
        ops = gen_reuse_ops(g, c)
        case = _small(c) | {"ops": ops}
        ctx.case(case, nontrivial=True, tag="reuse_" + c["kind"])
        ctx.traces += 1
        ctx.stats[f"reuse:nops={len(ops)}"] += 1
        pool = ClausePool(c["cform"], c["share"])       # one pool for the whole session: a repeated clause is the same callable
        try:
            d, stock = build_deriv(torch, c, pool)
        except Exception as e:  # noqa
            raise InternalError("cannot build derivative: " + repr(e))
        cur = dict(kind=c["kind"], call=c["call"], strike=c["strike"], paths=[list(p) for p in c["paths"]],
                   adds=[list(a) for a in c["adds"]], sidx=c["sidx"], dt=c["dt"])
        # ---- the same session for the Lean model (Model/Session.lean, driver op "session"): `mops` = model operations in the
        # order they were carried out on the real object, `iouts` = what the real object showed for each of them
        flt = c["kind"] == "variance_swap"
        enc = (lambda q: float_bits(float(F(q)))) if flt else (lambda q: rat_str(F(q)))
        encd = lambda desc: [desc[0]] + [enc(x) for x in desc[1:]]      # noqa
        sreq = {"op": "session", "carrier": "float" if flt else "rat", "kind": c["kind"], "strike": enc(c["strike"]),
                "call": c["call"], "start": c["sidx"], "dt": enc(c["dt"]), "spot": [[enc(v) for v in p] for p in c["paths"]],
                "attrs": [n for n in ATTR_CANDIDATES if hasattr(d, n)]}
        mops = [["clause", n, encd(desc)] for n, desc in c["adds"]]        # build_deriv registered them (valid names)
        iouts = [None] * len(mops)
        for step, op in enumerate([["initial"]] + ops):
            quiet = op[0] == "quiet"
            if quiet:
                op = op[1]
            what = op[0]
            with torch.no_grad():
                if what == "strike":
                    cur["strike"] = F(op[1])
                    d.strike = float(cur["strike"])
                    mops.append(["strike", enc(op[1])]); iouts.append(None)
                elif what == "call":
                    if op[1] == "toggle":
                        cur["call"] = not cur["call"]
                        d.call = not d.call                      # the object's own flag is read and written back
                        mops.append(["toggle"])
                    else:
                        cur["call"] = {"same": cur["call"], "true": True, "false": False}[op[1]]
                        d.call = cur["call"]
                        mops.append(["call", cur["call"]])
                    iouts.append(None)
                elif what == "start":
                    cur["sidx"] = op[1]
                    d.start = op[1] * float(c["dt"])
                    mops.append(["start", op[1]]); iouts.append(None)
                elif what in ("spot", "badcell"):
                    for i, j, v in op[1]:
                        try:
                            cur["paths"][i][j] = F(v)           # Python list indexing: the oracle's own reading
                        except IndexError:
                            pass
                        try:
                            stock.spot[i, j] = float(F(v))      # in place: the buffer object stays the same
                            iouts.append(None)
                        except Exception as e:  # noqa
                            iouts.append(("err", canon_error(e)))
                        mops.append(["cell", i, j, enc(v)])
                elif what in ("reregister", "simulate"):
                    cur["paths"] = [[F(v) for v in p] for p in op[1]]
                    new = torch.tensor([[float(v) for v in p] for p in cur["paths"]], dtype=torch.float64).reshape(
                        len(cur["paths"]), len(cur["paths"][0]))
                    if what == "simulate":
                        d.simulate(n_paths=len(cur["paths"]))   # the library replaces the buffer ...
                        if tuple(stock.spot.shape) == tuple(new.shape):
                            stock.spot.copy_(new)               # ... and the prices are overwritten in place
                        else:
                            stock.register_buffer("spot", new)
                    else:
                        stock.register_buffer("spot", new)
                    mops.append(["reregister", [[enc(v) for v in p] for p in cur["paths"]]]); iouts.append(None)
                elif what in ("clause", "badclause"):
                    if op[1] != "" and "." not in op[1] and op[1] not in ("strike", "payoff", "maturity"):
                        cur["adds"].append([op[1], op[2]])
                    try:
                        d.add_clause(op[1], pool.get(op[2]))
                        iouts.append(None)
                    except Exception as e:  # noqa
                        iouts.append(("err", canon_error(e)))
                    mops.append(["clause", op[1], encd(op[2])])
                ctx.stats[f"reuse:op={what}"] += 1
                if quiet:
                    ctx.stats["reuse:quiet"] += 1
                    continue
                st, v, mut = call_impl(d.payoff, watch=[("derivative", d)])
            mops.append(["query"])
            if st != "ok":
                iouts.append(("err", v))
            elif flt:
                iouts.append(("ok", [float(z) for z in v.reshape(-1).tolist()]))
            else:
                iouts.append(("ok", tensor_to_fracs(v.reshape(-1))))
            if mut:
                ctx.mutated("derivative.payoff", mut, case)
            here = case | {"step": step, "after": op, "strike_now": rat_str(cur["strike"]), "call_now": cur["call"],
                           "sidx_now": cur["sidx"], "paths_now": enc_rat(cur["paths"])}
            try:
                exp = reuse_expected(cur)
            except IndexError:
                # the contract has no value here (start index / terminal price outside the buffer): nothing for the predicate;
                # what the object does then (raise) is compared with the model through the session below
                ctx.stats["reuse:no-contract-value"] += 1
                continue
            if st != "ok" or tuple(v.shape) != (len(cur["paths"]),):
                ctx.fail("payoff() on a re-used derivative object raised / has the wrong shape", here,
                         key=f"derivative.{c['kind']}.payoff:reuse-error", detail=v if st != "ok" else list(v.shape))
                break
            if c["kind"] == "variance_swap":
                got = [float(z) for z in v.tolist()]
                ok = all(abs(a - b) <= 1e-9 * (1 + abs(b)) for a, b in zip(got, exp))
                det = {"impl": got, "contract": exp}
            else:
                got = tensor_to_fracs(v)
                ok = got == exp
                det = {"impl": enc_rat(got), "contract": enc_rat(exp)}
                if not ok and c["kind"] == "forward_start" and d._start_index() != cur["sidx"]:
                    ctx.fail("forward-start option starts at the wrong time index: floor(start/dt) in doubles lands one index early",
                             here | {"start_index": d._start_index()}, key="cliquet._start_index:floor(start/dt)", detail=det)
                    break
            if not ok and same_clause_twice(cur["adds"]):
                ctx.fail("payoff() of a re-used derivative object is not the contract payoff at its CURRENT terms on the CURRENT prices: "
                         "one clause is registered under several names and applies once per registration, in registration order", here,
                         key="derivative.payoff:reuse-same-clause-twice", detail=det)
                break
            if not ok:
                ctx.fail("payoff() of a re-used derivative object is not the contract payoff at its CURRENT terms on the CURRENT prices "
                         f"(after: {what}; something of an earlier evaluation survived?)", here,
                         key=f"derivative.payoff:reuse-after-{what}", detail=det)
                break
        # the object as it is now (whatever was carried out), for the comparison with the model's final state
        fin = {"strike": F(d.strike), "names": [n for n, _ in d.named_clauses()],
               "spot": [[F(z) for z in r] for r in stock.spot.tolist()]}
        if hasattr(d, "call"):
            fin["call"] = bool(d.call)
        if c["kind"] == "forward_start":
            fin["start"] = d._start_index()
        sreqs.append(sreq | {"ops": mops})
        smeta.append((case, iouts, fin, flt))
    # ---------------- every payoff() answer (and every refused operation) of the real object against the model's session
    try:
        souts = ctx.driver(sreqs)
    except DriverBroken as e:
        ctx.ties_broken.append({"kind": "driver", "detail": str(e)[:1500]})
        souts = []
    for (case, iouts, fin, flt), req, m in zip(smeta, sreqs, souts):
        mops = req["ops"]
        ctx.stats[f"session:carrier={req['carrier']}"] += 1
        for o in mops:
            ctx.stats[f"session:op={o[0]}"] += 1
        mo = m.get("outs")
        if mo is None or len(mo) != len(iouts):
            ctx.disagree("session", case | {"model_ops": mops}, _sess_show(iouts, flt), m, note="no / wrong number of outputs")
            continue
        for k, (a, b) in enumerate(zip(iouts, mo)):
            ctx.stats["session:out=" + ("none" if a is None else a[0])] += 1
            if not _sess_same(a, b, flt):
                ctx.disagree("session", case | {"model_ops": mops, "at": k, "model_op": mops[k]}, _sess_show([a], flt)[0],
                             {"ok": dec_flt(b["ok"])} if (flt and isinstance(b, dict) and "ok" in b) else b,
                             note=f"output {k} of the session differs")
                break
        else:
            mf = m["final"]
            dec = (lambda x: F(float_of_bits(x))) if flt else F
            got = {"strike": dec(mf["strike"]), "names": mf["names"], "spot": [[dec(z) for z in r] for r in mf["spot"]]}
            if "call" in fin:
                got["call"] = mf["call"]
            if "start" in fin:
                got["start"] = mf["start"]
            if got != fin:
                ctx.disagree("session", case | {"model_ops": mops}, {k: str(v) for k, v in fin.items()},
                             {k: str(v) for k, v in got.items()}, note="final state of the object differs")


def _sess_same(a, b, flt):
    """one output of the real object (None | ("ok", values) | ("err", kind)) against the model's (null | {"ok":..} | {"err":..})"""
    if a is None or b is None:
        return a is None and b is None
    if a[0] == "err":
        return b.get("err") == a[1]
    if "ok" not in b or len(b["ok"]) != len(a[1]):
        return False
    if flt:       # log in the payoff: libm vs torch kernels, compared with a tolerance like the op "var_swap"
        return all(abs(x - y) <= 1e-10 * (1 + abs(x)) for x, y in zip(a[1], dec_flt(b["ok"])))
    return a[1] == dec_rat(b["ok"])


def _sess_show(outs, flt):
    return [o if (o is None or o[0] == "err") else ("ok", o[1] if flt else enc_rat(o[1])) for o in outs]


# ---------------------------------------------------------------------------------------------------------------------------
# forward-start options on SIMULATED paths; the maturity need not be a whole number of steps: the terminal price is the LAST
# simulated price (IEEE division / subtraction are correctly rounded: float64 payoffs are compared exactly with Python doubles)

def check_offgrid_maturity(ctx, torch, g):
    import pfhedge.instruments as I
    for _ in range(120 if ctx.tier == "quick" else 2000):
        dtv = g.choice([1 / 250, 1 / 250, 0.01, 1 / 52, 1 / 365, 1 / 12, 0.1, 1 / 8])
        whole = g.randint(1, 12)
        frac = g.choice([0, 0.5, 0.5, 0.25, 0.75, 0.1, 0.9])
        mat = (whole + frac) * dtv
        sidx = g.randint(0, whole)
        K = g.choice([1.0, 1.0, 0.99, 1.01, 0.5, 0.9])
        N = g.choice([1, 3, 8])
        seed = g.randint(0, 10 ** 6)
        init = g.choice([None, None, None, 1.25, 0.75])
        sigma = g.choice([0.2, 0.3, 1.0])
        case = {"dt": dtv, "maturity": mat, "steps": whole + frac, "start_step": sidx, "strike": K, "n_paths": N, "seed": seed,
                "init": init, "sigma": sigma}
        ctx.case(case, nontrivial=True, tag="offgrid_maturity" if frac else "ongrid_maturity")
        ctx.traces += 1
        ctx.stats[f"offgrid:frac={frac}"] += 1
        stock = I.BrownianStock(sigma=sigma, dt=dtv, dtype=torch.float64)
        d = I.EuropeanForwardStartOption(stock, strike=K, maturity=mat, start=sidx * dtv)
        torch.manual_seed(seed)
        d.simulate(n_paths=N, init_state=None if init is None else (init,))
        xs = [[float(z) for z in r] for r in stock.spot.tolist()]
        with torch.no_grad():
            st, v, mut = call_impl(d.payoff, watch=[("derivative", d)])
        if mut:
            ctx.mutated("derivative.payoff", mut, case)
        case = case | {"n_columns": len(xs[0])}
        if st != "ok" or tuple(v.shape) != (N,) or v.dtype != torch.float64:
            ctx.fail("forward-start payoff() raised / wrong shape on a simulated path", case,
                     key="derivative.forward_start.payoff:simulated-error", detail=v if st != "ok" else [list(v.shape), str(v.dtype)])
            continue
        if len(xs[0]) <= sidx:
            continue            # the simulated grid is the subject of another property; nothing to evaluate here
        got = [float(z) for z in v.tolist()]
        exp = [max(r[-1] / r[sidx] - K, 0.0) for r in xs]
        if got != exp:
            if d._start_index() != sidx:
                ctx.fail("forward-start option starts at the wrong time index: floor(start/dt) in doubles lands one index early",
                         case | {"start_index": d._start_index()}, key="cliquet._start_index:floor(start/dt)",
                         detail={"impl": got, "contract": exp})
            else:
                ctx.fail("forward-start payoff on a simulated path is not max(S_T/S_start - K, 0) with S_T the TERMINAL (last simulated) "
                         "price" + (" - maturity between two grid points" if frac else ""), case,
                         key="derivative.forward_start.payoff:terminal-price" + ("-offgrid" if frac else ""),
                         detail={"impl": got, "contract": exp, "paths": xs})
            continue
        if sidx == 0 and init is None:
            # S_0 = 1 exactly: S_T / S_0 - K = S_T - K, the European call on the same path
            eu = [float(z) for z in I.EuropeanOption(stock, call=True, strike=K, maturity=mat).payoff().tolist()]
            if eu != got:
                ctx.fail("forward-start option with start=0 (S_0 = 1) differs from the European call on the same simulated path", case,
                         key="derivative.forward_start.payoff:start0-vs-european", detail={"forward_start": got, "european": eu})


def _small(c):
    return {"kind": c["kind"], "call": c["call"], "strike": rat_str(c["strike"]), "paths": enc_rat(c["paths"]),
            "adds": c["adds"], "dt": rat_str(c["dt"]), "sidx": c["sidx"], "clause_callable": c["cform"],
            "one_object_per_clause": c["share"]}
