"""C12 — Payoffs equal their contractual definitions and ordering.

correspondence: functional *_payoff and derivative.payoff() (with clauses) vs the Lean model
(Model/Payoff.lean) at Rat, exact on dyadic paths; variance swap through the Float carrier;
forward-start index through the bit-exact Float replica of floor(start/dt).
property predicate: the contract formulas in exact Fractions (independent of the model).
"""
import math
from fractions import Fraction as F
from common import *  # noqa

KINDS = ["european", "lookback", "american_binary", "european_binary", "forward_start"]


def contract(kind, call, k, xs, start=0, stop=-1):
    """the property statement, one path, exact"""
    sT = xs[-1]
    if kind == "european":
        return max(sT - k, 0) if call else max(k - sT, 0)
    if kind == "lookback":
        return max(max(xs) - k, 0) if call else max(k - min(xs), 0)
    if kind == "american_binary":
        return F(1) if ((max(xs) >= k) if call else (min(xs) <= k)) else F(0)
    if kind == "european_binary":
        return F(1) if ((sT >= k) if call else (sT <= k)) else F(0)
    if kind == "forward_start":
        return max(xs[stop] / xs[start] - k, 0)
    raise ValueError(kind)


def gen_paths(g, N, T, bits, pow2=False):
    paths = []
    for _ in range(N):
        if pow2:
            p = [F(2) ** g.randint(-2, 2) for _ in range(T)]
        else:
            p = []
            for t in range(T):
                p.append(p[-1] if (p and g.chance(0.15)) else g.dy(F(1, 4), 4, bits))
        paths.append(p)
    return paths


def gen_case(g, tier):
    kind = g.choice(KINDS)
    dtype = g.weighted([("float64", 3), ("float32", 1)])
    N = g.small()
    T = g.small((1, 1, 2, 2, 3, 4, 5, 8, 16)) if not (tier == "thorough" and g.chance(0.03)) else 150
    bits = 3
    paths = gen_paths(g, N, T, bits, pow2=(kind == "forward_start"))
    # strike: tie with some path value often
    flat = [x for p in paths for x in p]
    r = g.r.random()
    if r < 0.35:
        k = g.choice([p[-1] for p in paths])          # tie with a terminal price
    elif r < 0.55:
        k = g.choice([max(p) for p in paths] + [min(p) for p in paths])   # tie with an extreme
    else:
        k = g.dy(F(1, 4), 4, bits)
    if kind == "forward_start":
        k = g.choice([F(1, 4), F(1, 2), F(1), F(2), F(3, 4)])
    call = g.chance(0.5)
    start, stop = 0, -1
    if kind == "forward_start":
        start = g.randint(-T, T - 1)
        stop = g.choice([-1, -1, -1, g.randint(-T, T - 1)])
        call = True
    return dict(kind=kind, call=call, strike=k, paths=paths, start=start, stop=stop, dtype=dtype)


def to_req(c):
    return {"op": "payoff", "kind": c["kind"], "call": c["call"], "strike": rat_str(c["strike"]),
            "paths": enc_rat(c["paths"]), "start": c["start"], "stop": c["stop"]}


def impl_functional(torch, c):
    import pfhedge.nn.functional as fnl
    dt = getattr(torch, c["dtype"])
    x = torch.tensor([[float(v) for v in p] for p in c["paths"]], dtype=dt)
    k = float(c["strike"])
    if c["kind"] == "forward_start":
        st, v, mut = call_impl(fnl.european_forward_start_payoff, x, strike=k, start_index=c["start"],
                               end_index=c["stop"])
    else:
        f = getattr(fnl, c["kind"] + "_payoff")
        st, v, mut = call_impl(f, x, call=c["call"], strike=k)
    if st == "ok":
        if tuple(v.shape) != (len(c["paths"]),) or v.dtype != dt:
            return ("badshape", [list(v.shape), str(v.dtype)]), mut
        return ("ok", tensor_to_fracs(v)), mut
    return ("err", v), mut


def mres(m):
    if "ok" in m:
        return ("ok", dec_rat(m["ok"]))
    if "err" in m:
        return ("err", m["err"])
    return ("bad", m)


CLAUSES = {
    "affine": lambda a, b: (lambda d, p: p * float(a) + float(b)),
    "cap": lambda c: (lambda d, p: p.clamp(max=float(c))),
    "floor": lambda c: (lambda d, p: p.clamp(min=float(c))),
}


def gen_deriv(g, tier):
    kind = g.choice(KINDS + ["variance_swap"])
    N, T = g.small(), g.small((2, 2, 3, 4, 5, 8))
    paths = gen_paths(g, N, T, 3, pow2=(kind == "forward_start"))
    k = g.choice([p[-1] for p in paths] + [max(p) for p in paths] + [g.dy(F(1, 4), 4, 3)])
    if kind == "forward_start":
        k = g.choice([F(1, 2), F(1), F(2)])
    call = g.chance(0.5) if kind != "forward_start" else True
    adds = []
    for _ in range(g.choice([0, 0, 1, 2, 3, 5])):
        name = g.choice(["a", "b", "c", "knock"])
        ck = g.choice(["affine", "cap", "floor"])
        if ck == "affine":
            d = ["affine", rat_str(g.choice([F(1, 2), F(2), F(-1), F(1)])), rat_str(g.choice([F(0), F(1, 2), F(-1, 4)]))]
        else:
            d = [ck, rat_str(g.dy(0, 2, 2))]
        adds.append([name, d])
    dtk = g.choice([F(1, 4), F(1, 8), F(1, 256), F(1, 2)])
    sidx = g.randint(0, T - 1)
    return dict(kind=kind, call=call, strike=k, paths=paths, adds=adds, dt=dtk, sidx=sidx)


def build_deriv(torch, c):
    import pfhedge.instruments as I
    dt = torch.float64
    stock = I.BrownianStock(dt=float(c["dt"]), dtype=dt)
    stock.register_buffer("spot", torch.tensor([[float(v) for v in p] for p in c["paths"]], dtype=dt))
    T = len(c["paths"][0])
    mat = (T - 1) * float(c["dt"])
    k = float(c["strike"])
    kind = c["kind"]
    if kind == "european":
        d = I.EuropeanOption(stock, call=c["call"], strike=k, maturity=mat)
    elif kind == "lookback":
        d = I.LookbackOption(stock, call=c["call"], strike=k, maturity=mat)
    elif kind == "american_binary":
        d = I.AmericanBinaryOption(stock, call=c["call"], strike=k, maturity=mat)
    elif kind == "european_binary":
        d = I.EuropeanBinaryOption(stock, call=c["call"], strike=k, maturity=mat)
    elif kind == "forward_start":
        d = I.EuropeanForwardStartOption(stock, strike=k, maturity=mat, start=c["sidx"] * float(c["dt"]))
    else:
        d = I.VarianceSwap(stock, strike=k, maturity=mat)
    for name, desc in c["adds"]:
        d.add_clause(name, CLAUSES[desc[0]](*[F(x) for x in desc[1:]]))
    return d, stock


def apply_clauses_py(adds, p):
    """independent reading of the property: registration order, re-registration replaces in place"""
    order, table = [], {}
    for name, desc in adds:
        if name not in table:
            order.append(name)
        table[name] = desc
    for name in order:
        d = table[name]
        if d[0] == "affine":
            p = F(d[1]) * p + F(d[2])
        elif d[0] == "cap":
            p = min(p, F(d[1]))
        else:
            p = max(p, F(d[1]))
    return order, p


def check(ctx):
    torch, pfhedge = import_impl()
    g = ctx.gen
    ctx.lean_gate()
    n1 = 2500 if ctx.tier == "quick" else 40000
    n2 = 400 if ctx.tier == "quick" else 5000
    cases = [gen_case(g, ctx.tier) for _ in range(n1)]
    impl = []
    for c in cases:
        r, mut = impl_functional(torch, c)
        if mut:
            ctx.mutated("functional." + c["kind"] + "_payoff", mut, to_req(c))
        impl.append(r)
    try:
        model = [mres(m) for m in ctx.driver([to_req(c) for c in cases])]
    except DriverBroken as e:
        ctx.ties_broken.append({"kind": "driver", "detail": str(e)[:1500]})
        model = [("bad", None)] * len(cases)
    for c, ri, rm in zip(cases, impl, model):
        k = c["strike"]
        T = len(c["paths"][0])
        tie = any(p[-1] == k or max(p) == k or min(p) == k for p in c["paths"])
        ctx.stats[f"kind={c['kind']}"] += 1
        ctx.stats[f"call={c['call']}"] += 1
        ctx.stats[f"tie={tie}"] += 1
        ctx.stats[f"T={T if T < 10 else '10+'}"] += 1
        ctx.case(to_req(c) | {"dtype": c["dtype"]}, nontrivial=(T >= 2), tag=c["kind"])
        ctx.traces += 1
        if ri != rm:
            ctx.disagree("payoff", to_req(c), ri if ri[0] != "ok" else ("ok", enc_rat(ri[1])),
                         rm if rm[0] != "ok" else ("ok", enc_rat(rm[1])))
        # predicate
        oob = c["kind"] == "forward_start" and False
        if ri[0] == "ok":
            exp = [contract(c["kind"], c["call"], k, p, c["start"], c["stop"]) for p in c["paths"]]
            if ri[1] != exp:
                ctx.fail(f"{c['kind']}_payoff differs from its contractual definition", to_req(c),
                         key=f"functional.{c['kind']}_payoff:value",
                         detail={"impl": enc_rat(ri[1]), "contract": enc_rat(exp)})
        elif ri[0] == "err" and T >= 1:
            ctx.fail(f"{c['kind']}_payoff raised on a valid path", to_req(c),
                     key=f"functional.{c['kind']}_payoff:error", detail=ri)
    # ------------- derivative level: payoff_fn wiring, clauses, start index, variance swap
    reqs, metas = [], []
    vs_reqs, vs_meta = [], []
    for _ in range(n2):
        c = gen_deriv(g, ctx.tier)
        try:
            d, stock = build_deriv(torch, c)
        except Exception as e:  # noqa
            raise InternalError("cannot build derivative: " + repr(e))
        with torch.no_grad():
            st, v, mut = call_impl(d.payoff, watch=[("derivative", d)])
        if mut:
            ctx.mutated("derivative.payoff", mut, _small(c))
        ctx.stats[f"d:kind={c['kind']}"] += 1
        ctx.stats[f"d:nclauses={len(c['adds'])}"] += 1
        ctx.case(_small(c), nontrivial=True, tag="deriv_" + c["kind"])
        ctx.traces += 1
        if st != "ok":
            ctx.fail("derivative.payoff() raised on a simulated path", _small(c),
                     key=f"derivative.{c['kind']}.payoff:error", detail=v)
            continue
        if tuple(v.shape) != (len(c["paths"]),):
            ctx.fail("derivative.payoff() does not have one entry per path", _small(c),
                     key=f"derivative.{c['kind']}.payoff:shape", detail=list(v.shape))
            continue
        if c["kind"] == "variance_swap":
            # Float carrier; clauses applied in float by the harness (only the base is compared)
            base = d.payoff_fn()
            vs_reqs.append({"op": "var_swap", "dt": float_bits(float(c["dt"])), "strike": float_bits(float(c["strike"])),
                            "paths": enc_flt([[float(x) for x in p] for p in c["paths"]])})
            vs_meta.append((c, [float(x) for x in base.tolist()]))
            # predicate: annualised mean squared log return - strike (math, double)
            for p, got in zip(c["paths"], base.tolist()):
                lr = [math.log(float(p[i + 1])) - math.log(float(p[i])) for i in range(len(p) - 1)]
                exp = sum(x * x for x in lr) / len(lr) / float(c["dt"]) - float(c["strike"])
                if abs(got - exp) > 1e-9 * (1 + abs(exp)):
                    ctx.fail("variance swap payoff differs from annualised mean squared log-return minus strike",
                             _small(c), key="derivative.variance_swap.payoff:value", detail={"impl": got, "def": exp})
            continue
        got = tensor_to_fracs(v)
        start = c["sidx"] if c["kind"] == "forward_start" else 0
        base = [contract(c["kind"], c["call"], c["strike"], p, start, -1) for p in c["paths"]]
        order, _ = apply_clauses_py(c["adds"], F(0))
        exp = [apply_clauses_py(c["adds"], b)[1] for b in base]
        if got != exp:
            if c["kind"] == "forward_start" and d._start_index() != c["sidx"]:
                ctx.fail("forward-start option starts at the wrong time index: floor(start/dt) in doubles lands one index early",
                         _small(c) | {"start_index": d._start_index()}, key="cliquet._start_index:floor(start/dt)",
                         detail={"impl": enc_rat(got), "contract": enc_rat(exp)})
            else:
                ctx.fail("derivative.payoff() differs from clauses(contract payoff) in registration order",
                         _small(c), key=f"derivative.{c['kind']}.payoff:value",
                         detail={"impl": enc_rat(got), "contract": enc_rat(exp)})
        # model: base payoff through `payoff`, clauses through `clauses`
        reqs.append({"op": "payoff", "kind": c["kind"], "call": c["call"], "strike": rat_str(c["strike"]),
                     "paths": enc_rat(c["paths"]), "start": d._start_index() if c["kind"] == "forward_start" else 0,
                     "stop": -1})
        metas.append(("base", c, tensor_to_fracs(d.payoff_fn()), None))
        reqs.append({"op": "clauses", "adds": c["adds"], "base": enc_rat(tensor_to_fracs(d.payoff_fn()))})
        metas.append(("clauses", c, got, [n for n, _ in d.named_clauses()]))
    try:
        outs = ctx.driver(reqs)
        vouts = ctx.driver(vs_reqs)
    except DriverBroken as e:
        ctx.ties_broken.append({"kind": "driver", "detail": str(e)[:1500]})
        outs, vouts = [], []
    for (what, c, got, names), m in zip(metas, outs):
        if what == "base":
            if mres(m) != ("ok", got):
                ctx.disagree("deriv_payoff_fn", _small(c), enc_rat(got), m)
        else:
            if m.get("names") != names or dec_rat(m.get("payoff", [])) != got:
                ctx.disagree("clauses", _small(c), {"names": names, "payoff": enc_rat(got)}, m)
    for (c, got), m in zip(vs_meta, vouts):
        mv = dec_flt(m["payoff"])
        for a, b in zip(got, mv):
            if not (abs(a - b) <= 1e-10 * (1 + abs(a))):
                ctx.disagree("var_swap", _small(c), got, mv)
                break
    # ------------- start index sweep (Float replica is bit-exact; predicate in exact rationals)
    greqs, gmeta = [], []
    import pfhedge.instruments as I
    dens = [250, 365, 12, 10, 252, 100, 52, 4, 8]
    for _ in range(300 if ctx.tier == "quick" else 4000):
        den = g.choice(dens)
        dt = 1 / den if g.chance(0.7) else g.choice([0.1, 0.01, 0.05, 0.2])
        kk = g.randint(0, 60)
        form = g.choice(["k/den", "k*dt", "noninteger"])
        if form == "k/den":
            start = kk / den if isinstance(dt, float) and dt == 1 / den else kk * dt
        elif form == "k*dt":
            start = kk * dt
        else:
            start = (kk + g.choice([0.25, 0.5, 0.9])) * dt
        stock = I.BrownianStock(dt=dt)
        o = I.EuropeanForwardStartOption(stock, start=start, maturity=start + 10 * dt)
        got = o._start_index()
        greqs.append({"op": "grid", "m": float_bits(start), "dt": float_bits(dt), "start": float_bits(start)})
        gmeta.append((start, dt, got, form, kk))
    try:
        gouts = ctx.driver(greqs)
    except DriverBroken as e:
        ctx.ties_broken.append({"kind": "driver", "detail": str(e)[:1500]})
        gouts = []
    for (start, dt, got, form, kk), m in zip(gmeta, gouts):
        case = {"start": start, "dt": dt, "form": form, "k": kk}
        ctx.case(case, nontrivial=True, tag="start_index")
        ctx.traces += 1
        if m["start_shipped"] != got:
            ctx.disagree("start_index", case, got, m["start_shipped"])
        ratio = F(start) / F(dt)
        near = round(ratio)
        if abs(ratio - near) <= F(1, 10 ** 9) * max(1, abs(near)):
            want = near          # within rounding distance of an integer k: index k
        else:
            want = math.floor(ratio)
        ctx.stats[f"start:form={form}"] += 1
        if got != want:
            ctx.fail("forward-start option starts at the wrong time index: floor(start/dt) in doubles lands one index early",
                     case | {"start_index": got, "expected": want}, key="cliquet._start_index:floor(start/dt)",
                     detail={"ratio": float(ratio)})
    # ---------------- strikes and prices that are NOT representable in single precision, on float64 paths: IEEE subtraction is
    # correctly rounded, so the payoff must be the double nearest to the exact contract value of the doubles involved
    import pfhedge.nn.functional as fnl2
    import pfhedge.instruments as I2
    for it in range(60 if ctx.tier == "quick" else 900):
        kind = g.choice(["european", "lookback", "american_binary", "european_binary"])
        call = g.chance(0.5)
        K = g.choice([0.9, 1.1, 1.03, 1 / 3, 0.7, 1.0000001])
        N, T = g.choice([1, 3, 6]), g.choice([1, 2, 5])
        x = torch.tensor([[g.r.uniform(0.5, 1.6) for _ in range(T)] for _ in range(N)], dtype=torch.float64)
        if g.chance(0.3):
            x[0, -1] = K          # tie with the strike (as a double)
        via = g.choice(["functional", "derivative"])
        case = {"kind": kind, "call": call, "strike": K, "dtype": "float64", "via": via, "paths": [[float(v) for v in r] for r in x.tolist()]}
        ctx.case(case, True, tag="nondyadic-strike")
        ctx.traces += 1
        if via == "functional":
            st, v, _ = call_impl(getattr(fnl2, kind + "_payoff"), x, call=call, strike=K)
        else:
            stock = I2.BrownianStock(dtype=torch.float64)
            stock.register_buffer("spot", x.clone())
            cls = {"european": I2.EuropeanOption, "lookback": I2.LookbackOption, "american_binary": I2.AmericanBinaryOption,
                   "european_binary": I2.EuropeanBinaryOption}[kind]
            st, v, _ = call_impl(cls(stock, call=call, strike=K, maturity=max(T - 1, 1) * stock.dt).payoff)
        if st != "ok":
            ctx.fail("payoff raised on a float64 path with a non-dyadic strike", case, key=f"{via}.{kind}.payoff:error", detail=v)
            continue
        exp = [float(contract(kind, call, F(K), [F(float(z)) for z in r])) for r in x.tolist()]
        got = [float(z) for z in v.tolist()]
        if v.dtype != torch.float64 or got != exp:
            ctx.fail("payoff on a float64 path is not the (correctly rounded) contract value at the given strike: strike or prices rounded through "
                     "a lower precision?", case, key=f"{via}.{kind}.payoff:double-precision", detail={"impl": got, "contract": exp})
    return ctx.finish(
        rule="functional payoffs on dyadic paths (ties with the strike/extremes frequent, T=1,2,.., float32/64), derivative objects "
             "with injected buffers and random clause sequences (re-registration included), forward-start index sweeps over dt/start; "
             "non-trivial = T>=2 (functional), any derivative/start-index case; distinct = sha1 of canonical case")


def _small(c):
    return {"kind": c["kind"], "call": c["call"], "strike": rat_str(c["strike"]), "paths": enc_rat(c["paths"]),
            "adds": c["adds"], "dt": rat_str(c["dt"]), "sidx": c["sidx"]}
