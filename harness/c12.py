"""C12 — Payoffs equal their contractual definitions and ordering.

correspondence: functional *_payoff and derivative.payoff() (with clauses) vs the Lean model
(Model/Payoff.lean) at Rat, exact on dyadic paths; variance swap through the Float carrier;
forward-start index through the bit-exact Float replica of floor(start/dt);
whole SESSIONS on one derivative object (attribute re-assignments, in-place price edits, buffer replacement, clause
registration, refused operations, payoff() in between) vs `run` of Model/Session.lean (driver op "session"), every answer exact;
clauses handed over as lambdas / functions / callable instances / bound methods / partials, one descriptor = ONE callable object, so a
clause registered twice (under two names) is the same callable twice (ops "clauses" and "session" see the same registrations);
functionals on price tensors of shape (T,), (B, N, T), ... (contiguous, permuted, strided) vs op "payoff" / "var_swap" path by path;
derivatives with SEVERAL registered underliers and underliers re-assigned after construction (construction histories of the derivative
objects of every section, re-assignments inside the sessions = a new price buffer for the model, user contracts on two and more assets);
the construction histories, the sessions (with their `swap` / `extra` operations as registrations) and the user contracts (spread by position /
by name, basket) ALSO run through the model of a derivative with several registered underliers (Model/MultiSession.lean, driver op
"multi_session": registry name -> instrument, one price buffer per instrument): named_underliers() (names in order, object identity),
ul(i) for every position, get_underlier(name) and every payoff() answer / raised error compared exactly; scripts of registrations, buffer
swaps, cell edits through variable / name / position, never-simulated instruments, one-path assets, refused names (fixed corpus + random).
step sizes dt with a non-integer reciprocal (calendar days, dt > 1, ...): realized variance / volatility (dt as float / 0-dim tensor), variance swaps
on injected and simulated prices, re-used objects: ops "var_swap", "session", "multi_session" (Float carrier), forward-start index: op "grid".
multi-step object PROTOCOLS on every derivative kind (built-in, variance swap, user spread / basket): add_clause, list(pricer, cost),
delist(), simulate, payoff(), named_clauses() in arbitrary order (fixed corpus + random; list / delist also inside the re-use sessions):
listing / delisting is no operation for the clause registry, so the sessions go to ops "session" / "multi_session" / "clauses" without them.
property predicate: the contract formulas in exact Fractions (independent of the model).
"""
import math
from fractions import Fraction as F
from common import *  # noqa

KINDS = ["european", "lookback", "american_binary", "european_binary", "forward_start"]


def contract(kind, call, k, xs, start=0, stop=-1):
    """the property statement, one path, exact"""
    sT = xs[-1]
    if kind == "european":
        return max(sT - k, 0) if call else max(k - sT, 0)
    if kind == "lookback":
        return max(max(xs) - k, 0) if call else max(k - min(xs), 0)
    if kind == "american_binary":
        return F(1) if ((max(xs) >= k) if call else (min(xs) <= k)) else F(0)
    if kind == "european_binary":
        return F(1) if ((sT >= k) if call else (sT <= k)) else F(0)
    if kind == "forward_start":
        return max(xs[stop] / xs[start] - k, 0)
    raise ValueError(kind)


def gen_paths(g, N, T, bits, pow2=False):
    paths = []
    for _ in range(N):
        if pow2:
            p = [F(2) ** g.randint(-2, 2) for _ in range(T)]
        else:
            p = []
            for t in range(T):
                p.append(p[-1] if (p and g.chance(0.15)) else g.dy(F(1, 4), 4, bits))
        paths.append(p)
    return paths


def gen_case(g, tier, N=None):
    kind = g.choice(KINDS)
    dtype = g.weighted([("float64", 3), ("float32", 1)])
    N = g.small() if N is None else N
    T = g.small((1, 1, 2, 2, 3, 4, 5, 8, 16)) if not (tier == "thorough" and g.chance(0.03)) else 150
    bits = 3
    paths = gen_paths(g, N, T, bits, pow2=(kind == "forward_start"))
    # strike: tie with some path value often
    flat = [x for p in paths for x in p]
    r = g.r.random()
    if r < 0.35:
        k = g.choice([p[-1] for p in paths])          # tie with a terminal price
    elif r < 0.55:
        k = g.choice([max(p) for p in paths] + [min(p) for p in paths])   # tie with an extreme
    else:
        k = g.dy(F(1, 4), 4, bits)
    if kind == "forward_start":
        k = g.choice([F(1, 4), F(1, 2), F(1), F(2), F(3, 4)])
    call = g.chance(0.5)
    start, stop = 0, -1
    if kind == "forward_start":
        start = g.randint(-T, T - 1)
        stop = g.choice([-1, -1, -1, g.randint(-T, T - 1)])
        call = True
    return dict(kind=kind, call=call, strike=k, paths=paths, start=start, stop=stop, dtype=dtype)


def to_req(c):
    return {"op": "payoff", "kind": c["kind"], "call": c["call"], "strike": rat_str(c["strike"]),
            "paths": enc_rat(c["paths"]), "start": c["start"], "stop": c["stop"]}


def impl_functional(torch, c):
    import pfhedge.nn.functional as fnl
    dt = getattr(torch, c["dtype"])
    x = torch.tensor([[float(v) for v in p] for p in c["paths"]], dtype=dt)
    k = float(c["strike"])
    if c["kind"] == "forward_start":
        st, v, mut = call_impl(fnl.european_forward_start_payoff, x, strike=k, start_index=c["start"],
                               end_index=c["stop"])
    else:
        f = getattr(fnl, c["kind"] + "_payoff")
        st, v, mut = call_impl(f, x, call=c["call"], strike=k)
    if st == "ok":
        if tuple(v.shape) != (len(c["paths"]),) or v.dtype != dt:
            return ("badshape", [list(v.shape), str(v.dtype)]), mut
        return ("ok", tensor_to_fracs(v)), mut
    return ("err", v), mut


def mres(m):
    if "ok" in m:
        return ("ok", dec_rat(m["ok"]))
    if "err" in m:
        return ("err", m["err"])
    return ("bad", m)


CLAUSES = {
    "affine": lambda a, b: (lambda d, p: p * float(a) + float(b)),
    "cap": lambda c: (lambda d, p: p.clamp(max=float(c))),
    "floor": lambda c: (lambda d, p: p.clamp(min=float(c))),
    # reads the CURRENT price buffer of the underlier: zero where the path maximum reached the barrier
    "knock_out": lambda b: (lambda d, p: _where(d.ul().spot.max(-1).values < float(b), p)),
}


def _where(cond, p):
    import torch
    return torch.where(cond, p, torch.zeros_like(p))


# the callable a clause is handed over as: the property speaks of "any sequence of user clauses", i.e. any callable
# (derivative, payoff) -> payoff, and the SAME callable may be registered more than once (under several names)
CFORMS = ["lambda", "function", "instance", "method", "partial"]


class _ClauseObj:
    """a callable instance; `apply` is handed over as a bound method (a new, equal bound-method object at every access)"""

    def __init__(self, f):
        self.f = f

    def __call__(self, derivative, payoff):
        return self.f(derivative, payoff)

    def apply(self, derivative, payoff):
        return self.f(derivative, payoff)


def _call3(f, derivative, payoff):
    return f(derivative, payoff)


class ClausePool:
    """the clause callables of ONE derivative.  share=True: one descriptor = one callable object, however often and under
    however many names it is registered (two 50% haircuts, a fee before and after a cap); share=False: a new callable each time"""

    def __init__(self, cform, share):
        self.cform, self.share, self.pool = cform, share, {}

    def get(self, desc):
        key = tuple(desc)
        if not (self.share and key in self.pool):
            f = CLAUSES[desc[0]](*[F(x) for x in desc[1:]])
            if self.cform == "function":
                def clause(derivative, payoff, f=f):
                    return f(derivative, payoff)
                f = clause
            elif self.cform in ("instance", "method"):
                f = _ClauseObj(f)
            elif self.cform == "partial":
                import functools
                f = functools.partial(_call3, f)
            self.pool[key] = f
        f = self.pool[key]
        return f.apply if self.cform == "method" else f


def same_clause_twice(adds):
    """the registry holds one descriptor under two (or more) names"""
    order, table = [], {}
    for name, desc in adds:
        if name not in table:
            order.append(name)
        table[name] = tuple(desc)
    return len({table[n] for n in order}) < len(order)


# ---------------------------------------------------------------------------------------------------------------------------
# the underlier registry.  A derivative may carry more than one registered underlier (an FX rate read by a quanto clause, the assets
# of a user-defined spread / basket contract), and an underlier may be replaced after construction (`derivative.underlier = stock`,
# register_underlier under an existing name).  Whatever the history, the contract is written on the instrument that is registered
# under the name NOW, and the registry (named_underliers(), underliers(), ul(i)) lists the names in the order of their FIRST
# registration: a replaced underlier keeps its position (ul() is what every built-in payoff reads).
# A history = steps (how, name, asset): "register" = register_underlier(name, asset), "assign" = attribute assignment;
# assets: "S" = the instrument carrying the prices of the case, "O" / "X" / "Y" / "Z" = other instruments of the same step size.
# The derivative is constructed on "S", or on "O" when the history assigns the underlier later.

HIST = {
    "direct": [],
    "reassigned": [("assign", "underlier", "S")],
    "reregistered": [("register", "underlier", "S")],
    "extra": [("register", "fx", "X")],
    "extra+reassigned": [("register", "fx", "X"), ("assign", "underlier", "S")],
    "extra+reregistered": [("register", "fx", "X"), ("register", "underlier", "S")],
    "attr-extra+reassigned": [("assign", "fx", "X"), ("assign", "underlier", "S")],
    "reassigned+extra": [("assign", "underlier", "S"), ("assign", "fx", "X")],
    "two-extra+reassigned": [("register", "fx", "X"), ("assign", "collateral", "Y"), ("assign", "underlier", "S"), ("assign", "fx", "Z")],
}
HIST_WEIGHTS = [("direct", 9), ("reassigned", 1), ("reregistered", 1), ("extra", 1), ("extra+reassigned", 3), ("extra+reregistered", 1),
                ("attr-extra+reassigned", 2), ("reassigned+extra", 1), ("two-extra+reassigned", 2)]
HIST_OTHERS = ["O", "X", "Y", "Z"]


def hist_assets(hist):
    """the other instruments a history needs"""
    steps = HIST[hist]
    need = [k for _, _, k in steps if k != "S"]
    if any(n == "underlier" for _, n, _ in steps):
        need.append("O")
    return [k for k in HIST_OTHERS if k in need]


def make_with_history(hist, make, assets):
    """make(primary) -> derivative; assets: key -> primary.  Returns the derivative and what its registry has to show:
    [(name, primary), ..] in the order in which the names were first registered (the oracle's own bookkeeping)"""
    steps = HIST[hist]
    first = assets["O"] if any(n == "underlier" for _, n, _ in steps) else assets["S"]
    d = make(first)
    order, table = ["underlier"], {"underlier": first}
    for how, name, key in steps:
        if how == "register":
            d.register_underlier(name, assets[key])
        else:
            setattr(d, name, assets[key])
        if name not in table:
            order.append(name)
        table[name] = assets[key]
    return d, [[n, table[n]] for n in order]


def history_corpus():
    """every kind, call and put, on two fixed paths, with an FX rate registered as second underlier (by register_underlier / by
    attribute) and the underlier assigned afterwards: part of every run, whatever the seed"""
    out = []
    for kind in KINDS + ["variance_swap"]:
        for call in ([True] if kind in ("forward_start", "variance_swap") else [True, False]):
            for hist in ("extra+reassigned", "attr-extra+reassigned", "two-extra+reassigned"):
                paths = [[F(1), F(2), F(1, 2), F(1)], [F(1), F(1, 2), F(2), F(4)]]
                other = [[F(2), F(1, 4), F(4), F(2)], [F(1, 2), F(1), F(1, 4), F(1, 2)]]
                others = {k: [[x * m for x in p] for p in other] for k, m in zip(hist_assets(hist), (1, 2, F(1, 2), 4))}
                out.append(dict(kind=kind, call=call, strike=F(1), paths=paths, adds=[["a", ["affine", "2", "1/2"]]] if call else [],
                                dt=F(1, 4), sidx=1, cform="function", share=True, hist=hist, others=others))
    return out


def registry_wrong(d, reg):
    """None when every view of the registry of `d` shows `reg` = [(name, primary), ..], else what it shows instead"""
    names = [n for n, _ in d.named_underliers()]
    want = [n for n, _ in reg]
    if names != want:
        return {"named_underliers": names, "registered (first registration of each name, in order)": want}
    objs = list(d.underliers())
    for i, (n, o) in enumerate(reg):
        views = {"underliers()[i]": objs[i], "ul(i)": d.ul(i), "attribute": getattr(d, n), "get_underlier": d.get_underlier(n),
                 "named_underliers()[i]": list(d.named_underliers())[i][1]}
        off = [k for k, v in views.items() if v is not o]
        if off:
            return {"position": i, "name": n, "not the instrument registered under the name": off}
    if d.ul() is not reg[0][1]:
        return {"ul()": "not the first registered underlier"}
    return None


def reg_show(reg):
    return [n for n, _ in reg]


# ---------------------------------------------------------------------------------------------------------------------------
# the same scenarios for the Lean model of a derivative with SEVERAL registered underliers (Model/MultiSession.lean, driver op
# "multi_session"): the instrument objects are numbered, the model keeps the registry (name -> number, insertion-ordered) and the
# price buffer of every instrument; compared are the registry listings (names in order, object identity through the numbers), ul(i),
# get_underlier(name) and EVERY payoff() answer / raised error, exactly.

MS_ATTR_CANDIDATES = ["strike", "payoff", "maturity", "a", "b", "c", "z", "knock", "call", "start", "underlier", "cost", "pricer", "fx",
                      "collateral", "first", "second", "weights", "by", "ul", "a.b", ""] + [f"asset{i}" for i in range(12)]


class MultiRec:
    """one scenario on ONE derivative object, recorded for the model: `ops` = model operations in the order they were carried out on
    the real object, `outs` = what the real object showed for each of them"""

    def __init__(self, contract, flt=False, first=None, second=None):
        self.contract, self.flt, self.first, self.second = contract, flt, first, second
        self.enc = (lambda q: float_bits(float(F(q)))) if flt else (lambda q: rat_str(F(q)))
        self.objs, self.world, self.ops, self.outs = [], [], [], []
        self.terms = None

    def set_terms(self, strike, call=True, start=0, dt=F(1, 4), weights=(), attrs=()):
        self.terms = {"strike": self.enc(strike), "call": bool(call), "start": int(start), "dt": self.enc(dt),
                      "weights": [self.enc(w) for w in weights], "attrs": list(attrs)}

    def encd(self, desc):
        return [desc[0]] + [self.enc(x) for x in desc[1:]]

    def rows(self, paths):
        return [[self.enc(v) for v in p] for p in paths]

    def known(self, inst):
        for k, o in enumerate(self.objs):
            if o is inst:
                return k
        return None

    def add(self, inst, paths):
        """an instrument object that exists from the start, with its prices (None: never simulated)"""
        self.objs.append(inst)
        self.world.append([len(self.objs) - 1, None if paths is None else self.rows(paths)])
        return len(self.objs) - 1

    def new(self, inst, paths):
        """an instrument object created during the session: its prices are handed to the model when it appears"""
        self.objs.append(inst)
        k = len(self.objs) - 1
        self.world.append([k, None])
        if paths is not None:
            self.op(["swap_buffer", ["id", k], self.rows(paths)], None)
        return k

    def op(self, mop, out):
        self.ops.append(mop)
        self.outs.append(out)

    def ident(self, inst):
        k = self.known(inst)
        return ("inst", k) if k is not None else ("unknown-object", repr(inst))

    def views(self, d):
        """named_underliers(), ul(i) for every position (and one beyond, from both ends), get_underlier(name) for every name"""
        try:
            named = list(d.named_underliers())
            self.op(["names"], ("names", [[n, self.known(o)] for n, o in named]))
        except Exception as e:  # noqa
            self.op(["names"], ("err", canon_error(e)))
            return
        n = len(named)
        for i in list(range(-n - 1, n + 1)):
            try:
                self.op(["ul", i], self.ident(d.ul(i)))
            except Exception as e:  # noqa
                self.op(["ul", i], ("err", canon_error(e)))
        for name in [x for x, _ in named] + ["nosuch"]:
            try:
                self.op(["get", name], self.ident(d.get_underlier(name)))
            except Exception as e:  # noqa
                self.op(["get", name], ("err", canon_error(e)))

    def query(self, st, v):
        if st != "ok":
            self.op(["query"], ("err", v))
        elif self.flt:
            self.op(["query"], ("ok", [float(z) for z in v.reshape(-1).tolist()]))
        else:
            self.op(["query"], ("ok", tensor_to_fracs(v.reshape(-1))))

    def static_attrs(self, d, extra=()):
        """the names `hasattr` finds on the object that are no registered underliers (class attributes, instance attributes)"""
        regd = [n for n, _ in d.named_underliers()]
        return [n for n in dict.fromkeys(list(MS_ATTR_CANDIDATES) + list(extra)) if n not in regd and n != "" and hasattr(d, n)]

    def request(self):
        req = {"op": "multi_session", "carrier": "float" if self.flt else "rat", "contract": self.contract, "reg": [],
               "world": self.world, "ops": self.ops, "show": list(range(len(self.objs)))}
        if self.first is not None:
            req |= {"first": self.first, "second": self.second}
        return req | self.terms

    def final(self, d, **terms):
        """the object and every instrument as they are now"""
        fin = dict(terms)
        fin["reg"] = [[n, self.known(o)] for n, o in d.named_underliers()]
        fin["clauses"] = [n for n, _ in d.named_clauses()]
        fin["spot"] = [[k, [[F(z) for z in r] for r in o.spot.tolist()] if hasattr(o, "spot") else None]
                       for k, o in enumerate(self.objs)]
        return fin


def ms_same(a, b, flt):
    """one output of the real object against the model's"""
    if a is None or b is None:
        return a is None and b is None
    if not isinstance(b, dict):
        return False
    if a[0] == "err":
        return b.get("err") == a[1]
    if a[0] == "names":
        return b.get("names") == a[1]
    if a[0] == "inst":
        return b.get("inst") == a[1]
    if a[0] != "ok" or "ok" not in b or len(b["ok"]) != len(a[1]):
        return False
    if flt:       # log in the payoff: libm vs torch kernels, compared with a tolerance like the op "var_swap"
        return all(abs(x - y) <= 1e-10 * (1 + abs(x)) for x, y in zip(a[1], dec_flt(b["ok"])))
    return a[1] == dec_rat(b["ok"])


def ms_show(o, flt):
    if o is None or o[0] != "ok":
        return o
    return ("ok", o[1] if flt else enc_rat(o[1]))


def ms_compare(ctx, recs):
    """recs: [(case, MultiRec, final | None)].  Every output and the final state of every scenario against the model"""
    reqs = [rec.request() for _, rec, _ in recs]
    try:
        outs = ctx.driver(reqs)
    except DriverBroken as e:
        ctx.ties_broken.append({"kind": "driver", "detail": str(e)[:1500]})
        return
    for (case, rec, fin), req, m in zip(recs, reqs, outs):
        ctx.stats[f"multi_session:contract={rec.contract}"] += 1
        ctx.stats[f"multi_session:instruments={min(len(rec.objs), 6)}"] += 1
        for o in rec.ops:
            ctx.stats[f"multi_session:op={o[0]}"] += 1
        mo = m.get("outs")
        small = {"contract": rec.contract, "world": rec.world, "model_ops": rec.ops}
        if mo is None or len(mo) != len(rec.outs):
            ctx.disagree("multi_session", case | small, [ms_show(o, rec.flt) for o in rec.outs], m, note="no / wrong number of outputs")
            continue
        for k, (a, b) in enumerate(zip(rec.outs, mo)):
            ctx.stats["multi_session:out=" + ("none" if a is None else a[0])] += 1
            if not ms_same(a, b, rec.flt):
                ctx.stats[f"multi_session:DISAGREE at {rec.ops[k][0]}"] += 1
                ctx.disagree("multi_session", case | small | {"at": k, "model_op": rec.ops[k]}, ms_show(a, rec.flt),
                             {"ok": dec_flt(b["ok"])} if (rec.flt and isinstance(b, dict) and "ok" in b) else b,
                             note=f"output {k} of the scenario differs ({rec.ops[k][0]})")
                break
        else:
            if fin is None:
                continue
            mf = m["final"]
            dec = (lambda x: F(float_of_bits(x))) if rec.flt else F
            got = {"reg": mf["reg"], "clauses": mf["clauses"],
                   "spot": [[k, None if b is None else [[dec(z) for z in r] for r in b]] for k, b in mf["spot"]]}
            for key in ("strike", "weights"):
                if key in fin:
                    got[key] = dec(mf[key]) if key == "strike" else [dec(w) for w in mf[key]]
            for key in ("call", "start"):
                if key in fin:
                    got[key] = mf[key]
            if got != fin:
                ctx.stats["multi_session:DISAGREE final state"] += 1
                ctx.disagree("multi_session", case | small, {k: str(v) for k, v in fin.items()},
                             {k: str(v) for k, v in got.items()}, note="final state of the object / the instruments differs")


def gen_deriv(g, tier):
    kind = g.choice(KINDS + ["variance_swap"])
    N, T = g.small(), g.small((2, 2, 3, 4, 5, 8))
    paths = gen_paths(g, N, T, 3, pow2=(kind == "forward_start"))
    k = g.choice([p[-1] for p in paths] + [max(p) for p in paths] + [g.dy(F(1, 4), 4, 3)])
    if kind == "forward_start":
        k = g.choice([F(1, 2), F(1), F(2)])
    call = g.chance(0.5) if kind != "forward_start" else True
    adds = []
    for _ in range(g.choice([0, 0, 1, 2, 3, 5])):
        name = g.choice(["a", "b", "c", "knock"])
        ck = g.choice(["affine", "cap", "floor"])
        if adds and g.chance(0.35):
            d = list(g.choice(adds)[1])          # a clause registered before, once more (mostly under another name)
        elif ck == "affine":
            d = ["affine", rat_str(g.choice([F(1, 2), F(2), F(-1), F(1)])), rat_str(g.choice([F(0), F(1, 2), F(-1, 4)]))]
        else:
            d = [ck, rat_str(g.dy(0, 2, 2))]
        adds.append([name, d])
    dtk = g.choice([F(1, 4), F(1, 8), F(1, 256), F(1, 2)])
    sidx = g.randint(0, T - 1)
    hist = g.weighted(HIST_WEIGHTS)
    # the prices of the OTHER instruments of the history (same number of paths, mostly the same number of steps)
    others = {key: gen_paths(g, N, T if g.chance(0.8) else g.small((2, 3, 5)), 3, pow2=(kind == "forward_start"))
              for key in hist_assets(hist)}
    return dict(kind=kind, call=call, strike=k, paths=paths, adds=adds, dt=dtk, sidx=sidx,
                cform=g.choice(CFORMS), share=g.chance(0.8), hist=hist, others=others)


def build_deriv(torch, c, pool=None, rec=None):
    """rec: a MultiRec that is told the instruments, the registrations of the construction history and the clauses"""
    import pfhedge.instruments as I
    pool = pool if pool is not None else ClausePool(c["cform"], c["share"])
    stock = new_stock(torch, c["paths"], c["dt"])
    T = len(c["paths"][0])
    mat = (T - 1) * float(c["dt"])
    k = float(c["strike"])
    kind = c["kind"]

    def make(ul):
        if kind == "european":
            return I.EuropeanOption(ul, call=c["call"], strike=k, maturity=mat)
        if kind == "lookback":
            return I.LookbackOption(ul, call=c["call"], strike=k, maturity=mat)
        if kind == "american_binary":
            return I.AmericanBinaryOption(ul, call=c["call"], strike=k, maturity=mat)
        if kind == "european_binary":
            return I.EuropeanBinaryOption(ul, call=c["call"], strike=k, maturity=mat)
        if kind == "forward_start":
            return I.EuropeanForwardStartOption(ul, strike=k, maturity=mat, start=c["sidx"] * float(c["dt"]))
        return I.VarianceSwap(ul, strike=k, maturity=mat)
    assets = {"S": stock}
    for key, paths in c.get("others", {}).items():
        assets[key] = new_stock(torch, paths, c["dt"])
    d, reg = make_with_history(c.get("hist", "direct"), make, assets)
    for name, desc in c["adds"]:
        d.add_clause(name, pool.get(desc))
    if rec is not None:
        ids = {key: rec.add(a, c["paths"] if key == "S" else c["others"][key]) for key, a in assets.items()}
        steps = HIST[c.get("hist", "direct")]
        rec.op(["register", "underlier", ids["O" if any(n == "underlier" for _, n, _ in steps) else "S"]], None)   # the constructor
        for how, name, key in steps:
            rec.op([how, name, ids[key]], None)
        for name, desc in c["adds"]:
            rec.op(["clause", name, rec.encd(desc)], None)
        rec.set_terms(c["strike"], c["call"], c["sidx"], c["dt"], attrs=rec.static_attrs(d))
    return d, stock, reg


def new_stock(torch, paths, dt):
    """an instrument of step size dt carrying the given prices (float64)"""
    import pfhedge.instruments as I
    stock = I.BrownianStock(dt=float(dt), dtype=torch.float64)
    stock.register_buffer("spot", torch.tensor([[float(v) for v in p] for p in paths], dtype=torch.float64).reshape(
        len(paths), len(paths[0]) if paths else 0))
    return stock


def apply_clauses_py(adds, p, path=None):
    """independent reading of the property: registration order, re-registration replaces in place"""
    order, table = [], {}
    for name, desc in adds:
        if name not in table:
            order.append(name)
        table[name] = desc
    for name in order:
        d = table[name]
        if d[0] == "affine":
            p = F(d[1]) * p + F(d[2])
        elif d[0] == "cap":
            p = min(p, F(d[1]))
        elif d[0] == "knock_out":
            p = p if max(path) < F(d[1]) else F(0)
        else:
            p = max(p, F(d[1]))
    return order, p


def apply_clauses_float(adds, x):
    """apply_clauses_py in doubles (affine / cap / floor)"""
    order, table = [], {}
    for name, desc in adds:
        if name not in table:
            order.append(name)
        table[name] = desc
    for name in order:
        d = table[name]
        if d[0] == "affine":
            x = x * float(F(d[1])) + float(F(d[2]))
        elif d[0] == "cap":
            x = min(x, float(F(d[1])))
        else:
            x = max(x, float(F(d[1])))
    return x


def check(ctx):
    torch, pfhedge = import_impl()
    g = ctx.gen
    ctx.lean_gate()
    n1 = 2500 if ctx.tier == "quick" else 40000
    n2 = 400 if ctx.tier == "quick" else 5000
    cases = [gen_case(g, ctx.tier) for _ in range(n1)]
    impl = []
    for c in cases:
        r, mut = impl_functional(torch, c)
        if mut:
            ctx.mutated("functional." + c["kind"] + "_payoff", mut, to_req(c))
        impl.append(r)
    try:
        model = [mres(m) for m in ctx.driver([to_req(c) for c in cases])]
    except DriverBroken as e:
        ctx.ties_broken.append({"kind": "driver", "detail": str(e)[:1500]})
        model = [("bad", None)] * len(cases)
    for c, ri, rm in zip(cases, impl, model):
        k = c["strike"]
        T = len(c["paths"][0])
        tie = any(p[-1] == k or max(p) == k or min(p) == k for p in c["paths"])
        ctx.stats[f"kind={c['kind']}"] += 1
        ctx.stats[f"call={c['call']}"] += 1
        ctx.stats[f"tie={tie}"] += 1
        ctx.stats[f"T={T if T < 10 else '10+'}"] += 1
        ctx.case(to_req(c) | {"dtype": c["dtype"]}, nontrivial=(T >= 2), tag=c["kind"])
        ctx.traces += 1
        if ri != rm:
            ctx.disagree("payoff", to_req(c), ri if ri[0] != "ok" else ("ok", enc_rat(ri[1])),
                         rm if rm[0] != "ok" else ("ok", enc_rat(rm[1])))
        # predicate
        oob = c["kind"] == "forward_start" and False
        if ri[0] == "ok":
            exp = [contract(c["kind"], c["call"], k, p, c["start"], c["stop"]) for p in c["paths"]]
            if ri[1] != exp:
                ctx.fail(f"{c['kind']}_payoff differs from its contractual definition", to_req(c),
                         key=f"functional.{c['kind']}_payoff:value",
                         detail={"impl": enc_rat(ri[1]), "contract": enc_rat(exp)})
        elif ri[0] == "err" and T >= 1:
            ctx.fail(f"{c['kind']}_payoff raised on a valid path", to_req(c),
                     key=f"functional.{c['kind']}_payoff:error", detail=ri)
    check_functional_nd(ctx, torch, g)
    # ------------- derivative level: payoff_fn wiring, clauses, start index, variance swap
    reqs, metas = [], []
    vs_reqs, vs_meta = [], []
    mrecs = []
    for c in history_corpus() + [gen_deriv(g, ctx.tier) for _ in range(n2)]:
        rec = MultiRec(c["kind"], flt=(c["kind"] == "variance_swap"))
        try:
            d, stock, reg = build_deriv(torch, c, rec=rec)
        except Exception as e:  # noqa
            if c["hist"] != "direct":
                # the constructor is the one of the plain cases: what raised is a registration / re-assignment of an underlier
                ctx.case(_small(c), nontrivial=True, tag="deriv_" + c["kind"])
                ctx.fail("registering a further underlier / re-assigning an underlier of a derivative raised", _small(c),
                         key="derivative.underliers:registration-error", detail=canon_error(e))
                continue
            raise InternalError("cannot build derivative: " + repr(e))
        with torch.no_grad():
            st, v, mut = call_impl(d.payoff, watch=[("derivative", d)])
        if mut:
            ctx.mutated("derivative.payoff", mut, _small(c))
        ctx.stats[f"d:kind={c['kind']}"] += 1
        ctx.stats[f"d:nclauses={len(c['adds'])}"] += 1
        ctx.stats[f"d:clause_callable={c['cform']}"] += 1
        ctx.stats[f"d:same-clause-twice={same_clause_twice(c['adds'])}"] += 1
        ctx.stats[f"d:history={c['hist']}"] += 1
        ctx.case(_small(c), nontrivial=True, tag="deriv_" + c["kind"])
        ctx.traces += 1
        # the registry after the construction history: every name at the position of its first registration, the instrument
        # registered under it now; a payoff that differs below is then reported as the contract on the wrong instrument
        badreg = registry_wrong(d, reg)
        if badreg:
            ctx.fail("the underlier registry of a derivative does not list its underliers in the order in which their names were "
                     "registered (an underlier replaced after construction keeps its position; ul() is what the payoff reads)",
                     _small(c) | {"registered": reg_show(reg)}, key="derivative.underliers:registration-order", detail=badreg)
        # the same construction history, the registry views and the answer for the model's multi-underlier session
        rec.views(d)
        rec.query(st, v)
        mrecs.append((_small(c), rec, None))
        if st != "ok":
            ctx.fail("derivative.payoff() raised on a simulated path", _small(c),
                     key=f"derivative.{c['kind']}.payoff:error", detail=v)
            continue
        if tuple(v.shape) != (len(c["paths"]),):
            ctx.fail("derivative.payoff() does not have one entry per path", _small(c),
                     key=f"derivative.{c['kind']}.payoff:shape", detail=list(v.shape))
            continue
        if c["kind"] == "variance_swap":
            # Float carrier; clauses applied in float by the harness (only the base is compared)
            base = d.payoff_fn()
            vs_reqs.append({"op": "var_swap", "dt": float_bits(float(c["dt"])), "strike": float_bits(float(c["strike"])),
                            "paths": enc_flt([[float(x) for x in p] for p in c["paths"]])})
            vs_meta.append((c, [float(x) for x in base.tolist()]))
            # predicate: annualised mean squared log return - strike (math, double)
            for p, got in zip(c["paths"], base.tolist()):
                lr = [math.log(float(p[i + 1])) - math.log(float(p[i])) for i in range(len(p) - 1)]
                exp = sum(x * x for x in lr) / len(lr) / float(c["dt"]) - float(c["strike"])
                if abs(got - exp) > 1e-9 * (1 + abs(exp)):
                    if badreg:
                        ctx.fail("variance swap payoff is not the contract on the instrument registered as `underlier` (several "
                                 "registered underliers, one re-assigned after construction)", _small(c),
                                 key="derivative.variance_swap.payoff:wrong-underlier", detail={"impl": got, "def": exp, "registry": badreg})
                        break
                    ctx.fail("variance swap payoff differs from annualised mean squared log-return minus strike",
                             _small(c), key="derivative.variance_swap.payoff:value", detail={"impl": got, "def": exp})
            # registered clauses on payoff_fn() in registration order: the clause arithmetic (one IEEE multiplication and addition,
            # min, max) is correctly rounded, so doing the same in Python doubles on the base payoff is exact
            expc = [apply_clauses_float(c["adds"], float(b)) for b in base.tolist()]
            gotc = [float(z) for z in v.tolist()]
            if gotc != expc:
                ctx.fail("variance swap: payoff() differs from the registered clauses applied to payoff_fn() in registration order",
                         _small(c), key="derivative.variance_swap.payoff:" + ("same-clause-twice" if same_clause_twice(c["adds"])
                                                                            else "clauses"),
                         detail={"impl": gotc, "clauses(payoff_fn)": expc, "payoff_fn": base.tolist()})
            continue
        got = tensor_to_fracs(v)
        start = c["sidx"] if c["kind"] == "forward_start" else 0
        base = [contract(c["kind"], c["call"], c["strike"], p, start, -1) for p in c["paths"]]
        order, _ = apply_clauses_py(c["adds"], F(0))
        exp = [apply_clauses_py(c["adds"], b)[1] for b in base]
        if got != exp:
            if badreg:
                ctx.fail("derivative.payoff() is not clauses(contract payoff) on the instrument registered as `underlier` (several "
                         "registered underliers, one re-assigned after construction): the payoff reads another instrument's prices",
                         _small(c), key=f"derivative.{c['kind']}.payoff:wrong-underlier",
                         detail={"impl": enc_rat(got), "contract": enc_rat(exp), "registry": badreg})
            elif c["kind"] == "forward_start" and d._start_index() != c["sidx"]:
                ctx.fail("forward-start option starts at the wrong time index: floor(start/dt) in doubles lands one index early",
                         _small(c) | {"start_index": d._start_index()}, key="cliquet._start_index:floor(start/dt)",
                         detail={"impl": enc_rat(got), "contract": enc_rat(exp)})
            elif same_clause_twice(c["adds"]):
                ctx.fail("derivative.payoff() differs from clauses(contract payoff) in registration order: one clause is registered "
                         "under several names (" + ("the same callable object" if c["share"] else "equal callables") + ") and applies "
                         "once per registration", _small(c), key=f"derivative.{c['kind']}.payoff:same-clause-twice",
                         detail={"impl": enc_rat(got), "contract": enc_rat(exp)})
            else:
                ctx.fail("derivative.payoff() differs from clauses(contract payoff) in registration order",
                         _small(c), key=f"derivative.{c['kind']}.payoff:value",
                         detail={"impl": enc_rat(got), "contract": enc_rat(exp)})
        # model: base payoff through `payoff`, clauses through `clauses`
        reqs.append({"op": "payoff", "kind": c["kind"], "call": c["call"], "strike": rat_str(c["strike"]),
                     "paths": enc_rat(c["paths"]), "start": d._start_index() if c["kind"] == "forward_start" else 0,
                     "stop": -1})
        metas.append(("base", c, tensor_to_fracs(d.payoff_fn()), None))
        reqs.append({"op": "clauses", "adds": c["adds"], "base": enc_rat(tensor_to_fracs(d.payoff_fn()))})
        metas.append(("clauses", c, got, [n for n, _ in d.named_clauses()]))
    try:
        outs = ctx.driver(reqs)
        vouts = ctx.driver(vs_reqs)
    except DriverBroken as e:
        ctx.ties_broken.append({"kind": "driver", "detail": str(e)[:1500]})
        outs, vouts = [], []
    for (what, c, got, names), m in zip(metas, outs):
        if what == "base":
            if mres(m) != ("ok", got):
                ctx.disagree("deriv_payoff_fn", _small(c), enc_rat(got), m)
        else:
            if m.get("names") != names or dec_rat(m.get("payoff", [])) != got:
                ctx.disagree("clauses", _small(c), {"names": names, "payoff": enc_rat(got)}, m)
    for (c, got), m in zip(vs_meta, vouts):
        mv = dec_flt(m["payoff"])
        for a, b in zip(got, mv):
            if not (abs(a - b) <= 1e-10 * (1 + abs(a))):
                ctx.disagree("var_swap", _small(c), got, mv)
                break
    ms_compare(ctx, mrecs)
    # ------------- start index sweep (Float replica is bit-exact; predicate in exact rationals)
    greqs, gmeta = [], []
    import pfhedge.instruments as I
    dens = [250, 365, 12, 10, 252, 100, 52, 4, 8]
    for _ in range(300 if ctx.tier == "quick" else 4000):
        den = g.choice(dens)
        dt = 1 / den if g.chance(0.7) else g.choice([0.1, 0.01, 0.05, 0.2])
        kk = g.randint(0, 60)
        form = g.choice(["k/den", "k*dt", "noninteger"])
        if form == "k/den":
            start = kk / den if isinstance(dt, float) and dt == 1 / den else kk * dt
        elif form == "k*dt":
            start = kk * dt
        else:
            start = (kk + g.choice([0.25, 0.5, 0.9])) * dt
        stock = I.BrownianStock(dt=dt)
        o = I.EuropeanForwardStartOption(stock, start=start, maturity=start + 10 * dt)
        got = o._start_index()
        greqs.append({"op": "grid", "m": float_bits(start), "dt": float_bits(dt), "start": float_bits(start)})
        gmeta.append((start, dt, got, form, kk))
    try:
        gouts = ctx.driver(greqs)
    except DriverBroken as e:
        ctx.ties_broken.append({"kind": "driver", "detail": str(e)[:1500]})
        gouts = []
    for (start, dt, got, form, kk), m in zip(gmeta, gouts):
        case = {"start": start, "dt": dt, "form": form, "k": kk}
        ctx.case(case, nontrivial=True, tag="start_index")
        ctx.traces += 1
        if m["start_shipped"] != got:
            ctx.disagree("start_index", case, got, m["start_shipped"])
        ratio = F(start) / F(dt)
        near = round(ratio)
        if abs(ratio - near) <= F(1, 10 ** 9) * max(1, abs(near)):
            want = near          # within rounding distance of an integer k: index k
        else:
            want = math.floor(ratio)
        ctx.stats[f"start:form={form}"] += 1
        if got != want:
            ctx.fail("forward-start option starts at the wrong time index: floor(start/dt) in doubles lands one index early",
                     case | {"start_index": got, "expected": want}, key="cliquet._start_index:floor(start/dt)",
                     detail={"ratio": float(ratio)})
    # ---------------- strikes and prices that are NOT representable in single precision, on float64 paths: IEEE subtraction is
    # correctly rounded, so the payoff must be the double nearest to the exact contract value of the doubles involved
    import pfhedge.nn.functional as fnl2
    import pfhedge.instruments as I2
    for it in range(60 if ctx.tier == "quick" else 900):
        kind = g.choice(["european", "lookback", "american_binary", "european_binary"])
        call = g.chance(0.5)
        K = g.choice([0.9, 1.1, 1.03, 1 / 3, 0.7, 1.0000001])
        N, T = g.choice([1, 3, 6]), g.choice([1, 2, 5])
        x = torch.tensor([[g.r.uniform(0.5, 1.6) for _ in range(T)] for _ in range(N)], dtype=torch.float64)
        if g.chance(0.3):
            x[0, -1] = K          # tie with the strike (as a double)
        via = g.choice(["functional", "derivative"])
        hist = g.weighted(HIST_WEIGHTS) if via == "derivative" else "direct"
        case = {"kind": kind, "call": call, "strike": K, "dtype": "float64", "via": via, "paths": [[float(v) for v in r] for r in x.tolist()]}
        if hist != "direct":
            case["history"] = [list(z) for z in HIST[hist]]       # the other instruments carry the prices times 5/4, 3/4, ...
        ctx.case(case, True, tag="nondyadic-strike")
        ctx.traces += 1
        badreg = None
        if via == "functional":
            st, v, _ = call_impl(getattr(fnl2, kind + "_payoff"), x, call=call, strike=K)
        else:
            assets = {}
            for key, m in [("S", 1.0)] + list(zip(hist_assets(hist), (1.25, 0.75, 1.5, 0.875))):
                assets[key] = I2.BrownianStock(dtype=torch.float64)
                assets[key].register_buffer("spot", x.clone() * m)
            cls = {"european": I2.EuropeanOption, "lookback": I2.LookbackOption, "american_binary": I2.AmericanBinaryOption,
                   "european_binary": I2.EuropeanBinaryOption}[kind]
            d, reg = make_with_history(hist, lambda ul: cls(ul, call=call, strike=K, maturity=max(T - 1, 1) * ul.dt), assets)
            badreg = registry_wrong(d, reg)
            if badreg:
                ctx.fail("the underlier registry of a derivative does not list its underliers in the order in which their names were "
                         "registered (an underlier replaced after construction keeps its position; ul() is what the payoff reads)",
                         case | {"registered": reg_show(reg)}, key="derivative.underliers:registration-order", detail=badreg)
            st, v, _ = call_impl(d.payoff)
        if st != "ok":
            ctx.fail("payoff raised on a float64 path with a non-dyadic strike", case, key=f"{via}.{kind}.payoff:error", detail=v)
            continue
        exp = [float(contract(kind, call, F(K), [F(float(z)) for z in r])) for r in x.tolist()]
        got = [float(z) for z in v.tolist()]
        if badreg and got != exp:
            ctx.fail("payoff() is not the contract on the instrument registered as `underlier` (several registered underliers, one "
                     "re-assigned after construction)", case, key=f"{via}.{kind}.payoff:wrong-underlier",
                     detail={"impl": got, "contract": exp, "registry": badreg})
        elif v.dtype != torch.float64 or got != exp:
            ctx.fail("payoff on a float64 path is not the (correctly rounded) contract value at the given strike: strike or prices rounded through "
                     "a lower precision?", case, key=f"{via}.{kind}.payoff:double-precision", detail={"impl": got, "contract": exp})
    check_reuse(ctx, torch, g)
    check_offgrid_maturity(ctx, torch, g)
    check_multi_asset(ctx, torch, g)
    check_step_sizes(ctx, torch, g)
    check_listing_protocol(ctx, torch, g)
    import ext_listing
    ext_listing.run(ctx, ctx.gen.__class__(f"{ctx.seed}:ext_listing"))      # list / delist protocols (Model/Listing, op listing)
    return ctx.finish(
        rule="functional payoffs on dyadic paths (ties with the strike/extremes frequent, T=1,2,.., float32/64), derivative objects "
             "with injected buffers and random clause sequences (re-registration included; the same clause = the same callable object "
             "registered under several names; callables of five kinds; variance swap with clauses), functionals on 1-D / 3-D / 4-D price "
             "tensors incl. square shapes and non-contiguous layouts (one entry per path, each the contract value; realized variance / "
             "volatility likewise), forward-start index sweeps over dt/start; "
             "ONE derivative object re-used over a sequence of contract-term changes (strike, call flag, start), in-place price edits, "
             "buffer re-registrations / simulate() and clause registrations (incl. a knock-out clause reading the current buffer, refused names, "
             "cell indices outside the buffer) with payoff() after most steps, each such session also run through the Lean session model "
             "(op session: every payoff() answer / raised error / final object state compared exactly); forward-start options on SIMULATED paths "
             "whose maturity is / is not a whole number of steps (terminal price = last simulated column, start=0 vs EuropeanOption); "
             "derivative objects of all these sections with a construction HISTORY (further registered underliers, the underlier assigned / "
             "registered again after construction; a fixed corpus of such histories for every kind), sessions that replace the underlier by "
             "another instrument or register further ones (for the model: a new price buffer), user-defined spread / basket contracts on "
             "2-5 assets with assets replaced after construction: the registry keeps the order of first registration (named_underliers, "
             "underliers, ul(i), attribute) and payoff() is the contract on the instruments registered now; "
             "all of these also through the Lean model of the underlier registry (op multi_session: names in order with object identity, "
             "ul(i) at every position, get_underlier(name), every payoff() answer / error, final registry / buffers / terms compared exactly), "
             "plus scripts on one object with 2-5 instruments around (registrations under new / existing / refused names, buffers swapped and "
             "cells edited through a variable / a name / a position, never-simulated instruments, one-path and mismatching assets, baskets with "
             "fewer / more weights than assets, clause names against underlier names: fixed corpus and random) judged by the model alone; "
             "step sizes dt whose reciprocal is not a whole number (1/365.25, 0.03, 0.3, 2, 7/250, 0.003, 1.5, 3/8, 0.7; fixed list + random): realized "
             "variance / volatility with dt as float / 0-dim double / 0-dim single tensor, variance swaps on injected (history, clauses, object "
             "re-used) and simulated prices vs the contract by hand, the same through ops var_swap / session / multi_session, start-index sweep; "
             "multi-step protocols on one derivative object of every kind (built-in, variance swap, user spread / basket): add_clause, "
             "list(pricer, cost), delist(), simulate, payoff(), named_clauses() in arbitrary order (fixed corpus + random; list / delist also "
             "inside the re-use sessions): payoff() = the registered clauses on the contract payoff in registration order whatever was listed / "
             "delisted in between, named_clauses() unchanged by list / delist; the same through ops session / multi_session / clauses; "
             "non-trivial = T>=2 (functional), any derivative/start-index/re-use/off-grid case; distinct = sha1 of canonical case")


# ---------------------------------------------------------------------------------------------------------------------------
# the functionals are documented for price tensors of shape (*, T) -> (*): a single path (T,), scenarios x paths x time, ... ;
# the last axis is time, every other axis enumerates paths: one entry per path, each the contract value of that path

ND_BATCHES = [(), (), (1,), (1, 1), (2, 2), (3, 3), (2, 3), (3, 2), (1, 4), (4, 1), (2, 2, 2), (3, 3, 3), (2, 1, 3), (1, 2, 1, 2)]


def check_functional_nd(ctx, torch, g):
    import pfhedge.nn.functional as fnl
    cases, impl, reqs = [], [], []
    for _ in range(350 if ctx.tier == "quick" else 5000):
        batch = g.choice(ND_BATCHES)
        if g.chance(0.3) and batch:
            batch = batch[:-1] + (g.choice([1, 2, 3, 5]),)
        N = 1
        for b in batch:
            N *= b
        c = gen_case(g, "quick", N=N)
        T = len(c["paths"][0])
        if g.chance(0.35) and batch:
            # the time axis as long as a path axis: reading the wrong axis gives a tensor of the right size with other values
            T = g.choice(batch)
            c["paths"] = gen_paths(g, N, T, 3, pow2=(c["kind"] == "forward_start"))
            if c["kind"] == "forward_start":
                c["start"], c["stop"] = g.randint(-T, T - 1), g.choice([-1, -1, g.randint(-T, T - 1)])
            else:
                c["strike"] = g.choice([p[-1] for p in c["paths"]] + [max(p) for p in c["paths"]] + [g.dy(F(1, 4), 4, 3)])
        layout = g.choice(["contiguous", "contiguous", "permuted", "strided"]) if len(batch) >= 2 else "contiguous"
        c["batch"], c["layout"] = list(batch), layout
        dt = getattr(torch, c["dtype"])
        x = torch.tensor([[float(v) for v in p] for p in c["paths"]], dtype=dt).reshape(tuple(batch) + (T,))
        if layout == "permuted":
            # the same values, the memory laid out with the time axis first (a non-contiguous view)
            nd = x.dim()
            x = x.permute(nd - 1, *range(nd - 1)).contiguous().permute(*range(1, nd), 0)
        elif layout == "strided":
            # every second column of a tensor twice as long (a non-contiguous time axis)
            wide = torch.zeros(tuple(batch) + (2 * T,), dtype=dt)
            wide[..., ::2] = x
            x = wide[..., ::2]
        k = float(c["strike"])
        if c["kind"] == "forward_start":
            st, v, mut = call_impl(fnl.european_forward_start_payoff, x, strike=k, start_index=c["start"], end_index=c["stop"])
        else:
            st, v, mut = call_impl(getattr(fnl, c["kind"] + "_payoff"), x, call=c["call"], strike=k)
        req = to_req(c)
        case = req | {"dtype": c["dtype"], "batch": list(batch), "layout": layout}
        if mut:
            ctx.mutated("functional." + c["kind"] + "_payoff", mut, case)
        ctx.case(case, nontrivial=True, tag="nd_" + c["kind"])
        ctx.stats[f"nd:dims={len(batch) + 1}"] += 1
        ctx.stats[f"nd:layout={layout}"] += 1
        ctx.traces += 1
        cases.append((c, case))
        reqs.append(req)
        if st != "ok":
            impl.append(("err", v))
            ctx.fail(f"{c['kind']}_payoff raised on a price tensor of shape {list(batch) + [T]} (documented: (*, T) -> (*))", case,
                     key=f"functional.{c['kind']}_payoff:nd-error", detail=v)
            continue
        if tuple(v.shape) != tuple(batch) or v.dtype != dt:
            impl.append(("badshape", [list(v.shape), str(v.dtype)]))
            ctx.fail(f"{c['kind']}_payoff on a price tensor of shape {list(batch) + [T]} does not have one entry per path "
                     f"(shape {list(batch)})", case, key=f"functional.{c['kind']}_payoff:nd-shape",
                     detail=[list(v.shape), str(v.dtype)])
            continue
        got = tensor_to_fracs(v.reshape(-1))
        impl.append(("ok", got))
        exp = [contract(c["kind"], c["call"], c["strike"], p, c["start"], c["stop"]) for p in c["paths"]]
        if got != exp:
            ctx.fail(f"{c['kind']}_payoff on a price tensor of shape {list(batch) + [T]}: an entry is not the contract value of its path",
                     case, key=f"functional.{c['kind']}_payoff:nd-value", detail={"impl": enc_rat(got), "contract": enc_rat(exp)})
    try:
        model = [mres(m) for m in ctx.driver(reqs)]
    except DriverBroken as e:
        ctx.ties_broken.append({"kind": "driver", "detail": str(e)[:1500]})
        model = []
    for (c, case), ri, rm in zip(cases, impl, model):
        if ri != rm:
            ctx.disagree("payoff_nd", case, ri if ri[0] != "ok" else ("ok", enc_rat(ri[1])),
                         rm if rm[0] != "ok" else ("ok", enc_rat(rm[1])))
    # realized variance / volatility (the variance swap's floating leg), same shapes: Float carrier, tolerance as for op var_swap
    vreqs, vmeta = [], []
    for _ in range(60 if ctx.tier == "quick" else 800):
        batch = g.choice(ND_BATCHES)
        N = 1
        for b in batch:
            N *= b
        T = g.choice([2, 2, 3, 5] + [b for b in batch if b >= 2])
        paths = gen_paths(g, N, T, 3)
        dtv = float(g.choice([F(1, 4), F(1, 8), F(1, 256), F(1, 2)]))
        x = torch.tensor([[float(v) for v in p] for p in paths], dtype=torch.float64).reshape(tuple(batch) + (T,))
        case = {"realized": True, "batch": list(batch), "dt": dtv, "paths": enc_rat(paths)}
        ctx.case(case, True, tag="nd_realized_variance")
        ctx.traces += 1
        res = {}
        for name in ("realized_variance", "realized_volatility"):
            st, v, mut = call_impl(getattr(fnl, name), x, dt=dtv)
            if st != "ok" or tuple(v.shape) != tuple(batch):
                ctx.fail(f"{name} raised / does not have one entry per path on a price tensor of shape {list(batch) + [T]}", case,
                         key=f"functional.{name}:nd-shape", detail=v if st != "ok" else list(v.shape))
                continue
            res[name] = [float(z) for z in v.reshape(-1).tolist()]
            for p, got in zip(paths, res[name]):
                lr = [math.log(float(p[i + 1])) - math.log(float(p[i])) for i in range(len(p) - 1)]
                exp = sum(z * z for z in lr) / len(lr) / dtv
                exp = exp if name == "realized_variance" else math.sqrt(exp)
                if abs(got - exp) > 1e-9 * (1 + abs(exp)):
                    ctx.fail(f"{name} on a price tensor of shape {list(batch) + [T]} is not the annualised mean squared log-return "
                             "of its path", case, key=f"functional.{name}:nd-value", detail={"impl": got, "def": exp})
                    break
        if len(res) == 2:
            vreqs.append({"op": "var_swap", "dt": float_bits(dtv), "strike": float_bits(0.0),
                          "paths": enc_flt([[float(z) for z in p] for p in paths])})
            vmeta.append((case, res))
    try:
        vouts = ctx.driver(vreqs)
    except DriverBroken as e:
        ctx.ties_broken.append({"kind": "driver", "detail": str(e)[:1500]})
        vouts = []
    for (case, res), m in zip(vmeta, vouts):
        for name, field in (("realized_variance", "payoff"), ("realized_volatility", "rvol")):
            mv = dec_flt(m[field])
            if len(mv) != len(res[name]) or not all(abs(a - b) <= 1e-10 * (1 + abs(a)) for a, b in zip(res[name], mv)):
                ctx.disagree("var_swap_nd:" + name, case, res[name], mv)


# ---------------------------------------------------------------------------------------------------------------------------
# ONE derivative object, a sequence of changes, payoff() after every change: the contract is the one at the CURRENT terms on
# the CURRENT prices (nothing of an earlier evaluation may survive)

BAD_NAMES = ["strike", "payoff", "maturity", "a.b", ""]          # add_clause refuses these (KeyError): attribute / "." / empty
ATTR_CANDIDATES = ["strike", "payoff", "maturity", "a", "b", "c", "z", "knock", "call", "start", "underlier", "cost", "pricer"]


def gen_reuse_ops(g, c):
    """a history of operations on ONE object.  Kinds: strike / call (toggle, same, true, false) / start / spot (in-place cell edits,
    Python indices incl. negative ones) / badcell (index outside the buffer: IndexError, nothing changes) / reregister (a new buffer
    object, possibly of another shape) / simulate (the library replaces the buffer; the prices are then overwritten in place) /
    clause (affine, cap, floor, knock_out on the current path maximum) / badclause (refused name: KeyError, nothing changes) /
    list / delist (list(pricer, cost) / delist(): no contract term, no clause, no price changes) /
    swap (the underlier is REPLACED: a new instrument object with its own prices, assigned by attribute or registered under the
    name "underlier") / extra (a further underlier "fx" / "collateral" is registered or replaced) /
    again (payoff() once more); ["quiet", op] = the operation is NOT followed by a payoff() call"""
    kind = c["kind"]
    paths = [list(p) for p in c["paths"]]
    T0 = len(paths[0])
    pow2 = kind == "forward_start"
    vs = kind == "variance_swap"
    ops = []
    descs = [list(d) for _, d in c["adds"]]          # clauses registered so far (whatever the name)
    for _ in range(g.choice([1, 2, 3, 4, 6, 10])):
        N, T = len(paths), len(paths[0])
        menu = [("strike", 4), ("again", 1), ("reregister", 1), ("simulate", 1), ("badcell", 1), ("swap", 2), ("extra", 1), ("listing", 2)]
        if T > 0:
            menu.append(("spot", 3))
        if kind not in ("forward_start", "variance_swap"):
            menu.append(("call", 3))
        if kind == "forward_start":
            menu.append(("start", 3))
        if not vs:
            menu.append(("clause", 2))
            menu.append(("badclause", 1))
        op = g.weighted(menu)
        if op == "strike":
            if pow2:
                o = ["strike", rat_str(g.choice([F(1, 4), F(1, 2), F(1), F(2), F(3, 4)]))]
            else:
                o = ["strike", rat_str(g.choice([p[-1] for p in paths if p] + [g.dy(F(1, 4), 4, 3)] * 2))]
        elif op == "call":
            o = ["call", g.weighted([("toggle", 6), ("same", 2), ("true", 1), ("false", 1)])]
        elif op == "start":
            if T > 0 and g.chance(0.8):
                o = ["start", g.randint(0, T - 1)]
            else:
                o = ["start", g.choice([-1, -T, T, T + 1, -T - 1])]       # Python index from the end / outside the buffer
        elif op == "spot":
            cells = []
            for _ in range(g.choice([1, 1, 2, N * T])):
                v = F(2) ** g.randint(-2, 2) if pow2 else g.dy(F(1, 4), 4, 3)
                i, j = g.randint(-N, N - 1), g.choice([T - 1, -1, g.randint(-T, T - 1)])
                paths[i][j] = v
                cells.append([i, j, rat_str(v)])
            o = ["spot", cells]
        elif op == "badcell":
            i, j = g.choice([(N, 0), (-N - 1, 0), (0, T), (0, -T - 1), (N + 2, T + 2)])
            o = ["badcell", [[i, j, rat_str(F(3, 2))]]]
        elif op == "listing":
            # the derivative becomes a hedging instrument / a private contract again: nothing of the contract changes
            o = ["list", g.choice(PRICER_FORMS), g.choice(LIST_COSTS)] if g.chance(0.5) else ["delist"]
        elif op == "extra":
            # a further underlier (or another instrument under the name of a further underlier): the contract does not change
            o = ["extra", g.choice(["fx", "fx", "collateral"]), g.choice(["attr", "register"]),
                 enc_rat(gen_paths(g, N, T if T > 0 else 2, 3, pow2=pow2))]
        elif op in ("reregister", "simulate", "swap"):
            if op == "simulate":
                N2, T2 = (N if g.chance(0.5) else g.small()), T0          # maturity fixes the number of columns
            else:
                N2 = N if g.chance(0.6) else g.small()
                T2 = T if (T > 0 and g.chance(0.6)) else g.choice([2, 3, 5] if vs else [1, 2, 3, 5])
                if not vs and g.chance(0.04):
                    T2 = 0                                                # an empty time axis: payoff() must raise
            paths = gen_paths(g, N2, T2, 3, pow2=pow2)
            o = [op, enc_rat(paths)]
            if op == "swap":
                o.append(g.choice(["attr", "attr", "register"]))         # d.underlier = new / d.register_underlier("underlier", new)
        elif op in ("clause", "badclause"):
            ck = g.choice(["affine", "cap", "floor", "knock_out"])
            if descs and g.chance(0.35):
                d = list(g.choice(descs))                # the SAME clause once more: under a new name, or replacing another one
            elif ck == "affine":
                d = ["affine", rat_str(g.choice([F(1, 2), F(2), F(-1)])), rat_str(g.choice([F(0), F(1, 2), F(-1, 4)]))]
            elif ck == "knock_out":
                d = ["knock_out", rat_str(g.choice([max(p) for p in paths if p] + [g.dy(F(1, 4), 4, 3), F(2), F(4)]))]
            else:
                d = [ck, rat_str(g.dy(0, 2, 2))]
            o = [op, g.choice(["a", "b", "z"]) if op == "clause" else g.choice(BAD_NAMES), d]
            if op == "clause":
                descs.append(list(d))
        else:
            o = ["again"]
        ops.append(["quiet", o] if (o[0] != "again" and g.chance(0.2)) else o)
    return ops


def reuse_expected(cur):
    """the property statement at the current terms / prices: exact Fractions, floats (tolerance) for the variance swap.
    IndexError = no contract value (start index / terminal price outside the buffer)"""
    if cur["kind"] == "variance_swap":
        out = []
        for p in cur["paths"]:
            lr = [math.log(float(p[i + 1])) - math.log(float(p[i])) for i in range(len(p) - 1)]
            out.append(sum(x * x for x in lr) / len(lr) / float(cur["dt"]) - float(cur["strike"]))
        return out
    start = cur["sidx"] if cur["kind"] == "forward_start" else 0
    base = [contract(cur["kind"], cur["call"], cur["strike"], p, start, -1) for p in cur["paths"]]
    return [apply_clauses_py(cur["adds"], b, path=p)[1] for b, p in zip(base, cur["paths"])]


def _through(d, stock, ref):
    """the instrument a price edit is addressed to: the variable, the name, the position"""
    return stock if ref[0] == "id" else (d.get_underlier(ref[1]) if ref[0] == "name" else d.ul(ref[1]))


def check_reuse(ctx, torch, g):
    sreqs, smeta = [], []
    mrecs = []
    for _ in range(160 if ctx.tier == "quick" else 2500):
        c = gen_deriv(g, ctx.tier)
        if c["kind"] == "variance_swap":
            c["adds"] = []
        ops = gen_reuse_ops(g, c)
        case = _small(c) | {"ops": ops}
        ctx.case(case, nontrivial=True, tag="reuse_" + c["kind"])
        ctx.traces += 1
        ctx.stats[f"reuse:nops={len(ops)}"] += 1
        pool = ClausePool(c["cform"], c["share"])       # one pool for the whole session: a repeated clause is the same callable
        # ---- and for the multi-underlier session model (Model/MultiSession.lean, driver op "multi_session"): every instrument a
        # number, the registrations / re-assignments as they are, the price edits through a reference (variable / name / position)
        rec = MultiRec(c["kind"], flt=(c["kind"] == "variance_swap"))
        try:
            d, stock, reg = build_deriv(torch, c, pool, rec=rec)
        except Exception as e:  # noqa
            if c["hist"] != "direct":
                ctx.fail("registering a further underlier / re-assigning an underlier of a derivative raised", _small(c),
                         key="derivative.underliers:registration-error", detail=canon_error(e))
                continue
            raise InternalError("cannot build derivative: " + repr(e))
        ctx.stats[f"reuse:history={c['hist']}"] += 1
        cur = dict(kind=c["kind"], call=c["call"], strike=c["strike"], paths=[list(p) for p in c["paths"]],
                   adds=[list(a) for a in c["adds"]], sidx=c["sidx"], dt=c["dt"])
        # ---- the same session for the Lean model (Model/Session.lean, driver op "session"): `mops` = model operations in the
        # order they were carried out on the real object, `iouts` = what the real object showed for each of them
        flt = c["kind"] == "variance_swap"
        enc = (lambda q: float_bits(float(F(q)))) if flt else (lambda q: rat_str(F(q)))
        encd = lambda desc: [desc[0]] + [enc(x) for x in desc[1:]]      # noqa
        sreq = {"op": "session", "carrier": "float" if flt else "rat", "kind": c["kind"], "strike": enc(c["strike"]),
                "call": c["call"], "start": c["sidx"], "dt": enc(c["dt"]), "spot": [[enc(v) for v in p] for p in c["paths"]],
                "attrs": [n for n in ATTR_CANDIDATES if hasattr(d, n)]}
        mops = [["clause", n, encd(desc)] for n, desc in c["adds"]]        # build_deriv registered them (valid names)
        iouts = [None] * len(mops)
        for step, op in enumerate([["initial"]] + ops):
            quiet = op[0] == "quiet"
            if quiet:
                op = op[1]
            what = op[0]
            # how this step's price edits reach the instrument (all three are the current underlier)
            ref = [["id", rec.known(stock)], ["name", "underlier"], ["pos", 0]][(step + len(ops)) % 3]
            with torch.no_grad():
                if what == "strike":
                    cur["strike"] = F(op[1])
                    d.strike = float(cur["strike"])
                    mops.append(["strike", enc(op[1])]); iouts.append(None)
                    rec.op(["strike", enc(op[1])], None)
                elif what == "call":
                    if op[1] == "toggle":
                        cur["call"] = not cur["call"]
                        d.call = not d.call                      # the object's own flag is read and written back
                        mops.append(["toggle"])
                    else:
                        cur["call"] = {"same": cur["call"], "true": True, "false": False}[op[1]]
                        d.call = cur["call"]
                        mops.append(["call", cur["call"]])
                    iouts.append(None)
                    rec.op(list(mops[-1]), None)
                elif what == "start":
                    cur["sidx"] = op[1]
                    d.start = op[1] * float(c["dt"])
                    mops.append(["start", op[1]]); iouts.append(None)
                    rec.op(["start", op[1]], None)
                elif what in ("spot", "badcell"):
                    for i, j, v in op[1]:
                        try:
                            cur["paths"][i][j] = F(v)           # Python list indexing: the oracle's own reading
                        except IndexError:
                            pass
                        try:
                            _through(d, stock, ref).spot[i, j] = float(F(v))      # in place: the buffer object stays the same
                            iouts.append(None)
                        except Exception as e:  # noqa
                            iouts.append(("err", canon_error(e)))
                        mops.append(["cell", i, j, enc(v)])
                        rec.op(["cell", ref, i, j, enc(v)], iouts[-1])
                elif what in ("reregister", "simulate"):
                    cur["paths"] = [[F(v) for v in p] for p in op[1]]
                    new = torch.tensor([[float(v) for v in p] for p in cur["paths"]], dtype=torch.float64).reshape(
                        len(cur["paths"]), len(cur["paths"][0]))
                    if what == "simulate":
                        d.simulate(n_paths=len(cur["paths"]))   # the library replaces the buffer ...
                        if tuple(stock.spot.shape) == tuple(new.shape):
                            stock.spot.copy_(new)               # ... and the prices are overwritten in place
                        else:
                            stock.register_buffer("spot", new)
                        # (simulate() re-simulates EVERY registered underlier: the model is told their new prices)
                        for o in d.underliers():
                            if o is not stock and rec.known(o) is not None:
                                rec.op(["swap_buffer", ["id", rec.known(o)], rec.rows([[F(z) for z in r] for r in o.spot.tolist()])], None)
                    else:
                        _through(d, stock, ref).register_buffer("spot", new)
                    mops.append(["reregister", [[enc(v) for v in p] for p in cur["paths"]]]); iouts.append(None)
                    rec.op(["swap_buffer", ["id", rec.known(stock)] if what == "simulate" else ref, rec.rows(cur["paths"])], None)
                elif what == "swap":
                    # the underlier is replaced by ANOTHER instrument (same step size) with its own prices; for the model: the
                    # one price buffer the contract reads is a new one
                    cur["paths"] = [[F(v) for v in p] for p in op[1]]
                    stock = new_stock(torch, cur["paths"], c["dt"])
                    st, v, _ = call_impl(setattr, d, "underlier", stock) if op[2] == "attr" else \
                        call_impl(d.register_underlier, "underlier", stock)
                    rec.op(["assign" if op[2] == "attr" else "register", "underlier", rec.new(stock, cur["paths"])],
                           None if st == "ok" else ("err", v))
                    if st != "ok":
                        ctx.fail("replacing the underlier of a derivative raised", case | {"step": step, "how": op[2]},
                                 key="derivative.underliers:registration-error", detail=v)
                        break
                    reg[0][1] = stock
                    mops.append(["reregister", [[enc(v) for v in p] for p in cur["paths"]]]); iouts.append(None)
                elif what == "extra":
                    other = new_stock(torch, dec_rat(op[3]), c["dt"])
                    st, v, _ = call_impl(setattr, d, op[1], other) if op[2] == "attr" else call_impl(d.register_underlier, op[1], other)
                    rec.op(["assign" if op[2] == "attr" else "register", op[1], rec.new(other, dec_rat(op[3]))],
                           None if st == "ok" else ("err", v))
                    if st != "ok":
                        ctx.fail("registering a further underlier of a derivative raised", case | {"step": step, "name": op[1], "how": op[2]},
                                 key="derivative.underliers:registration-error", detail=v)
                        break
                    if op[1] in [n for n, _ in reg]:
                        [r for r in reg if r[0] == op[1]][0][1] = other
                    else:
                        reg.append([op[1], other])
                    # (nothing the ONE-buffer model knows of: the contract and its prices are as before)
                elif what == "list":
                    do_list(torch, d, op)          # (nothing the models know of: no step of the clause registry / the contract)
                elif what == "delist":
                    d.delist()
                elif what in ("clause", "badclause"):
                    if op[1] != "" and "." not in op[1] and op[1] not in ("strike", "payoff", "maturity"):
                        cur["adds"].append([op[1], op[2]])
                    try:
                        d.add_clause(op[1], pool.get(op[2]))
                        iouts.append(None)
                    except Exception as e:  # noqa
                        iouts.append(("err", canon_error(e)))
                    mops.append(["clause", op[1], encd(op[2])])
                    rec.op(["clause", op[1], encd(op[2])], iouts[-1])
                ctx.stats[f"reuse:op={what}"] += 1
                badreg = registry_wrong(d, reg) if what in ("initial", "swap", "extra") else None
                if what in ("initial", "swap", "extra"):
                    rec.views(d)
                if badreg:
                    ctx.fail("the underlier registry of a derivative does not list its underliers in the order in which their names were "
                             "registered (an underlier replaced after construction keeps its position; ul() is what the payoff reads)",
                             case | {"step": step, "after": op[:3], "registered": reg_show(reg)},
                             key="derivative.underliers:registration-order", detail=badreg)
                if quiet:
                    ctx.stats["reuse:quiet"] += 1
                    continue
                st, v, mut = call_impl(d.payoff, watch=[("derivative", d)])
            mops.append(["query"])
            rec.query(st, v)
            if st != "ok":
                iouts.append(("err", v))
            elif flt:
                iouts.append(("ok", [float(z) for z in v.reshape(-1).tolist()]))
            else:
                iouts.append(("ok", tensor_to_fracs(v.reshape(-1))))
            if mut:
                ctx.mutated("derivative.payoff", mut, case)
            here = case | {"step": step, "after": op, "strike_now": rat_str(cur["strike"]), "call_now": cur["call"],
                           "sidx_now": cur["sidx"], "paths_now": enc_rat(cur["paths"])}
            try:
                exp = reuse_expected(cur)
            except IndexError:
                # the contract has no value here (start index / terminal price outside the buffer): nothing for the predicate;
                # what the object does then (raise) is compared with the model through the session below
                ctx.stats["reuse:no-contract-value"] += 1
                continue
            if st != "ok" or tuple(v.shape) != (len(cur["paths"]),):
                ctx.fail("payoff() on a re-used derivative object raised / has the wrong shape", here,
                         key=f"derivative.{c['kind']}.payoff:reuse-error", detail=v if st != "ok" else list(v.shape))
                break
            if c["kind"] == "variance_swap":
                got = [float(z) for z in v.tolist()]
                ok = all(abs(a - b) <= 1e-9 * (1 + abs(b)) for a, b in zip(got, exp))
                det = {"impl": got, "contract": exp}
            else:
                got = tensor_to_fracs(v)
                ok = got == exp
                det = {"impl": enc_rat(got), "contract": enc_rat(exp)}
                if not ok and c["kind"] == "forward_start" and d._start_index() != cur["sidx"]:
                    ctx.fail("forward-start option starts at the wrong time index: floor(start/dt) in doubles lands one index early",
                             here | {"start_index": d._start_index()}, key="cliquet._start_index:floor(start/dt)", detail=det)
                    break
            if not ok and same_clause_twice(cur["adds"]):
                ctx.fail("payoff() of a re-used derivative object is not the contract payoff at its CURRENT terms on the CURRENT prices: "
                         "one clause is registered under several names and applies once per registration, in registration order", here,
                         key="derivative.payoff:reuse-same-clause-twice", detail=det)
                break
            if not ok:
                ctx.fail("payoff() of a re-used derivative object is not the contract payoff at its CURRENT terms on the CURRENT prices "
                         f"(after: {what}; something of an earlier evaluation survived?)", here,
                         key=f"derivative.payoff:reuse-after-{what}", detail=det)
                break
        # the object as it is now (whatever was carried out), for the comparison with the model's final state
        fin = {"strike": F(d.strike), "names": [n for n, _ in d.named_clauses()],
               "spot": [[F(z) for z in r] for r in stock.spot.tolist()]}
        if hasattr(d, "call"):
            fin["call"] = bool(d.call)
        if c["kind"] == "forward_start":
            fin["start"] = d._start_index()
        sreqs.append(sreq | {"ops": mops})
        smeta.append((case, iouts, fin, flt))
        mfin = {k: v for k, v in fin.items() if k in ("strike", "call", "start")}
        mrecs.append((case, rec, rec.final(d, **mfin)))
    # ---------------- every payoff() answer (and every refused operation) of the real object against the model's session
    sess_compare(ctx, sreqs, smeta)
    # ---------------- the same sessions, registrations and re-assignments included, against the multi-underlier session model
    ms_compare(ctx, mrecs)


def sess_compare(ctx, sreqs, smeta):
    """smeta: [(case, outputs of the real object, its final state, float carrier?)]: every payoff() answer (and every refused operation)
    of the real object against the model's session (driver op "session")"""
    try:
        souts = ctx.driver(sreqs)
    except DriverBroken as e:
        ctx.ties_broken.append({"kind": "driver", "detail": str(e)[:1500]})
        souts = []
    for (case, iouts, fin, flt), req, m in zip(smeta, sreqs, souts):
        mops = req["ops"]
        ctx.stats[f"session:carrier={req['carrier']}"] += 1
        for o in mops:
            ctx.stats[f"session:op={o[0]}"] += 1
        mo = m.get("outs")
        if mo is None or len(mo) != len(iouts):
            ctx.disagree("session", case | {"model_ops": mops}, _sess_show(iouts, flt), m, note="no / wrong number of outputs")
            continue
        for k, (a, b) in enumerate(zip(iouts, mo)):
            ctx.stats["session:out=" + ("none" if a is None else a[0])] += 1
            if not _sess_same(a, b, flt):
                ctx.disagree("session", case | {"model_ops": mops, "at": k, "model_op": mops[k]}, _sess_show([a], flt)[0],
                             {"ok": dec_flt(b["ok"])} if (flt and isinstance(b, dict) and "ok" in b) else b,
                             note=f"output {k} of the session differs")
                break
        else:
            mf = m["final"]
            dec = (lambda x: F(float_of_bits(x))) if flt else F
            got = {"strike": dec(mf["strike"]), "names": mf["names"], "spot": [[dec(z) for z in r] for r in mf["spot"]]}
            if "call" in fin:
                got["call"] = mf["call"]
            if "start" in fin:
                got["start"] = mf["start"]
            if got != fin:
                ctx.disagree("session", case | {"model_ops": mops}, {k: str(v) for k, v in fin.items()},
                             {k: str(v) for k, v in got.items()}, note="final state of the object differs")


def _sess_same(a, b, flt):
    """one output of the real object (None | ("ok", values) | ("err", kind)) against the model's (null | {"ok":..} | {"err":..})"""
    if a is None or b is None:
        return a is None and b is None
    if a[0] == "err":
        return b.get("err") == a[1]
    if "ok" not in b or len(b["ok"]) != len(a[1]):
        return False
    if flt:       # log in the payoff: libm vs torch kernels, compared with a tolerance like the op "var_swap"
        return all(abs(x - y) <= 1e-10 * (1 + abs(x)) for x, y in zip(a[1], dec_flt(b["ok"])))
    return a[1] == dec_rat(b["ok"])


def _sess_show(outs, flt):
    return [o if (o is None or o[0] == "err") else ("ok", o[1] if flt else enc_rat(o[1])) for o in outs]


# ---------------------------------------------------------------------------------------------------------------------------
# forward-start options on SIMULATED paths; the maturity need not be a whole number of steps: the terminal price is the LAST
# simulated price (IEEE division / subtraction are correctly rounded: float64 payoffs are compared exactly with Python doubles)

def check_offgrid_maturity(ctx, torch, g):
    import pfhedge.instruments as I
    for _ in range(120 if ctx.tier == "quick" else 2000):
        dtv = g.choice([1 / 250, 1 / 250, 0.01, 1 / 52, 1 / 365, 1 / 12, 0.1, 1 / 8])
        whole = g.randint(1, 12)
        frac = g.choice([0, 0.5, 0.5, 0.25, 0.75, 0.1, 0.9])
        mat = (whole + frac) * dtv
        sidx = g.randint(0, whole)
        K = g.choice([1.0, 1.0, 0.99, 1.01, 0.5, 0.9])
        N = g.choice([1, 3, 8])
        seed = g.randint(0, 10 ** 6)
        init = g.choice([None, None, None, 1.25, 0.75])
        sigma = g.choice([0.2, 0.3, 1.0])
        hist = g.weighted(HIST_WEIGHTS)
        case = {"dt": dtv, "maturity": mat, "steps": whole + frac, "start_step": sidx, "strike": K, "n_paths": N, "seed": seed,
                "init": init, "sigma": sigma}
        if hist != "direct":
            case["history"] = [list(z) for z in HIST[hist]]       # the other instruments: BrownianStock(sigma=0.4) of the same step size
        ctx.case(case, nontrivial=True, tag="offgrid_maturity" if frac else "ongrid_maturity")
        ctx.traces += 1
        ctx.stats[f"offgrid:frac={frac}"] += 1
        ctx.stats[f"offgrid:history={hist}"] += 1
        stock = I.BrownianStock(sigma=sigma, dt=dtv, dtype=torch.float64)
        assets = {"S": stock} | {key: I.BrownianStock(sigma=0.4, dt=dtv, dtype=torch.float64) for key in hist_assets(hist)}
        d, reg = make_with_history(hist, lambda ul: I.EuropeanForwardStartOption(ul, strike=K, maturity=mat, start=sidx * dtv), assets)
        badreg = registry_wrong(d, reg)
        if badreg:
            ctx.fail("the underlier registry of a derivative does not list its underliers in the order in which their names were "
                     "registered (an underlier replaced after construction keeps its position; ul() is what the payoff reads)",
                     case | {"registered": reg_show(reg)}, key="derivative.underliers:registration-order", detail=badreg)
        torch.manual_seed(seed)
        d.simulate(n_paths=N, init_state=None if init is None else (init,))
        xs = [[float(z) for z in r] for r in stock.spot.tolist()]
        with torch.no_grad():
            st, v, mut = call_impl(d.payoff, watch=[("derivative", d)])
        if mut:
            ctx.mutated("derivative.payoff", mut, case)
        case = case | {"n_columns": len(xs[0])}
        if st != "ok" or tuple(v.shape) != (N,) or v.dtype != torch.float64:
            ctx.fail("forward-start payoff() raised / wrong shape on a simulated path", case,
                     key="derivative.forward_start.payoff:simulated-error", detail=v if st != "ok" else [list(v.shape), str(v.dtype)])
            continue
        if len(xs[0]) <= sidx:
            continue            # the simulated grid is the subject of another property; nothing to evaluate here
        got = [float(z) for z in v.tolist()]
        exp = [max(r[-1] / r[sidx] - K, 0.0) for r in xs]
        if got != exp:
            if badreg:
                ctx.fail("forward-start payoff on simulated paths is not the contract on the instrument registered as `underlier` (several "
                         "registered underliers, one re-assigned after construction)", case,
                         key="derivative.forward_start.payoff:simulated-wrong-underlier",
                         detail={"impl": got, "contract": exp, "registry": badreg})
            elif d._start_index() != sidx:
                ctx.fail("forward-start option starts at the wrong time index: floor(start/dt) in doubles lands one index early",
                         case | {"start_index": d._start_index()}, key="cliquet._start_index:floor(start/dt)",
                         detail={"impl": got, "contract": exp})
            else:
                ctx.fail("forward-start payoff on a simulated path is not max(S_T/S_start - K, 0) with S_T the TERMINAL (last simulated) "
                         "price" + (" - maturity between two grid points" if frac else ""), case,
                         key="derivative.forward_start.payoff:terminal-price" + ("-offgrid" if frac else ""),
                         detail={"impl": got, "contract": exp, "paths": xs})
            continue
        if sidx == 0 and init is None:
            # S_0 = 1 exactly: S_T / S_0 - K = S_T - K, the European call on the same path
            eu = [float(z) for z in I.EuropeanOption(stock, call=True, strike=K, maturity=mat).payoff().tolist()]
            if eu != got:
                ctx.fail("forward-start option with start=0 (S_0 = 1) differs from the European call on the same simulated path", case,
                         key="derivative.forward_start.payoff:start0-vs-european", detail={"forward_start": got, "european": eu})


# ---------------------------------------------------------------------------------------------------------------------------
# step sizes dt whose RECIPROCAL IS NOT A WHOLE NUMBER (calendar days 1/365.25, 0.03, 0.3, steps longer than a year, 7/250, ...): "annualised"
# means divided by dt, whatever dt is - the realized variance / volatility functionals with dt as a Python float and as a 0-dim tensor
# (double / single precision), the variance swap on an underlier of that step size (prices injected, with a construction history and
# clauses; prices simulated, whole and fractional numbers of steps), the same object re-used (strike, in-place price edit, new buffer),
# and the forward-start index floor(start/dt) at these step sizes.  Predicate: the contract by hand in Python doubles.  The same
# scenarios go to the model: ops "var_swap" (functionals, payoff_fn), "session" / "multi_session" (the re-used object, Float carrier),
# "grid" (start index).  The fixed list is part of every run; a few random step sizes are added.

STEP_SIZES = [1 / 365.25, 0.03, 0.3, 2.0, 7 / 250, 0.003, 1.5, 0.375, 0.7, 1 / 250]


def variance_by_hand(p, dtv):
    """annualised mean squared log-return of one path (Python doubles)"""
    lr = [math.log(p[i + 1]) - math.log(p[i]) for i in range(len(p) - 1)]
    return sum(z * z for z in lr) / len(lr) / dtv


def _close(got, exp, rel=1e-9, floor_=1.0):
    return len(got) == len(exp) and all(abs(a - b) <= rel * (floor_ + abs(b)) for a, b in zip(got, exp))


def check_step_sizes(ctx, torch, g):
    import pfhedge.nn.functional as fnl
    import pfhedge.instruments as I
    dts = [(dtv, True) for dtv in STEP_SIZES] + [(round(g.r.uniform(0.002, 2.5), g.choice([2, 3, 6])), False)
                                                 for _ in range(6 if ctx.tier == "quick" else 80)]
    dts = [(dtv, fixed) for dtv, fixed in dts if dtv > 0]
    vreqs, vmeta = [], []
    sreqs, smeta, mrecs = [], [], []
    greqs, gmeta = [], []
    fixed_paths = [[F(1), F(2), F(1, 2), F(1)], [F(1), F(1, 2), F(2), F(4)], [F(3, 2), F(3, 2), F(3, 2), F(3, 2)]]
    for dtv, fixed in dts:
        recip = 1.0 / dtv
        cls = "reciprocal-whole" if abs(recip - round(recip)) < 1e-9 * recip else "reciprocal-not-whole"
        # ---------------- the functionals: dt as a float / as a 0-dim tensor
        Tu = g.choice([2, 4, 9])
        sets = [("dyadic", fixed_paths, "float64"), ("dyadic", gen_paths(g, g.small(), g.choice([2, 3, 5, 21]), 3), "float64"),
                ("uniform", [[g.r.uniform(0.5, 1.6) for _ in range(Tu)] for _ in range(3)], "float64"),
                ("dyadic", gen_paths(g, 3, g.choice([2, 3, 6]), 3), "float32")]
        for form, paths, dtype in sets:
            fp = [[float(z) for z in p] for p in paths]
            single = g.chance(0.2)
            if single:
                fp = fp[:1]
            x = torch.tensor(fp, dtype=getattr(torch, dtype))
            x = x[0] if single else x
            for dform in ("float", "tensor0d-double", "tensor0d-single"):
                dt_arg = dtv if dform == "float" else torch.tensor(dtv, dtype=torch.float64 if dform == "tensor0d-double" else torch.float32)
                dt_val = float(dt_arg)           # the step size the call was given (single precision: its own value)
                case = {"step_size": dtv, "class": cls, "dt_given_as": dform, "dt_value": dt_val, "dtype": dtype, "prices": form,
                        "single_path": single, "paths": fp}
                ctx.case(case, True, tag="step_size_functional")
                ctx.traces += 1
                ctx.stats[f"step:{cls}"] += 1
                ctx.stats[f"step:dt-as={dform}"] += 1
                # float32 prices: the logarithms carry single-precision rounding (|error of a squared log-return| < 3e-6 on these prices)
                rel, floor_ = (1e-9, 1.0) if dtype == "float64" else (2e-5, 1.0 / dt_val)
                res = {}
                for name in ("realized_variance", "realized_volatility"):
                    st, v, mut = call_impl(getattr(fnl, name), x, dt=dt_arg)
                    if mut:
                        ctx.mutated("functional." + name, mut, case)
                    if st != "ok" or tuple(v.shape) != tuple(x.shape[:-1]):
                        ctx.fail(f"{name} raised / does not have one entry per path (step size given as {dform})", case,
                                 key=f"functional.{name}:step-size-shape", detail=v if st != "ok" else list(v.shape))
                        continue
                    got = [float(z) for z in v.reshape(-1).tolist()]
                    exp = [variance_by_hand(p, dt_val) for p in fp]
                    if name == "realized_volatility":
                        exp = [math.sqrt(z) for z in exp]
                        ok = _close(got, exp, rel, math.sqrt(floor_) if dtype != "float64" else 1.0)
                    else:
                        ok = _close(got, exp, rel, floor_)
                    if not ok:
                        ctx.fail(f"{name} is not the ANNUALISED mean squared log-return (mean of log(S_i+1/S_i)^2 divided by dt"
                                 + (", square root" if name == "realized_volatility" else "") + f") for the step size dt = {dt_val!r} "
                                 f"given as {dform}" + (": 1/dt is not a whole number" if cls == "reciprocal-not-whole" else ""), case,
                                 key=f"functional.{name}:step-size", detail={"impl": got, "def": exp})
                        continue
                    res[name] = got
                if len(res) == 2 and dtype == "float64":
                    vreqs.append({"op": "var_swap", "dt": float_bits(dt_val), "strike": float_bits(0.0), "paths": enc_flt(fp)})
                    vmeta.append((case, res["realized_variance"], res["realized_volatility"]))
        # ---------------- the variance swap on an underlier of this step size: injected prices (history, clauses), then the object re-used
        for rep in range(2 if fixed else 1):
            N, T = g.small(), g.choice([2, 3, 4, 6])
            adds = []
            for _ in range(g.choice([0, 0, 1, 2])):
                ck = g.choice(["affine", "cap", "floor"])
                adds.append([g.choice(["a", "b", "c"]), ["affine", rat_str(g.choice([F(1, 2), F(2), F(-1)])), rat_str(g.choice([F(0), F(1, 2)]))]
                             if ck == "affine" else [ck, rat_str(g.dy(0, 64, 0))]])
            hist = g.weighted(HIST_WEIGHTS)
            c = dict(kind="variance_swap", call=True, strike=F(g.choice([0.04, 0.0, 0.1, 1.0, 0.25])), paths=gen_paths(g, N, T, 3), adds=adds,
                     dt=F(dtv), sidx=0, cform=g.choice(CFORMS), share=g.chance(0.8), hist=hist,
                     others={key: gen_paths(g, N, T, 3) for key in hist_assets(hist)})
            case = _small(c) | {"step_size": dtv, "class": cls}
            ctx.case(case, True, tag="step_size_variance_swap")
            ctx.traces += 1
            ctx.stats[f"step:{cls}"] += 1
            rec = MultiRec("variance_swap", flt=True)
            pool = ClausePool(c["cform"], c["share"])
            try:
                d, stock, reg = build_deriv(torch, c, pool, rec=rec)
            except Exception as e:  # noqa
                raise InternalError("cannot build derivative: " + repr(e))
            enc = lambda q: float_bits(float(F(q)))      # noqa
            encd = lambda desc: [desc[0]] + [enc(z) for z in desc[1:]]      # noqa
            sreq = {"op": "session", "carrier": "float", "kind": "variance_swap", "strike": enc(c["strike"]), "call": True, "start": 0,
                    "dt": enc(c["dt"]), "spot": [[enc(v) for v in p] for p in c["paths"]], "attrs": [n for n in ATTR_CANDIDATES if hasattr(d, n)]}
            mops = [["clause", n, encd(desc)] for n, desc in c["adds"]]
            iouts = [None] * len(mops)
            cur = dict(strike=c["strike"], paths=[list(p) for p in c["paths"]])
            steps = [["initial"], ["strike", rat_str(F(g.choice([0.04, 0.5, 0.0, 2.0])))],
                     ["spot", [[g.randint(-N, N - 1), g.randint(-T, T - 1), rat_str(g.dy(F(1, 4), 4, 3))]]],
                     ["reregister", enc_rat(gen_paths(g, g.small(), g.choice([2, 3, 5]), 3))]]
            for step, op in enumerate(steps):
                ref = [["id", rec.known(stock)], ["name", "underlier"], ["pos", 0]][(step + N) % 3]
                with torch.no_grad():
                    if op[0] == "strike":
                        cur["strike"] = F(op[1])
                        d.strike = float(cur["strike"])
                        mops.append(["strike", enc(op[1])]); iouts.append(None)
                        rec.op(["strike", enc(op[1])], None)
                    elif op[0] == "spot":
                        for i, j, v in op[1]:
                            cur["paths"][i][j] = F(v)
                            _through(d, stock, ref).spot[i, j] = float(F(v))
                            mops.append(["cell", i, j, enc(v)]); iouts.append(None)
                            rec.op(["cell", ref, i, j, enc(v)], None)
                    elif op[0] == "reregister":
                        cur["paths"] = [[F(v) for v in p] for p in op[1]]
                        _through(d, stock, ref).register_buffer("spot", torch.tensor([[float(v) for v in p] for p in cur["paths"]], dtype=torch.float64))
                        mops.append(["reregister", [[enc(v) for v in p] for p in cur["paths"]]]); iouts.append(None)
                        rec.op(["swap_buffer", ref, rec.rows(cur["paths"])], None)
                    else:
                        badreg = registry_wrong(d, reg)
                        if badreg:
                            ctx.fail("the underlier registry of a derivative does not list its underliers in the order in which their names were "
                                     "registered (an underlier replaced after construction keeps its position; ul() is what the payoff reads)",
                                     case | {"registered": reg_show(reg)}, key="derivative.underliers:registration-order", detail=badreg)
                        rec.views(d)
                    st, v, mut = call_impl(d.payoff, watch=[("derivative", d)])
                    base = d.payoff_fn() if st == "ok" else None
                if mut:
                    ctx.mutated("derivative.payoff", mut, case)
                mops.append(["query"])
                rec.query(st, v)
                here = case | {"step": step, "after": op, "strike_now": rat_str(cur["strike"]), "paths_now": enc_rat(cur["paths"])}
                if st != "ok" or tuple(v.shape) != (len(cur["paths"]),):
                    iouts.append(("err", v) if st != "ok" else ("ok", [float(z) for z in v.reshape(-1).tolist()]))
                    ctx.fail("variance swap payoff() raised / does not have one entry per path", here,
                             key="derivative.variance_swap.payoff:step-size-error", detail=v if st != "ok" else list(v.shape))
                    break
                iouts.append(("ok", [float(z) for z in v.reshape(-1).tolist()]))
                fp = [[float(z) for z in p] for p in cur["paths"]]
                expb = [variance_by_hand(p, dtv) - float(cur["strike"]) for p in fp]
                gotb = [float(z) for z in base.tolist()]
                if not _close(gotb, expb):
                    ctx.fail("variance swap does not pay the ANNUALISED mean squared log-return (mean of log(S_i+1/S_i)^2 divided by the step "
                             f"size dt = {dtv!r} of its underlier) minus the strike" + (": 1/dt is not a whole number" if cls == "reciprocal-not-whole" else "")
                             + ("" if step == 0 else f" (object re-used: after {op[0]})"), here,
                             key="derivative.variance_swap.payoff:step-size" + ("" if step == 0 else "-reuse"), detail={"impl": gotb, "def": expb})
                    break
                expc = [apply_clauses_float(c["adds"], b) for b in gotb]
                gotc = [float(z) for z in v.tolist()]
                if gotc != expc:
                    ctx.fail("variance swap: payoff() differs from the registered clauses applied to payoff_fn() in registration order", here,
                             key="derivative.variance_swap.payoff:" + ("same-clause-twice" if same_clause_twice(c["adds"]) else "clauses"),
                             detail={"impl": gotc, "clauses(payoff_fn)": expc, "payoff_fn": gotb})
                    break
                vreqs.append({"op": "var_swap", "dt": float_bits(dtv), "strike": float_bits(float(cur["strike"])), "paths": enc_flt(fp)})
                vmeta.append((here, gotb, None))
            fin = {"strike": F(d.strike), "names": [n for n, _ in d.named_clauses()], "spot": [[F(z) for z in r] for r in stock.spot.tolist()]}
            sreqs.append(sreq | {"ops": mops})
            smeta.append((case, iouts, fin, True))
            mrecs.append((case, rec, rec.final(d, strike=fin["strike"])))
        # ---------------- simulated prices: the maturity a whole / fractional number of steps, double and single precision
        for dtype in ("float64", "float32"):
            steps_ = g.choice([1, 2, 5, 20]) + g.choice([0, 0, 0.5, 0.25])
            K, N, seed = g.choice([0.04, 0.0, 0.1]), g.choice([1, 3, 7]), g.randint(0, 10 ** 6)
            sigma = g.choice([0.2, 0.3, 1.0])
            hist = g.weighted(HIST_WEIGHTS)
            case = {"step_size": dtv, "class": cls, "simulated": True, "maturity": steps_ * dtv, "steps": steps_, "strike": K, "n_paths": N,
                    "seed": seed, "sigma": sigma, "dtype": dtype}
            if hist != "direct":
                case["history"] = [list(z) for z in HIST[hist]]
            ctx.case(case, True, tag="step_size_variance_swap_simulated")
            ctx.traces += 1
            stock = I.BrownianStock(sigma=sigma, dt=dtv, dtype=getattr(torch, dtype))
            assets = {"S": stock} | {key: I.BrownianStock(sigma=0.4, dt=dtv, dtype=getattr(torch, dtype)) for key in hist_assets(hist)}
            d, reg = make_with_history(hist, lambda ul: I.VarianceSwap(ul, strike=K, maturity=steps_ * dtv), assets)
            torch.manual_seed(seed)
            d.simulate(n_paths=N)
            with torch.no_grad():
                st, v, mut = call_impl(d.payoff, watch=[("derivative", d)])
            if mut:
                ctx.mutated("derivative.payoff", mut, case)
            fp = [[float(z) for z in r] for r in stock.spot.tolist()]
            case = case | {"n_columns": len(fp[0])}
            if st != "ok" or tuple(v.shape) != (N,):
                ctx.fail("variance swap payoff() raised / does not have one entry per path on simulated prices", case,
                         key="derivative.variance_swap.payoff:step-size-error", detail=v if st != "ok" else list(v.shape))
                continue
            got = [float(z) for z in v.tolist()]
            exp = [variance_by_hand(p, dtv) - K for p in fp]
            rel, floor_ = (1e-9, 1.0) if dtype == "float64" else (2e-5, 1.0 / dtv)
            if not _close(got, exp, rel, floor_):
                ctx.fail("variance swap on simulated prices does not pay the ANNUALISED mean squared log-return (divided by the step size "
                         f"dt = {dtv!r} of its underlier) minus the strike" + (": 1/dt is not a whole number" if cls == "reciprocal-not-whole" else ""),
                         case, key="derivative.variance_swap.payoff:step-size-simulated", detail={"impl": got, "def": exp, "paths": fp})
                continue
            if dtype == "float64":
                vreqs.append({"op": "var_swap", "dt": float_bits(dtv), "strike": float_bits(K), "paths": enc_flt(fp)})
                vmeta.append((case, got, None))
        # ---------------- the forward-start index at this step size: start on and off the grid
        for kk in ([0, 1, 2, 3, 7, 20] if fixed else [g.randint(0, 60)]):
            for frac in (0, 0.25, 0.5, 0.9):
                start = (kk + frac) * dtv
                o = I.EuropeanForwardStartOption(I.BrownianStock(dt=dtv), start=start, maturity=start + 10 * dtv)
                greqs.append({"op": "grid", "m": float_bits(start), "dt": float_bits(dtv), "start": float_bits(start)})
                gmeta.append((start, dtv, o._start_index(), kk, frac))
    try:
        vouts, gouts = ctx.driver(vreqs), ctx.driver(greqs)
    except DriverBroken as e:
        ctx.ties_broken.append({"kind": "driver", "detail": str(e)[:1500]})
        vouts, gouts = [], []
    for (case, var, vol), m in zip(vmeta, vouts):
        for got, field in ((var, "payoff"), (vol, "rvol")):
            if got is not None and not _close(got, dec_flt(m[field]), 1e-10):
                ctx.disagree("var_swap_step_size:" + field, case, got, dec_flt(m[field]))
    for (start, dtv, got, kk, frac), m in zip(gmeta, gouts):
        case = {"start": start, "dt": dtv, "k": kk, "frac": frac, "step_size_sweep": True}
        ctx.case(case, True, tag="start_index")
        ctx.traces += 1
        if m["start_shipped"] != got:
            ctx.disagree("start_index", case, got, m["start_shipped"])
        ratio = F(start) / F(dtv)
        near = round(ratio)
        want = near if abs(ratio - near) <= F(1, 10 ** 9) * max(1, abs(near)) else math.floor(ratio)
        if got != want:
            ctx.fail("forward-start option starts at the wrong time index: floor(start/dt) in doubles lands one index early",
                     case | {"start_index": got, "expected": want}, key="cliquet._start_index:floor(start/dt)", detail={"ratio": float(ratio)})
    sess_compare(ctx, sreqs, smeta)
    ms_compare(ctx, mrecs)


# ---------------------------------------------------------------------------------------------------------------------------
# user-defined contracts on TWO AND MORE assets (the inherited machinery: registry, ul(i), clauses, payoff()): a spread option
# max(first_T - second_T - K, 0) reading its assets by position (ul(0), ul(1)) or by name, a basket max(sum_i w_i S^i_T - K, 0)
# over underliers() in registration order.  Assets are replaced after construction (by attribute / register_underlier under the
# existing name), a basket grows by a further asset: after every step the registry lists the names in the order of their first
# registration and payoff() is clauses(contract) on the instruments registered NOW, one entry per path (exact on dyadic prices).

def user_contracts():
    from pfhedge.instruments import BaseDerivative

    class Spread(BaseDerivative):
        def __init__(self, first, second, strike, maturity, by):
            super().__init__()
            self.first = first
            self.second = second
            self.strike, self.maturity, self.by = strike, maturity, by

        def payoff_fn(self):
            a, b = (self.ul(0), self.ul(1)) if self.by == "position" else (self.first, self.second)
            return (a.spot[..., -1] - b.spot[..., -1] - self.strike).clamp(min=0.0)

    class Basket(BaseDerivative):
        def __init__(self, assets, weights, strike, maturity):
            super().__init__()
            for i, a in enumerate(assets):
                self.register_underlier(f"asset{i}", a)
            self.weights, self.strike, self.maturity = list(weights), strike, maturity

        def payoff_fn(self):
            total = 0.0
            for w, u in zip(self.weights, self.underliers()):
                total = total + w * u.spot[..., -1]
            return (total - self.strike).clamp(min=0.0)

    return Spread, Basket


WEIGHTS = [F(1), F(1), F(1, 2), F(2), F(-1), F(1, 4)]


def gen_multi_asset(g):
    fam = g.choice(["spread_position", "spread_position", "spread_name", "basket", "basket"])
    N = g.small()
    n = 2 if fam.startswith("spread") else g.choice([2, 3, 3, 4])
    names = ["first", "second"] if n == 2 and fam.startswith("spread") else [f"asset{i}" for i in range(n)]
    prices = [gen_paths(g, N, g.small((1, 2, 3, 5)), 3) for _ in range(n)]
    weights = [F(1), F(-1)] if fam.startswith("spread") else [g.choice(WEIGHTS) for _ in range(n)]
    k = g.choice([F(0), F(0), F(1, 2), F(-1), g.dy(-2, 4, 3)])
    adds = []
    for _ in range(g.choice([0, 0, 1, 2])):
        ck = g.choice(["affine", "cap", "floor"])
        adds.append([g.choice(["a", "b", "c"]), ["affine", rat_str(g.choice([F(1, 2), F(2), F(-1)])), rat_str(g.choice([F(0), F(1, 2)]))]
                     if ck == "affine" else [ck, rat_str(g.dy(0, 2, 2))]])
    ops = []
    for _ in range(g.choice([1, 1, 2, 3, 5])):
        if fam == "basket" and g.chance(0.2):
            ops.append(["grow", f"asset{n}", g.choice(["attr", "register"]), rat_str(g.choice(WEIGHTS)),
                        enc_rat(gen_paths(g, N, g.small((1, 2, 3)), 3))])
            names.append(f"asset{n}")
            n += 1
        else:
            # mostly NOT the last name: the position must be kept
            name = g.choice(names[:-1] + names[:1] + names)
            ops.append(["replace", name, g.choice(["attr", "attr", "register"]), enc_rat(gen_paths(g, N, g.small((1, 2, 3, 5)), 3))])
    return dict(family=fam, strike=k, prices=prices, weights=weights, adds=adds, ops=ops)


def multi_asset_corpus():
    """every position of a spread / a three-asset basket replaced once, by attribute and by registration: part of every run"""
    a, b, c3, new = [[F(2), F(3)], [F(1), F(4)]], [[F(1), F(1, 2)], [F(1), F(1)]], [[F(1, 4)], [F(2)]], [[F(1), F(7, 2)], [F(1), F(1, 4)]]
    out = []
    for how in ("attr", "register"):
        for fam in ("spread_position", "spread_name"):
            for name in ("first", "second"):
                out.append(dict(family=fam, strike=F(1, 2), prices=[a, b], weights=[F(1), F(-1)], adds=[],
                                ops=[["replace", name, how, enc_rat(new)]]))
        for i in range(3):
            out.append(dict(family="basket", strike=F(1), prices=[a, b, c3], weights=[F(1), F(-1, 2), F(2)],
                            adds=[["a", ["affine", "2", "0"]]], ops=[["replace", f"asset{i}", how, enc_rat(new)]]))
    return out


def check_multi_asset(ctx, torch, g):
    Spread, Basket = user_contracts()
    creqs, cmeta = [], []
    mrecs = []
    for c in multi_asset_corpus() + [gen_multi_asset(g) for _ in range(150 if ctx.tier == "quick" else 2500)]:
        fam = c["family"]
        case = {"contract": fam, "strike": rat_str(c["strike"]), "prices": enc_rat(c["prices"]), "weights": enc_rat(c["weights"]),
                "adds": c["adds"], "ops": c["ops"]}
        ctx.case(case, nontrivial=True, tag="multi_asset_" + fam)
        ctx.traces += 1
        ctx.stats[f"multi:assets={len(c['prices'])}"] += 1
        dtv = F(1, 4)
        assets = [new_stock(torch, p, dtv) for p in c["prices"]]
        cur = [[list(r) for r in p] for p in c["prices"]]            # the prices registered now, by position
        weights = list(c["weights"])
        # (for the model's multi-underlier session: the assets numbered, the constructor's registrations, the clauses)
        rec = MultiRec(fam, first="first" if fam == "spread_name" else None, second="second" if fam == "spread_name" else None)
        ids = [rec.add(a, p) for a, p in zip(assets, c["prices"])]
        if fam == "basket":
            d = Basket(assets, [float(w) for w in weights], float(c["strike"]), 1.0)
            reg = [[f"asset{i}", a] for i, a in enumerate(assets)]
            for i, k in enumerate(ids):
                rec.op(["register", f"asset{i}", k], None)
        else:
            d = Spread(assets[0], assets[1], float(c["strike"]), 1.0, "position" if fam == "spread_position" else "name")
            reg = [["first", assets[0]], ["second", assets[1]]]
            rec.op(["assign", "first", ids[0]], None)
            rec.op(["assign", "second", ids[1]], None)
        pool = ClausePool("function", True)
        for name, desc in c["adds"]:
            d.add_clause(name, pool.get(desc))
            rec.op(["clause", name, rec.encd(desc)], None)
        rec.set_terms(c["strike"], dt=dtv, weights=weights if fam == "basket" else (), attrs=rec.static_attrs(d))
        for step, op in enumerate([["initial"]] + c["ops"]):
            here = case | {"step": step, "after": op[:3]}
            if op[0] != "initial":
                other = new_stock(torch, dec_rat(op[-1]), dtv)
                st, v, _ = call_impl(setattr, d, op[1], other) if op[2] == "attr" else call_impl(d.register_underlier, op[1], other)
                rec.op(["assign" if op[2] == "attr" else "register", op[1], rec.new(other, dec_rat(op[-1]))],
                       None if st == "ok" else ("err", v))
                if st != "ok":
                    ctx.fail("replacing an asset of a user-defined contract / registering a further asset raised", here,
                             key="derivative.underliers:registration-error", detail=v)
                    break
                if op[0] == "grow":
                    reg.append([op[1], other])
                    cur.append(dec_rat(op[-1]))
                    weights.append(F(op[3]))
                    d.weights.append(float(F(op[3])))
                    rec.op(["weight", rec.enc(op[3])], None)
                else:
                    i = [n for n, _ in reg].index(op[1])
                    reg[i][1] = other
                    cur[i] = dec_rat(op[-1])
            ctx.stats[f"multi:op={op[0]}"] += 1
            badreg = registry_wrong(d, reg)
            if badreg:
                ctx.fail("the underlier registry of a user-defined contract on several assets does not list the assets in the order in "
                         "which their names were registered (an asset replaced after construction keeps its position)",
                         here | {"registered": reg_show(reg)}, key="derivative.underliers:registration-order", detail=badreg)
            with torch.no_grad():
                st, v, mut = call_impl(d.payoff, watch=[("derivative", d)])
            rec.views(d)
            rec.query(st, v)
            if mut:
                ctx.mutated("derivative.payoff", mut, here)
            n_paths = len(cur[0])
            if st != "ok" or tuple(v.shape) != (n_paths,):
                ctx.fail("payoff() of a user-defined contract on several assets raised / does not have one entry per path", here,
                         key=f"derivative.user_{fam}.payoff:error", detail=v if st != "ok" else list(v.shape))
                break
            base = [max(sum(w * p[r][-1] for w, p in zip(weights, cur)) - c["strike"], 0) for r in range(n_paths)]
            exp = [apply_clauses_py(c["adds"], b)[1] for b in base]
            got = tensor_to_fracs(v)
            if got != exp:
                ctx.fail("payoff() of a user-defined contract on several assets is not clauses(contract) on the assets registered now, "
                         "in the order in which their names were registered" + (" (after an asset was replaced)" if step else ""),
                         here, key=f"derivative.user_{fam}.payoff:" + ("wrong-asset" if badreg else "value"),
                         detail={"impl": enc_rat(got), "contract": enc_rat(exp), "registry": badreg})
                break
        else:
            # the clause chain of the user contract through the model (op "clauses"), on the contract values of the last step
            fn_ = tensor_to_fracs(d.payoff_fn())
            creqs.append({"op": "clauses", "adds": c["adds"], "base": enc_rat(fn_)})
            cmeta.append((case, got, [n for n, _ in d.named_clauses()]))
        mfin = {"strike": F(d.strike)} | ({"weights": [F(w) for w in d.weights]} if fam == "basket" else {})
        mrecs.append((case, rec, rec.final(d, **mfin)))
    try:
        couts = ctx.driver(creqs)
    except DriverBroken as e:
        ctx.ties_broken.append({"kind": "driver", "detail": str(e)[:1500]})
        couts = []
    for (case, got, names), m in zip(cmeta, couts):
        if m.get("names") != names or dec_rat(m.get("payoff", [])) != got:
            ctx.disagree("clauses_user_contract", case, {"names": names, "payoff": enc_rat(got)}, m)
    # ---------------- every step of every scenario (registry listing, ul(i), get_underlier, payoff()) against the model's multi-underlier session
    ms_compare(ctx, mrecs)
    check_multi_scripts(ctx, torch, g, Spread, Basket)


# ---------------------------------------------------------------------------------------------------------------------------
# SCRIPTS on one derivative object with several instruments around: registrations / assignments under new, existing and refused names,
# buffers replaced and cells edited through a variable / a name / a position (also ones that do not resolve), instruments that were
# never simulated, assets with ONE path (broadcast) or another number of paths, baskets with fewer / more weights than assets, clauses
# that take the name of an underlier and underliers that take the name of a clause, registry queries and payoff() in between.
# No oracle of its own: every output of the real object is compared with the model's (driver op "multi_session").

MS_KINDS = ["european", "lookback", "american_binary", "european_binary", "forward_start", "spread_position", "spread_name", "basket"]
MS_NAMES = ["underlier", "fx", "collateral", "first", "second", "asset0", "asset1", "asset2", "a"]
MS_BAD_NAMES = ["strike", "payoff", "maturity", "ul", "a.b", ""]


def ms_script_corpus():
    """corner cases, part of every run"""
    A, B, C1, C3 = [["2", "3"], ["1", "4"]], [["1", "1/2"], ["1", "1"]], [["1", "5/2"]], [["1"], ["2"], ["3"]]
    E = [[], []]
    out = []
    for kind in ("spread_position", "spread_name"):
        # second asset never simulated / simulated later / one path / three paths against two / no columns; names and positions that do not resolve
        out.append(dict(kind=kind, strike="1/2", insts=[A, None, B, C1, C3, E], init=[0, 1], weights=[], ops=[
            ["query"], ["views"], ["cell", ["name", "second"], 0, 0, "1"], ["cell", ["pos", 1], 0, 0, "1"], ["swap_buffer", ["name", "second"], B],
            ["query"], ["assign", "second", 3], ["query"], ["register", "second", 4], ["query"], ["assign", "first", 3], ["query"],
            ["register", "second", 5], ["query"], ["assign", "second", 2], ["views"], ["query"], ["swap_buffer", ["name", "third"], A],
            ["swap_buffer", ["pos", 2], A], ["swap_buffer", ["pos", -3], A], ["cell", ["pos", -1], 5, 0, "1"], ["cell", ["pos", -1], -2, -2, "4"],
            ["query"], ["assign", "strike", 0], ["register", "payoff", 0], ["register", "a.b", 0], ["assign", "", 0], ["register", "ul", 0],
            ["views"], ["clause", "first", ["cap", "1"]], ["clause", "a", ["affine", "2", "1"]], ["register", "a", 0], ["views"],
            ["clause", "a", ["floor", "1"]], ["clause", "fx", ["cap", "3"]], ["assign", "fx", 1], ["views"], ["query"]]))
    # baskets: no weights (a Python float has no clamp), fewer weights than assets, more weights than assets, one-path asset, an asset registered twice
    out.append(dict(kind="basket", strike="1", insts=[A, B, C1, C3, None], init=[0, 1], weights=[], ops=[
        ["query"], ["weight", "1"], ["query"], ["weight", "-1/2"], ["query"], ["weight", "2"], ["query"], ["register", "asset2", 2], ["query"],
        ["views"], ["assign", "asset3", 0], ["query"], ["weight", "1/4"], ["query"], ["register", "asset1", 3], ["query"], ["assign", "asset1", 4],
        ["query"], ["swap_buffer", ["id", 4], B], ["query"], ["register", "asset0", 2], ["views"], ["query"]]))
    # built-in products: a further underlier, the underlier replaced by an instrument that was never simulated, by one without columns; a
    # knock-out clause (reads ul()); a clause under the name of the further underlier
    for kind in ("european", "lookback", "american_binary", "european_binary", "forward_start"):
        P = [["1", "2", "1/2"], ["2", "1", "4"]]
        Q = [["4", "1", "2"], ["1/2", "1/2", "1"]]
        out.append(dict(kind=kind, strike="1", insts=[P, Q, None, E], init=[0], weights=[], ops=[
            ["register", "fx", 1], ["views"], ["query"], ["clause", "k", ["knock_out", "4"]], ["query"], ["assign", "underlier", 1], ["views"],
            ["query"], ["cell", ["name", "underlier"], 0, 1, "4"], ["query"], ["cell", ["id", 0], 0, 0, "8"], ["query"], ["assign", "underlier", 2],
            ["query"], ["cell", ["pos", 0], 0, 0, "1"], ["swap_buffer", ["pos", 0], P], ["query"], ["register", "underlier", 3], ["query"],
            ["clause", "fx", ["cap", "1"]], ["register", "k", 0], ["views"], ["assign", "underlier", 0], ["query"], ["ul", 5], ["get", "strike"]]))
    return out


def gen_ms_script(g):
    kind = g.choice(MS_KINDS)
    pow2 = kind == "forward_start"
    N = g.small((1, 2, 2, 3, 4))
    n_inst = g.choice([2, 3, 3, 4, 5])
    insts = []
    for _ in range(n_inst):
        r = g.r.random()
        if r < 0.07:
            insts.append(None)                                            # never simulated
        else:
            n = 1 if r < 0.13 else (N + 1 if r < 0.17 else N)             # one path (broadcast) / another number of paths
            T = g.small((1, 2, 3, 3, 5)) if not g.chance(0.03) else 0
            insts.append(enc_rat(gen_paths(g, n, T, 3, pow2=pow2)) if T else [[] for _ in range(n)])
    n_init = 1 if kind in MS_KINDS[:5] else (2 if kind.startswith("spread") else g.choice([1, 2, 2, 3]))
    init = [g.randint(0, n_inst - 1) for _ in range(n_init)]
    if insts[init[0]] is None and g.chance(0.7):
        insts[init[0]] = enc_rat(gen_paths(g, N, 3, 3, pow2=pow2))
    weights = [rat_str(g.choice(WEIGHTS)) for _ in range(g.choice([0, n_init, n_init, n_init, n_init + 1]))] if kind == "basket" else []
    strike = g.choice([F(1, 2), F(1), F(2)]) if pow2 else g.choice([F(0), F(1, 2), F(1), g.dy(-1, 3, 2)])
    names = list(MS_NAMES)
    used_clause_names = []

    def ref():
        r = g.r.random()
        if r < 0.3:
            return ["id", g.randint(0, n_inst - 1)]
        if r < 0.65:
            return ["name", g.choice(names + ["nosuch"])]
        return ["pos", g.choice([0, 0, 1, -1, -1, 2, -2, 3, -4])]

    def val():
        return rat_str(F(2) ** g.randint(-2, 2) if pow2 else g.dy(F(1, 4), 4, 3))

    ops = []
    for _ in range(g.choice([3, 5, 8, 12, 16])):
        what = g.weighted([("reg", 5), ("swap", 3), ("cell", 3), ("query", 4), ("views", 1), ("strike", 1), ("clause", 2),
                           ("weight", 2 if kind == "basket" else 0), ("badreg", 1)])
        if what == "reg":
            ops.append([g.choice(["register", "assign", "assign"]), g.choice(names[:8] if g.chance(0.9) else names + used_clause_names),
                        g.randint(0, n_inst - 1)])
        elif what == "badreg":
            ops.append([g.choice(["register", "assign"]), g.choice(MS_BAD_NAMES), g.randint(0, n_inst - 1)])
        elif what == "swap":
            n = N if g.chance(0.85) else g.choice([1, N + 1])
            T = g.small((1, 2, 3, 5)) if not g.chance(0.04) else 0
            ops.append(["swap_buffer", ref(), enc_rat(gen_paths(g, n, T, 3, pow2=pow2)) if T else [[] for _ in range(n)]])
        elif what == "cell":
            ops.append(["cell", ref(), g.randint(-N - 1, N), g.choice([-1, -1, 0, 1, g.randint(-4, 4)]), val()])
        elif what == "strike":
            ops.append(["strike", rat_str(g.choice([F(1, 2), F(1), F(2)]) if pow2 else g.dy(-1, 3, 2))])
        elif what == "weight":
            ops.append(["weight", rat_str(g.choice(WEIGHTS))])
        elif what == "clause":
            ck = g.choice(["affine", "cap", "floor"] + (["knock_out"] if kind in MS_KINDS[:5] else []))
            d = ["affine", rat_str(g.choice([F(1, 2), F(2), F(-1)])), rat_str(g.choice([F(0), F(1, 2)]))] if ck == "affine" else \
                [ck, rat_str(g.dy(0, 4, 2))]
            name = g.choice(["a", "b", "fx", "first", "strike", "asset1", "a.b"])
            used_clause_names.append(name)
            ops.append(["clause", name, d])
        else:
            ops.append([what])
        if ops[-1][0] in ("register", "assign") and g.chance(0.5):
            ops.append(["views"])
        if ops[-1][0] != "query" and g.chance(0.45):
            ops.append(["query"])
    ops.append(["views"])
    ops.append(["query"])
    return dict(kind=kind, strike=rat_str(strike), insts=insts, init=init, weights=weights, ops=ops)


def check_multi_scripts(ctx, torch, g, Spread, Basket):
    import pfhedge.instruments as I
    mrecs = []
    dtv = F(1, 4)
    for sc in ms_script_corpus() + [gen_ms_script(g) for _ in range(120 if ctx.tier == "quick" else 2000)]:
        kind = sc["kind"]
        case = {"script": kind, "strike": sc["strike"], "instruments": sc["insts"], "constructed_on": sc["init"], "weights": sc["weights"],
                "ops": sc["ops"]}
        ctx.case(case, nontrivial=True, tag="multi_script_" + kind)
        ctx.traces += 1
        ctx.stats[f"script:contract={kind}"] += 1
        rec = MultiRec(kind, first="first" if kind == "spread_name" else None, second="second" if kind == "spread_name" else None)
        objs = []
        for paths in sc["insts"]:
            if paths is None:
                objs.append(I.BrownianStock(dt=float(dtv), dtype=torch.float64))
                rec.add(objs[-1], None)
            else:
                objs.append(new_stock(torch, dec_rat(paths), dtv))
                if paths and not paths[0]:
                    objs[-1].register_buffer("spot", torch.zeros((len(paths), 0), dtype=torch.float64))
                rec.add(objs[-1], dec_rat(paths))
        k = float(F(sc["strike"]))
        init = sc["init"]
        if kind == "basket":
            d = Basket([objs[i] for i in init], [float(F(w)) for w in sc["weights"]], k, 1.0)
            for n, i in enumerate(init):
                rec.op(["register", f"asset{n}", i], None)
        elif kind.startswith("spread"):
            d = Spread(objs[init[0]], objs[init[1]], k, 1.0, "position" if kind == "spread_position" else "name")
            rec.op(["assign", "first", init[0]], None)
            rec.op(["assign", "second", init[1]], None)
        else:
            u = objs[init[0]]
            d = {"european": lambda: I.EuropeanOption(u, call=True, strike=k, maturity=1.0),
                 "lookback": lambda: I.LookbackOption(u, call=False, strike=k, maturity=1.0),
                 "american_binary": lambda: I.AmericanBinaryOption(u, call=True, strike=k, maturity=1.0),
                 "european_binary": lambda: I.EuropeanBinaryOption(u, call=False, strike=k, maturity=1.0),
                 "forward_start": lambda: I.EuropeanForwardStartOption(u, strike=k, maturity=1.0, start=float(dtv))}[kind]()
            rec.op(["register", "underlier", init[0]], None)
        call = kind in ("european", "american_binary", "forward_start")
        rec.set_terms(F(sc["strike"]), call=call, start=1 if kind == "forward_start" else 0, dt=dtv, weights=[F(w) for w in sc["weights"]],
                      attrs=rec.static_attrs(d, extra=[o[1] for o in sc["ops"] if o[0] in ("register", "assign", "clause")]))
        pool = ClausePool("function", True)

        def through(ref):
            return objs[ref[1]] if ref[0] == "id" else (d.get_underlier(ref[1]) if ref[0] == "name" else d.ul(ref[1]))

        for op in sc["ops"]:
            what = op[0]
            ctx.stats[f"script:op={what}"] += 1
            with torch.no_grad():
                if what == "views":
                    rec.views(d)
                    continue
                if what == "query":
                    st, v, mut = call_impl(d.payoff, watch=[("derivative", d)])
                    if mut:
                        ctx.mutated("derivative.payoff", mut, case)
                    rec.query(st, v)
                    continue
                try:
                    mop, out = list(op), None
                    if what == "strike":
                        d.strike = float(F(op[1]))
                        mop = ["strike", rec.enc(op[1])]
                    elif what == "weight":
                        d.weights.append(float(F(op[1])))
                        mop = ["weight", rec.enc(op[1])]
                    elif what in ("register", "assign"):
                        if what == "register":
                            d.register_underlier(op[1], objs[op[2]])
                        else:
                            setattr(d, op[1], objs[op[2]])
                    elif what == "swap_buffer":
                        mop = ["swap_buffer", op[1], rec.rows(dec_rat(op[2]))]
                        rows = dec_rat(op[2])
                        through(op[1]).register_buffer("spot", torch.tensor([[float(z) for z in r] for r in rows], dtype=torch.float64).reshape(
                            len(rows), len(rows[0]) if rows else 0))
                    elif what == "cell":
                        mop = ["cell", op[1], op[2], op[3], rec.enc(op[4])]
                        through(op[1]).spot[op[2], op[3]] = float(F(op[4]))
                    elif what == "clause":
                        mop = ["clause", op[1], rec.encd(op[2])]
                        d.add_clause(op[1], pool.get(op[2]))
                    elif what == "ul":
                        out = rec.ident(d.ul(op[1]))
                    elif what == "get":
                        out = rec.ident(d.get_underlier(op[1]))
                    else:
                        raise InternalError("script op " + what)
                except InternalError:
                    raise
                except Exception as e:  # noqa
                    out = ("err", canon_error(e))
                rec.op(mop, out)
        fin = {"strike": F(d.strike)} | ({"weights": [F(w) for w in d.weights]} if kind == "basket" else {})
        mrecs.append((case, rec, rec.final(d, **fin)))
    ms_compare(ctx, mrecs)


# ---------------------------------------------------------------------------------------------------------------------------
# multi-step PROTOCOLS on one derivative object: a contract is written (clauses registered), listed as a hedging instrument
# (list(pricer, cost)), delisted again, re-simulated, amended by further clauses - in any order.  Listing and delisting say how the
# contract is TRADED, nothing about what it pays: after every step payoff() is the registered clauses applied to the contract payoff
# in registration order (a clause registered again keeps its place), and named_clauses() is what it was before a list / delist.
# Every kind: the built-in products, the variance swap, user-defined spread / basket contracts (the inherited machinery).
# Steps: ["clause", name, desc] / ["list", pricer form, cost | None = default] / ["delist"] / ["simulate", prices] (the library
# simulates, the prices are then replaced by dyadic ones) / ["payoff"] / ["names"].
# For the models (ops "session", "multi_session", "clauses") list / delist are no operations of the clause registry: they are left out.

PRICER_FORMS = ["function", "lambda"]
LIST_COSTS = [None, 0.0, 1e-4, 1e-3, 0.5]
USER_FAMILIES = ["spread_position", "spread_name", "basket"]


def _pricer(torch, form):
    if form == "lambda":
        return lambda derivative: derivative.ul().spot * 0.5
    def pricer(derivative):
        return torch.zeros_like(derivative.ul().spot)
    return pricer


def do_list(torch, d, op):
    if op[2] is None:
        d.list(_pricer(torch, op[1]))
    else:
        d.list(_pricer(torch, op[1]), cost=op[2])


def protocol_corpus():
    """every kind, three fixed protocols (clauses that do not commute; list -> delist, a bare delist, clauses registered while listed,
    a clause amended, a simulation while listed): part of every run, whatever the seed"""
    A2, C1, F1 = ["affine", "2", "1/2"], ["cap", "1"], ["floor", "1/4"]
    P = [[F(1), F(2), F(1, 2), F(1)], [F(1), F(1, 2), F(2), F(4)]]
    Q = [[F(2), F(1), F(1), F(4)], [F(1), F(4), F(2), F(1, 2)]]
    a, b, c3 = [[F(2), F(3)], [F(1), F(4)]], [[F(1), F(1, 2)], [F(1), F(1)]], [[F(1, 4)], [F(2)]]
    a2, b2, c32 = [[F(1), F(7, 2)], [F(1), F(1, 4)]], [[F(1, 2), F(1)], [F(2), F(1, 8)]], [[F(1)], [F(1, 2)]]

    def protocols(sim):
        return [[["clause", "a", A2], ["clause", "b", C1], ["payoff"], ["list", "function", 1e-4], ["payoff"], ["delist"], ["names"], ["payoff"]],
                [["clause", "a", A2], ["delist"], ["payoff"], ["names"]],
                [["list", "lambda", None], ["clause", "b", C1], ["clause", "a", A2], ["delist"], ["clause", "b", F1], ["list", "function", 0.5],
                 ["simulate", sim], ["delist"], ["names"], ["payoff"]]]
    out = []
    for kind in KINDS + ["variance_swap"]:
        for k, steps in enumerate(protocols(enc_rat(Q))):
            hist = ["direct", "direct", "extra+reassigned"][k]
            others = {key: [[x * m for x in p] for p in Q] for key, m in zip(hist_assets(hist), (1, 2))}
            out.append(dict(family=kind, steps=steps, c=dict(
                kind=kind, call=True, strike=F(1), paths=P, adds=[], dt=F(1, 4), sidx=1, cform=CFORMS[k], share=True, hist=hist, others=others)))
    for fam in USER_FAMILIES:
        n = 3 if fam == "basket" else 2
        for steps in protocols([enc_rat(x) for x in (a2, b2, c32)[:n]]):
            out.append(dict(family=fam, steps=steps, c=dict(
                family=fam, strike=F(1, 2), prices=[a, b, c3][:n], weights=[F(1), F(-1, 2), F(2)] if fam == "basket" else [F(1), F(-1)], adds=[])))
    return out


def gen_protocol(g):
    user = g.chance(0.25)
    if user:
        c = gen_multi_asset(g)
        fam, N, pow2 = c["family"], len(c["prices"][0]), False
        paths = c["prices"][0]
    else:
        c = gen_deriv(g, "quick")
        fam, N, pow2 = c["kind"], len(c["paths"]), c["kind"] == "forward_start"
        paths = c["paths"]
    knock = not user and fam != "variance_swap"
    T0 = len(paths[0])
    descs = [list(d) for _, d in c["adds"]]
    steps = []
    for _ in range(g.choice([2, 3, 4, 6, 9])):
        what = g.weighted([("clause", 4), ("list", 3), ("delist", 3), ("simulate", 1), ("payoff", 3), ("names", 1)])
        if what == "clause":
            ck = g.choice(["affine", "cap", "floor"] + (["knock_out"] if knock else []))
            if descs and g.chance(0.3):
                d = list(g.choice(descs))
            elif ck == "affine":
                d = ["affine", rat_str(g.choice([F(1, 2), F(2), F(-1)])), rat_str(g.choice([F(0), F(1, 2), F(-1, 4)]))]
            elif ck == "knock_out":
                d = ["knock_out", rat_str(g.choice([max(p) for p in paths] + [g.dy(F(1, 4), 4, 3), F(2), F(4)]))]
            else:
                d = [ck, rat_str(g.dy(0, 2, 2))]
            descs.append(d)
            steps.append(["clause", g.choice(["a", "b", "c", "knock"]), d])
        elif what == "list":
            steps.append(["list", g.choice(PRICER_FORMS), g.choice(LIST_COSTS)])
        elif what == "simulate":
            N = N if g.chance(0.6) else g.small()
            if user:
                steps.append(["simulate", [enc_rat(gen_paths(g, N, g.small((1, 2, 3, 5)), 3)) for _ in c["prices"]]])
            else:
                paths = gen_paths(g, N, T0, 3, pow2=pow2)
                steps.append(["simulate", enc_rat(paths)])
        else:
            steps.append([what])
    return dict(family=fam, c=c, steps=steps + [["names"], ["payoff"]])


def check_listing_protocol(ctx, torch, g):
    Spread, Basket = user_contracts()
    sreqs, smeta, mrecs, creqs, cmeta = [], [], [], [], []
    for pc in protocol_corpus() + [gen_protocol(g) for _ in range(110 if ctx.tier == "quick" else 1800)]:
        fam, c, steps = pc["family"], pc["c"], pc["steps"]
        user, flt = fam in USER_FAMILIES, fam == "variance_swap"
        if user:
            case = {"contract": fam, "strike": rat_str(c["strike"]), "prices": enc_rat(c["prices"]), "weights": enc_rat(c["weights"]),
                    "adds": c["adds"], "protocol": steps}
        else:
            case = _small(c) | {"protocol": steps}
        ctx.case(case, nontrivial=True, tag="protocol_" + fam)
        ctx.traces += 1
        ctx.stats[f"protocol:contract={fam}"] += 1
        pool = ClausePool(c.get("cform", "function"), c.get("share", True))
        dtv = F(1, 4) if user else c["dt"]
        if user:
            assets = [new_stock(torch, p, dtv) for p in c["prices"]]
            prices = [[list(r) for r in p] for p in c["prices"]]
            rec = MultiRec(fam, first="first" if fam == "spread_name" else None, second="second" if fam == "spread_name" else None)
            ids = [rec.add(a, p) for a, p in zip(assets, c["prices"])]
            if fam == "basket":
                d = Basket(assets, [float(w) for w in c["weights"]], float(c["strike"]), 1.0)
                for i, k in enumerate(ids):
                    rec.op(["register", f"asset{i}", k], None)
            else:
                d = Spread(assets[0], assets[1], float(c["strike"]), 1.0, "position" if fam == "spread_position" else "name")
                rec.op(["assign", "first", ids[0]], None)
                rec.op(["assign", "second", ids[1]], None)
            for name, desc in c["adds"]:
                d.add_clause(name, pool.get(desc))
                rec.op(["clause", name, rec.encd(desc)], None)
            rec.set_terms(c["strike"], dt=dtv, weights=c["weights"] if fam == "basket" else (), attrs=rec.static_attrs(d))
            stock, sreq = None, None
        else:
            rec = MultiRec(fam, flt=flt)
            try:
                d, stock, reg = build_deriv(torch, c, pool, rec=rec)
            except Exception as e:  # noqa
                if c["hist"] != "direct":
                    ctx.fail("registering a further underlier / re-assigning an underlier of a derivative raised", _small(c),
                             key="derivative.underliers:registration-error", detail=canon_error(e))
                    continue
                raise InternalError("cannot build derivative: " + repr(e))
            enc = rec.enc
            sreq = {"op": "session", "carrier": "float" if flt else "rat", "kind": fam, "strike": enc(c["strike"]), "call": c["call"],
                    "start": c["sidx"], "dt": enc(c["dt"]), "spot": [[enc(v) for v in p] for p in c["paths"]],
                    "attrs": [n for n in ATTR_CANDIDATES if hasattr(d, n)]}
            mops = [["clause", n, rec.encd(desc)] for n, desc in c["adds"]]
            iouts = [None] * len(mops)
            cur = dict(kind=fam, call=c["call"], strike=c["strike"], paths=[list(p) for p in c["paths"]], adds=None, sidx=c["sidx"], dt=c["dt"])
        adds = [list(a) for a in c["adds"]]
        seen = set()                 # list / delist carried out since the first clause was registered
        got = None
        for step, op in enumerate(steps):
            what = op[0]
            ctx.stats[f"protocol:step={what}"] += 1
            here = case | {"step": step, "at": op[:1] if what == "simulate" else op, "registered": adds,
                           "listed_or_delisted_since_first_clause": sorted(seen)}
            blame = "delist" if "delist" in seen else ("list" if "list" in seen else "registration")
            with torch.no_grad():
                if what == "clause":
                    f = pool.get(op[2])
                    st, v, _ = call_impl(d.add_clause, op[1], f)
                    if st != "ok":
                        ctx.fail("add_clause under a free name raised" + (" on a listed derivative" if d.is_listed else ""), here,
                                 key=f"derivative.{fam}.add_clause:protocol-error", detail=v)
                        break
                    adds.append([op[1], list(op[2])])
                    rec.op(["clause", op[1], rec.encd(op[2])], None)
                    if not user:
                        mops.append(["clause", op[1], rec.encd(op[2])]); iouts.append(None)
                    continue
                if what in ("list", "delist"):
                    before = list(d.named_clauses())
                    st, v, _ = call_impl(do_list, torch, d, op) if what == "list" else call_impl(d.delist)
                    if st != "ok":
                        ctx.fail(f"{what}() raised", here, key=f"derivative.{fam}.{what}:protocol-error", detail=v)
                        break
                    if adds:
                        seen.add(what)
                    after = list(d.named_clauses())
                    if [n for n, _ in after] != [n for n, _ in before] or any(x != y for (_, x), (_, y) in zip(before, after)):
                        ctx.fail(f"{what}() changed the registered clauses of the derivative: named_clauses() before and after differ (how a "
                                 "contract is traded says nothing about what it pays)", here, key=f"derivative.{fam}.named_clauses:changed-by-{what}",
                                 detail={"before": [n for n, _ in before], "after": [n for n, _ in after]})
                    continue          # (what payoff() then pays is judged by the steps that follow)
                if what == "simulate":
                    if user:
                        prices = [dec_rat(p) for p in op[1]]
                        d.simulate(n_paths=len(prices[0]))
                        for a, p, k in zip(assets, prices, ids):
                            a.register_buffer("spot", new_stock(torch, p, dtv).spot)
                            rec.op(["swap_buffer", ["id", k], rec.rows(p)], None)
                    else:
                        cur["paths"] = dec_rat(op[1])
                        new = new_stock(torch, cur["paths"], dtv).spot
                        d.simulate(n_paths=len(cur["paths"]))
                        if tuple(stock.spot.shape) == tuple(new.shape):
                            stock.spot.copy_(new)
                        else:
                            stock.register_buffer("spot", new)
                        for o in d.underliers():
                            if o is not stock and rec.known(o) is not None:
                                rec.op(["swap_buffer", ["id", rec.known(o)], rec.rows([[F(z) for z in r] for r in o.spot.tolist()])], None)
                        rec.op(["swap_buffer", ["id", rec.known(stock)], rec.rows(cur["paths"])], None)
                        mops.append(["reregister", [[enc(v) for v in p] for p in cur["paths"]]]); iouts.append(None)
                    continue
                if what == "names":
                    names = [n for n, _ in d.named_clauses()]
                    want = apply_clauses_py(adds, F(0), path=[F(0)])[0]
                    if names != want:
                        ctx.fail("named_clauses() does not list the registered clauses in registration order" +
                                 (f" after the derivative was {blame}ed" if seen else ""), here,
                                 key=f"derivative.{fam}.named_clauses:after-{blame}", detail={"named_clauses": names, "registered": want})
                        break
                    continue
                st, v, mut = call_impl(d.payoff, watch=[("derivative", d)])
                base = d.payoff_fn() if st == "ok" else None
            if mut:
                ctx.mutated("derivative.payoff", mut, here)
            rec.query(st, v)
            n_paths = len(prices[0]) if user else len(cur["paths"])
            if not user:
                mops.append(["query"])
                iouts.append(("err", v) if st != "ok" else ("ok", [float(z) for z in v.reshape(-1).tolist()] if flt else tensor_to_fracs(v.reshape(-1))))
            if st != "ok" or tuple(v.shape) != (n_paths,):
                ctx.fail("payoff() raised / does not have one entry per path in a protocol of clause registrations, listing, delisting, simulation",
                         here, key=f"derivative.{fam}.payoff:protocol-error", detail=v if st != "ok" else list(v.shape))
                break
            if flt:
                # the contract by hand (doubles, tolerance), the clause arithmetic exactly (see the derivative section)
                fp = [[float(z) for z in p] for p in cur["paths"]]
                expb = [variance_by_hand(p, float(dtv)) - float(c["strike"]) for p in fp]
                gotb = [float(z) for z in base.tolist()]
                exp = [apply_clauses_float(adds, b) for b in gotb]
                got = [float(z) for z in v.tolist()]
                ok = _close(gotb, expb) and got == exp
                det = {"impl": got, "clauses(payoff_fn)": exp, "payoff_fn": gotb, "contract": expb}
            else:
                if user:
                    bs = [max(sum(w * p[r][-1] for w, p in zip(c["weights"], prices)) - c["strike"], 0) for r in range(n_paths)]
                    exp = [apply_clauses_py(adds, b)[1] for b in bs]
                else:
                    exp = reuse_expected(cur | {"adds": adds})
                got = tensor_to_fracs(v)
                ok = got == exp
                det = {"impl": enc_rat(got), "contract": enc_rat(exp)}
            if not ok:
                ctx.fail("payoff() is not the registered clauses applied to the contract payoff in registration order" +
                         (f": the derivative was {blame}ed after clauses had been registered" if seen else ""), here,
                         key=f"derivative.{fam}.payoff:clauses-after-{blame}", detail=det)
                break
        else:
            if not flt and got is not None and not any(a[1][0] == "knock_out" for a in adds):
                creqs.append({"op": "clauses", "adds": adds, "base": enc_rat(tensor_to_fracs(d.payoff_fn()))})
                cmeta.append((case, got, [n for n, _ in d.named_clauses()]))
        if user:
            mfin = {"strike": F(d.strike)} | ({"weights": [F(w) for w in d.weights]} if fam == "basket" else {})
        else:
            fin = {"strike": F(d.strike), "names": [n for n, _ in d.named_clauses()], "spot": [[F(z) for z in r] for r in stock.spot.tolist()]}
            if hasattr(d, "call"):
                fin["call"] = bool(d.call)
            if fam == "forward_start":
                fin["start"] = d._start_index()
            sreqs.append(sreq | {"ops": mops})
            smeta.append((case, iouts, fin, flt))
            mfin = {k: v for k, v in fin.items() if k in ("strike", "call", "start")}
        mrecs.append((case, rec, rec.final(d, **mfin)))
    try:
        couts = ctx.driver(creqs)
    except DriverBroken as e:
        ctx.ties_broken.append({"kind": "driver", "detail": str(e)[:1500]})
        couts = []
    for (case, got, names), m in zip(cmeta, couts):
        if m.get("names") != names or dec_rat(m.get("payoff", [])) != got:
            ctx.disagree("clauses_protocol", case, {"names": names, "payoff": enc_rat(got)}, m)
    sess_compare(ctx, sreqs, smeta)
    ms_compare(ctx, mrecs)


def _small(c):
    out = {"kind": c["kind"], "call": c["call"], "strike": rat_str(c["strike"]), "paths": enc_rat(c["paths"]),
           "adds": c["adds"], "dt": rat_str(c["dt"]), "sidx": c["sidx"], "clause_callable": c["cform"],
           "one_object_per_clause": c["share"]}
    if c.get("hist", "direct") != "direct":
        out |= {"history": [list(x) for x in HIST[c["hist"]]], "other_prices": {k: enc_rat(v) for k, v in c["others"].items()}}
    return out
