"""C02 — Hedges are non-anticipative and never trade at maturity.

correspondence: Hedger.compute_hedge (both branches; linear / MLP / prev_hedge-consuming / Naked /
BlackScholes / WhalleyWilmott models) vs Lean `computeHedge` (Float carrier).
predicate (real code): the perturbation experiment — re-inject buffers changed only at columns
> t (new running maximum, barrier crossing, variance jump) and compare compute_hedge[..., :t+1]
bitwise; last column == the one before it.  Price series with NON-POSITIVE entries (injected zeros / negative values, real VasicekRate
simulations crossing zero) for every feature, the closed-form models and shared feature objects: nan / -inf compared as equal (nan == nan),
non-anticipativity demanded of whatever is produced.  Hedgers with user FORWARD HOOKS / PRE-HOOKS registered after construction (hedger or
model; appended / prepended / with_kwargs; lot-size rounding, caps, feature transforms), both evaluation orders: last column, perturbation
experiment, bitwise agreement with the hook-free hedger the hook protocol implies (also sent to the Lean model where expressible).  Every such scenario is also run through the Lean model of
the hook protocol itself (Model/Hooks.lean `computeHedgeHooked`, op "hooked_hedge", Float carrier): the positions AND the value of `prev_output`
the features read at each step (recorded on the real hedger by an observing pre-hook) are compared exactly.  Black-Scholes type models
(BlackScholes of the four options, WhalleyWilmott; as the model or inside a ModuleOutput) given a PARTIAL input list on every underlier with
time-varying volatility: no hedge (shape error) is accepted, a hedge that is produced must pass the perturbation experiment (every later
price / volatility / variance changed) and the last-column test.  USER MODELS RETURNING A VIEW of their input / the input itself / the
input modified in place (both evaluation orders, with and without autograd): additionally compared bitwise with the definition
out_j = model(cat(features_j, out_{j-1})) evaluated on fresh inputs, and with the Lean model (0/1-weight linear model) where expressible.
"""
from fractions import Fraction as F
from common import *  # noqa
from hedge_common import *  # noqa
from c03 import near


def perturb(g, mk, t):
    """copy of the market changed only at columns > t"""
    import copy
    m2 = copy.deepcopy(mk)
    T = mk["T"]
    for p in range(mk["N"]):
        for j in range(t + 1, T):
            r = g.r.random()
            if r < 0.35:
                m2["spot"][p][j] = max(mk["spot"][p]) + g.dy(F(1, 8), 2, 3)     # new running maximum / up-barrier crossing
            elif r < 0.6:
                m2["spot"][p][j] = max(F(1, 8), min(mk["spot"][p]) - g.dy(F(1, 8), F(3, 8), 3))   # new minimum
            elif r < 0.9:
                m2["spot"][p][j] = g.dy(F(1, 2), 4, 3)
            if mk["primary"] in ("HestonStock", "LocalVolatilityStock", "RoughBergomiStock", "custom_vol_var") and g.chance(0.7):
                v = g.choice([F(1, 4), F(1, 2), F(3, 4), F(1)])
                m2["vol"][p][j] = v
                m2["var"][p][j] = v * v
    return m2


# ---- every built-in feature x every underlier type x every derivative type ---------------------------------------------------------
# The shared builder knows four stock models and the four options.  The library ships more: KouJumpStock and RoughBergomiStock, the
# rates CIRRate / VasicekRate (a `spot` series only: they have NO volatility / variance), user-defined primaries (BasePrimary
# subclasses registering whatever buffers they like) and the derivatives without moneyness (EuropeanForwardStartOption, VarianceSwap).
# A feature whose defining quantity does not exist for the pair (volatility of a rate, moneyness of a variance swap) raises on the
# unchanged code: that is accepted (no hedge, nothing can anticipate); whenever a hedge IS produced it must be non-anticipative.
X_UNDERLIERS = ["BrownianStock", "HestonStock", "MertonJumpStock", "KouJumpStock", "LocalVolatilityStock", "RoughBergomiStock",
                "CIRRate", "VasicekRate", "custom_spot_only", "custom_vol_var"]
X_DERIVATIVES = OPTION_TYPES + ["EuropeanForwardStartOption", "VarianceSwap"]
X_VAR_BUFFER = ("HestonStock", "RoughBergomiStock", "custom_vol_var")
X_VOL_BUFFER = ("LocalVolatilityStock", "custom_vol_var")
NZ_W = [w for w in DY_W if w != 0]


def gen_market_x(g, ukind):
    if ukind in ("HestonStock", "RoughBergomiStock", "custom_vol_var"):
        mk = gen_market(g, primary="HestonStock")
    elif ukind == "LocalVolatilityStock":
        mk = gen_market(g, primary=ukind)
    else:
        mk = gen_market(g, primary="BrownianStock")
    mk["primary"] = ukind
    if ukind == "custom_vol_var":     # a user-defined primary: its `variance` and `volatility` buffers are unrelated series
        mk["vol"] = [[g.choice([F(1, 4), F(1, 2), F(3, 4), F(2)]) for _ in r] for r in mk["vol"]]
        mk["var"] = [[g.choice([F(1, 16), F(1, 4), F(1, 2), F(3)]) for _ in r] for r in mk["var"]]
    mk["option"] = g.weighted([(k, 2) for k in OPTION_TYPES] + [("EuropeanForwardStartOption", 1), ("VarianceSwap", 1)])
    return mk


def inject_x(torch, u, mk):
    u.register_buffer("spot", tens(torch, mk["spot"]))
    if mk["primary"] in X_VAR_BUFFER:
        u.register_buffer("variance", tens(torch, mk["var"]))
    if mk["primary"] in X_VOL_BUFFER:
        u.register_buffer("volatility", tens(torch, mk["vol"]))


def build_x(torch, mk):
    import pfhedge.instruments as I
    p, T, dt = mk["primary"], mk["T"], float(mk["dt"])
    kw = dict(cost=float(mk["cost"]), dt=dt, dtype=torch.float64)
    if p in ("BrownianStock", "MertonJumpStock", "KouJumpStock"):
        u = getattr(I, p)(sigma=float(mk["sigma"]), **kw)
    elif p == "LocalVolatilityStock":
        u = I.LocalVolatilityStock(lambda t, s: s, **kw)
    elif p in ("HestonStock", "RoughBergomiStock", "CIRRate", "VasicekRate"):
        u = getattr(I, p)(**kw)
    else:
        class UserPrimary(I.BasePrimary):
            def __init__(self, cost, dt, dtype):
                super().__init__()
                self.cost, self.dt = cost, dt
                self.to(dtype=dtype)

            def simulate(self, n_paths=1, time_horizon=0.0, init_state=None):
                raise NotImplementedError
        u = UserPrimary(**kw)
    inject_x(torch, u, mk)
    k = mk["option"]
    if k in OPTION_TYPES:
        d = getattr(I, k)(u, call=mk["call"], strike=float(mk["strike"]), maturity=(T - 1) * dt)
    elif k == "EuropeanForwardStartOption":
        d = I.EuropeanForwardStartOption(u, strike=float(mk["strike"]), maturity=(T - 1) * dt, start=((T - 1) // 2) * dt)
    else:
        d = I.VarianceSwap(u, strike=float(mk["strike"]), maturity=(T - 1) * dt)
    a, b = mk["listed"]
    d.list(lambda dd, a=float(a), b=float(b): dd.ul().spot * a + b, cost=float(mk["cost"]))
    return d, u


def quantity_exists(name, d, u):
    """does the quantity the feature is DEFINED as exist for this derivative / underlier (read off the instruments themselves,
    not through the feature)?  If not, an error of the hedger is the legitimate outcome."""
    try:
        if name in ("moneyness", "log_moneyness"):
            d.moneyness(0)
        elif name in ("max_moneyness", "max_log_moneyness"):
            d.max_moneyness(0)
        elif name == "time_to_maturity":
            d.time_to_maturity(0)
        elif name == "volatility":
            u.volatility
        elif name == "variance":
            u.variance
        elif name in ("spot", "log_spot"):
            d.spot
        else:
            u.spot
        return True
    except (AttributeError, ValueError):
        return False


def features_x_underliers(ctx, torch, g, reqs, metas):
    from pfhedge.nn import Hedger
    pool = [nm for nm in BASE_FEATURES if nm != "empty"]
    for rep in range(2 if ctx.tier == "quick" else 10):
        for ukind in X_UNDERLIERS:
            for main in pool:
                mk = gen_market_x(g, ukind)
                T, N = mk["T"], mk["N"]
                d, u = build_x(torch, mk)
                thr = g.choice([x for p in mk["spot"] for x in p])
                names = [main] + ([g.choice(pool)] if g.chance(0.35) else [])
                wrapped = g.chance(0.25)          # the features are read through a ModuleOutput
                exists = all(quantity_exists(nm, d, u) for nm in names)
                t = g.randint(0, T - 2)
                m2 = perturb(g, mk, t)
                for stepwise in (False, True):
                    H = g.choice([1, 1, 2])
                    if wrapped:
                        sub_ms = dict(kind="linear", w=[[g.choice(NZ_W) for _ in names] for _ in range(2)], b=[g.choice([F(0), F(1, 2)]) for _ in range(2)],
                                      relu=g.chance(0.3))
                        feats = [feature_obj(torch, "module_output", mk, thr, (model_obj(torch, sub_ms), names))]
                        fj = [feature_json("module_output", thr, (model_json(sub_ms), names))]
                        width = 2
                    else:
                        feats = [feature_obj(torch, nm, mk, thr) for nm in names]
                        fj = [feature_json(nm, thr) for nm in names]
                        width = len(names)
                    if stepwise:
                        feats.append("prev_hedge")
                        fj.append(["prev_hedge"])
                        width += H
                    ms = dict(kind="linear", w=[[g.choice(NZ_W) for _ in range(width)] for _ in range(H)], b=[g.choice([F(0), F(1, 2), F(-1, 4)]) for _ in range(H)],
                              relu=g.chance(0.25))
                    hedger = Hedger(model_obj(torch, ms), feats)
                    hedge = [u] + extra_hedges(torch, g, mk, H - 1)
                    case = {"features_x_underliers": True, "features": names, "module_output": wrapped, "stepwise": stepwise, "H": H, "thr": rat_str(thr),
                            "model": model_json(ms), "option": mk["option"], "primary": ukind, "T": T, "N": N, "spot": enc_rat(mk["spot"]),
                            "vol": enc_rat(mk["vol"]), "var": enc_rat(mk["var"]), "strike": rat_str(mk["strike"]), "dt": rat_str(mk["dt"]), "call": mk["call"],
                            "t": t}
                    with torch.no_grad():
                        inject_x(torch, u, mk)
                        st, out, mut = call_impl(hedger.compute_hedge, d, hedge, watch=[("derivative", d)])
                        inject_x(torch, u, m2)
                        st2, out2, _ = call_impl(hedger.compute_hedge, d, hedge)
                        inject_x(torch, u, mk)
                    if mut:
                        ctx.mutated("compute_hedge", mut, case)
                    ctx.stats[f"x_underlier={ukind}"] += 1
                    ctx.stats[f"x_derivative={mk['option']}"] += 1
                    if st != "ok" and st2 != "ok" and not exists:
                        # the feature is not defined for this derivative / underlier: no hedge, nothing to anticipate
                        ctx.case(case, False, tag="features_x_underliers:undefined")
                        continue
                    ctx.case(case, True, tag="features_x_underliers")
                    ctx.traces += 1
                    if st != "ok" or st2 != "ok":
                        ctx.fail("compute_hedge raised for a feature whose quantity exists for this derivative and underlier, or raised on only one of two "
                                 "markets that differ after step t only", case, key="compute_hedge:feature-x-underlier:error",
                                 detail={"base": str(out)[:120] if st != "ok" else "ok", "perturbed": str(out2)[:120] if st2 != "ok" else "ok"})
                        continue
                    if tuple(out.shape) != (N, H, T) or tuple(out2.shape) != (N, H, T):
                        ctx.fail("compute_hedge has the wrong shape", case, key="compute_hedge:feature-x-underlier:shape", detail=list(out.shape))
                        continue
                    base, pert = out.tolist(), out2.tolist()
                    if any(base[p][hh][T - 1] != base[p][hh][T - 2] and base[p][hh][T - 1] == base[p][hh][T - 1] for p in range(N) for hh in range(H)):
                        ctx.fail("the position at the final time index differs from the one held over the last step", case,
                                 key="compute_hedge:feature-x-underlier:last-column", detail={"hedge": base})
                    for p in range(N):
                        bad = [hh for hh in range(H) if not all(x == y or (x != x and y != y) for x, y in zip(base[p][hh][: t + 1], pert[p][hh][: t + 1]))]
                        if bad:
                            hh = bad[0]
                            ctx.fail(f"hedge ratios for steps 0..t change when only prices/variances after step t are changed (look-ahead): features "
                                     f"{names} on {ukind} / {mk['option']}" + ("" if exists else " (a pair for which the unchanged library raises)"),
                                     case | {"perturbed_spot": enc_rat(m2["spot"]), "perturbed_vol": enc_rat(m2["vol"]), "perturbed_var": enc_rat(m2["var"])},
                                     key="compute_hedge:feature-x-underlier:lookahead",
                                     detail={"before": base[p][hh][: t + 1], "after": pert[p][hh][: t + 1], "path": p})
                            break
                    if exists:     # the model knows the quantities of a market, not their absence: only defined pairs are sent
                        tol = any(nm in LOG_FEATURES or nm == "time_to_maturity" for nm in names)
                        for p in range(N):
                            reqs.append({"op": "hedge", "market": market_json(mk, p), "features": fj, "model": model_json(ms), "n": T, "h": H})
                            metas.append((case | {"kind": "x", "path": p}, tol, [[base[p][hh][tt] for hh in range(H)] for tt in range(T)]))


# ---- price series with NON-POSITIVE entries ----------------------------------------------------------------------------------------
# Interest rates (VasicekRate paths cross zero), prices that have hit zero and registered paths with a bad tick below zero are legal
# simulated data.  The log features are nan / -inf there on the unchanged code (and so may be the hedge), the other features are
# ordinary numbers; whatever is produced must still be a function of the past: values are compared bitwise with nan == nan.
# Every case of this class has a non-positive price at a step <= t, and the perturbation of the future always moves the smallest
# positive price of the whole tensor (besides new maxima / minima / zeros / negative values / variance jumps after t).
NP_VALUES = [F(0), F(-1, 4), F(0), F(-1), F(-1, 32), F(-3)]


def same_nan(a, b):
    """nested float lists: bitwise equal, nan == nan"""
    if isinstance(a, list) != isinstance(b, list):
        return False
    if isinstance(a, list):
        return len(a) == len(b) and all(same_nan(x, y) for x, y in zip(a, b))
    return a == b or (a != a and b != b)


def make_nonpositive(g, mk, values=NP_VALUES):
    """put non-positive entries into the price series; returns the first column that has one (always <= T - 2)"""
    N, T = mk["N"], mk["T"]
    p0, j0 = g.randint(0, N - 1), g.randint(0, T - 2)
    mk["spot"][p0][j0] = g.choice(values)
    for _ in range(g.choice([0, 0, 1, 2, 4])):
        mk["spot"][g.randint(0, N - 1)][g.randint(0, T - 1)] = g.choice(values)
    if g.chance(0.15):      # a whole path at or below zero
        p = g.randint(0, N - 1)
        mk["spot"][p] = [g.choice(values) for _ in range(T)]
    return min(j for r in mk["spot"] for j, x in enumerate(r) if x <= 0)


def simulate_vasicek(torch, g, mk):
    """a REAL VasicekRate simulation in a low-rate regime whose paths cross zero before the last step (None if none of the attempts does)"""
    import pfhedge.instruments as I
    N, T, dt = mk["N"], mk["T"], float(mk["dt"])
    state = torch.random.get_rng_state()
    try:
        for _ in range(30):
            theta, sigma = g.choice([F(1, 512), F(1, 64), F(0), F(-1, 128)]), g.choice([F(1, 4), F(1, 16), F(1)])
            torch.manual_seed(g.randint(0, 2 ** 31 - 1))
            u = I.VasicekRate(kappa=float(g.choice([F(1), F(1, 4), F(4)])), theta=float(theta), sigma=float(sigma), dt=dt, dtype=torch.float64)
            u.simulate(n_paths=N, time_horizon=(T - 1) * dt)
            s = u.spot
            if tuple(s.shape) == (N, T) and bool((s[:, : T - 1] <= 0).any()) and bool(s.isfinite().all()):
                return [[F(x) for x in r] for r in s.tolist()]
    finally:
        torch.random.set_rng_state(state)
    return None


def perturb_np(g, mk, t, negatives=True):
    """copy of the market changed only at columns > t: the general perturbation, plus zeros / negative values / tiny positive values;
    the smallest positive price of the whole tensor always moves"""
    m2 = perturb(g, mk, t)
    N, T = mk["N"], mk["T"]
    pos = [x for r in mk["spot"] for x in r if x > 0]
    low = min(pos) if pos else F(1)
    for p in range(N):
        for j in range(t + 1, T):
            r = g.r.random()
            if r < 0.15:
                m2["spot"][p][j] = F(0)
            elif r < 0.3:
                m2["spot"][p][j] = -g.dy(F(1, 8), 2, 3) if negatives else F(0)
            elif r < 0.45:
                m2["spot"][p][j] = low / g.choice([2, 16, 1024])
            elif r < 0.55:
                m2["spot"][p][j] = abs(mk["spot"][p][j]) / 1024
    m2["spot"][g.randint(0, N - 1)][T - 1] = low / g.choice([4, 1024])
    return m2


def nonpositive_prices(ctx, torch, g, reqs, metas):
    from pfhedge.nn import Hedger, BlackScholes, WhalleyWilmott
    from pfhedge.features import ModuleOutput
    pool = [nm for nm in BASE_FEATURES if nm != "empty"]

    def lookahead(case, names, label, base, pert, t, m2, key):
        N, H = len(base), len(base[0])
        for p in range(N):
            for hh in range(H):
                a, b = base[p][hh][: t + 1], pert[p][hh][: t + 1]
                if not same_nan(a, b):
                    ctx.fail(f"hedge ratios for steps 0..t change when only prices/variances after step t are changed (look-ahead) on a price series "
                             f"with non-positive entries: features {names} on {label}",
                             case | {"perturbed_spot": enc_rat(m2["spot"]), "perturbed_vol": enc_rat(m2["vol"]), "perturbed_var": enc_rat(m2["var"])},
                             key=key, detail={"before": a, "after": b, "path": p})
                    return

    def last_column(case, base, key):
        T = len(base[0][0])
        if any(not same_nan(r[T - 1], r[T - 2]) for pth in base for r in pth):
            ctx.fail("the position at the final time index differs from the one held over the last step (price series with non-positive entries)",
                     case, key=key, detail={"hedge": base})

    # ---------- (1) every built-in feature, all underlier / derivative types, linear models, both evaluation orders;
    #                injected dyadic series and real VasicekRate simulations
    for rep in range(3 if ctx.tier == "quick" else 12):
        for main in pool:
            for origin in ("injected", "vasicek_simulation"):
                for attempt in range(8):
                    ukind = "VasicekRate" if origin == "vasicek_simulation" else g.choice(X_UNDERLIERS)
                    mk = gen_market_x(g, ukind)
                    if rep == 0:     # the first round: the four options (every moneyness feature is defined for them)
                        mk["option"] = g.choice(OPTION_TYPES)
                    T, N = mk["T"], mk["N"]
                    j0 = None
                    if origin == "vasicek_simulation":
                        sim = simulate_vasicek(torch, g, mk)
                        if sim is not None:
                            mk["spot"] = sim
                            mk["strike"] = g.choice([F(1, 512), F(1, 64), F(1, 8), F(1)])
                            j0 = min(j for r in sim for j, x in enumerate(r) if x <= 0)
                    else:
                        j0 = make_nonpositive(g, mk)
                    if j0 is None:
                        continue
                    d, u = build_x(torch, mk)
                    names = [main] + ([g.choice(pool)] if g.chance(0.35) else [])
                    exists = all(quantity_exists(nm, d, u) for nm in names)
                    if exists or rep > 0 or origin == "vasicek_simulation":
                        break
                if j0 is None:
                    ctx.stats["nonpositive:vasicek-simulation-did-not-cross-zero"] += 1
                    continue
                thr = g.choice([x for p in mk["spot"] for x in p])
                wrapped = g.chance(0.25)
                t = g.randint(j0, T - 2)
                m2 = perturb_np(g, mk, t)
                for stepwise in (False, True):
                    H = g.choice([1, 1, 2])
                    sub_ms = None
                    if wrapped:
                        sub_ms = dict(kind="linear", w=[[g.choice(NZ_W) for _ in names] for _ in range(2)], b=[g.choice([F(0), F(1, 2)]) for _ in range(2)],
                                      relu=g.chance(0.3))
                        feats = [feature_obj(torch, "module_output", mk, thr, (model_obj(torch, sub_ms), names))]
                        fj = [feature_json("module_output", thr, (model_json(sub_ms), names))]
                        width = 2
                    else:
                        feats = [feature_obj(torch, nm, mk, thr) for nm in names]
                        fj = [feature_json(nm, thr) for nm in names]
                        width = len(names)
                    if stepwise:
                        feats.append("prev_hedge")
                        fj.append(["prev_hedge"])
                        width += H
                    ms = dict(kind="linear", w=[[g.choice(NZ_W) for _ in range(width)] for _ in range(H)], b=[g.choice([F(0), F(1, 2), F(-1, 4)]) for _ in range(H)],
                              relu=g.chance(0.25))
                    hedger = Hedger(model_obj(torch, ms), feats)
                    hedge = [u] + extra_hedges(torch, g, mk, H - 1)
                    case = {"nonpositive_prices": origin, "features": names, "module_output": wrapped, "stepwise": stepwise, "H": H, "thr": rat_str(thr),
                            "model": model_json(ms), "option": mk["option"], "primary": ukind, "T": T, "N": N, "spot": enc_rat(mk["spot"]),
                            "vol": enc_rat(mk["vol"]), "var": enc_rat(mk["var"]), "strike": rat_str(mk["strike"]), "dt": rat_str(mk["dt"]), "call": mk["call"],
                            "t": t}
                    with torch.no_grad():
                        inject_x(torch, u, mk)
                        st, out, mut = call_impl(hedger.compute_hedge, d, hedge, watch=[("derivative", d)])
                        inject_x(torch, u, m2)
                        st2, out2, _ = call_impl(hedger.compute_hedge, d, hedge)
                        inject_x(torch, u, mk)
                    if mut:
                        ctx.mutated("compute_hedge", mut, case)
                    ctx.stats[f"nonpositive:{origin}"] += 1
                    if st != "ok" and st2 != "ok" and not exists:
                        ctx.case(case, False, tag="nonpositive_prices:undefined")
                        continue
                    ctx.case(case, True, tag="nonpositive_prices")
                    ctx.traces += 1
                    if st != "ok" or st2 != "ok":
                        ctx.fail("compute_hedge raised on a price series with non-positive entries for a feature whose quantity exists, or raised on only one "
                                 "of two markets that differ after step t only", case, key="compute_hedge:nonpositive:error",
                                 detail={"base": str(out)[:120] if st != "ok" else "ok", "perturbed": str(out2)[:120] if st2 != "ok" else "ok"})
                        continue
                    if tuple(out.shape) != (N, H, T) or tuple(out2.shape) != (N, H, T):
                        ctx.fail("compute_hedge has the wrong shape", case, key="compute_hedge:nonpositive:shape", detail=list(out.shape))
                        continue
                    base, pert = out.tolist(), out2.tolist()
                    last_column(case, base, "compute_hedge:nonpositive:last-column")
                    lookahead(case, names, f"{ukind} / {mk['option']} ({origin})", base, pert, t, m2, "compute_hedge:nonpositive:lookahead")
                    if exists and origin == "injected":
                        has_log = any(nm in LOG_FEATURES for nm in names)
                        for p in range(N):
                            # the model's Float carrier follows IEEE arithmetic, but its relu and its running maximum are written with comparisons
                            # (torch propagates nan through both): scenarios whose nan would pass through one of them are not sent
                            if has_log and (ms["relu"] or (wrapped and sub_ms["relu"])):
                                continue
                            if "max_log_moneyness" in names and any(x < 0 for x in mk["spot"][p]):
                                continue
                            reqs.append({"op": "hedge", "market": market_json(mk, p), "features": fj, "model": model_json(ms), "n": T, "h": H})
                            metas.append((case | {"kind": "x", "path": p}, has_log or "time_to_maturity" in names,
                                          [[base[p][hh][tt] for hh in range(H)] for tt in range(T)]))
    # ---------- (2) the closed-form models BlackScholes (all steps at once) and WhalleyWilmott (step by step) on a European option
    for it in range(30 if ctx.tier == "quick" else 200):
        mk = gen_market(g, primary=g.choice(["BrownianStock", "HestonStock", "MertonJumpStock"]))
        mk["option"] = "EuropeanOption"
        T, N = mk["T"], mk["N"]
        mk["vol"] = [[v if v > 0 else F(1, 4) for v in r] for r in mk["vol"]]
        mk["var"] = [[v * v for v in r] for r in mk["vol"]]
        # torch's Normal.cdf REJECTS nan (ValueError): the closed-form models produce a hedge for prices that hit zero (log = -inf), and
        # raise as soon as one price of the tensor is negative (no hedge: nothing to compare).  Mostly zeros, negative values now and then.
        negatives = g.chance(0.2)
        j0 = make_nonpositive(g, mk, values=NP_VALUES if negatives else [F(0)])
        d, u = build_derivative(torch, mk)
        kind = g.choice(["bs", "ww"])
        if kind == "bs":
            model = BlackScholes(d)
            names = ["log_moneyness", "time_to_maturity", "volatility"]
            msj = {"kind": "bs_european", "call": mk["call"], "k": float_bits(float(mk["strike"]))}
        else:
            a = g.choice([0.25, 1.0, 3.0])
            model = WhalleyWilmott(d, a=a)
            names = ["log_moneyness", "time_to_maturity", "volatility", "prev_hedge"]
            msj = {"kind": "ww_european", "call": mk["call"], "k": float_bits(float(mk["strike"])),
                   "cost": float_bits(float(mk["cost"])), "a": float_bits(a)}
        hedger = Hedger(model, list(model.inputs()))
        t = g.randint(j0, T - 2)
        m2 = perturb_np(g, mk, t, negatives=negatives)
        case = {"nonpositive_prices": "injected", "kind": kind, "H": 1, "features": names, "model": msj, "option": mk["option"], "primary": mk["primary"],
                "T": T, "N": N, "spot": enc_rat(mk["spot"]), "vol": enc_rat(mk["vol"]), "strike": rat_str(mk["strike"]),
                "dt": rat_str(mk["dt"]), "call": mk["call"], "cost": rat_str(mk["cost"]), "t": t}
        with torch.no_grad():
            inject(torch, u, mk)
            st, out, mut = call_impl(hedger.compute_hedge, d, [u], watch=[("derivative", d)])
            inject(torch, u, m2)
            st2, out2, _ = call_impl(hedger.compute_hedge, d, [u])
            inject(torch, u, mk)
        if mut:
            ctx.mutated("compute_hedge", mut, case)
        if negatives and (st != "ok" or st2 != "ok"):
            ctx.case(case, False, tag=f"nonpositive_prices:{kind}:raises-on-nan")
            continue
        ctx.case(case, True, tag=f"nonpositive_prices:{kind}")
        ctx.traces += 1
        if (st != "ok" or st2 != "ok") and not negatives:
            ctx.fail("compute_hedge of a closed-form model raised on a price series with non-positive entries (or on only one of two markets that "
                     "differ after step t only)", case, key="compute_hedge:nonpositive:error",
                     detail={"base": str(out)[:120] if st != "ok" else "ok", "perturbed": str(out2)[:120] if st2 != "ok" else "ok"})
            continue
        if tuple(out.shape) != (N, 1, T) or tuple(out2.shape) != (N, 1, T):
            ctx.fail("compute_hedge has the wrong shape", case, key="compute_hedge:nonpositive:shape", detail=list(out.shape))
            continue
        base, pert = out.tolist(), out2.tolist()
        last_column(case, base, "compute_hedge:nonpositive:last-column")
        lookahead(case, names, f"{mk['primary']} / EuropeanOption, model {kind}", base, pert, t, m2, "compute_hedge:nonpositive:lookahead")
        fj = [feature_json(nm) for nm in names]
        for p in range(N):
            reqs.append({"op": "hedge", "market": market_json(mk, p), "features": fj, "model": msj, "n": T, "h": 1})
            metas.append((case | {"path": p}, True, [[base[p][0][tt]] for tt in range(T)]))
    # ---------- (3) a ModuleOutput(log_moneyness, prev_hedge) feature OBJECT shared by two hedgers evaluated alternately
    for it in range(12 if ctx.tier == "quick" else 100):
        mk = gen_market(g, primary="BrownianStock")
        mk["option"] = g.choice(OPTION_TYPES)
        T, N = mk["T"], mk["N"]
        j0 = make_nonpositive(g, mk)
        d, u = build_derivative(torch, mk)
        inner_name = g.choice(["log_moneyness", "max_log_moneyness", "underlier_log_spot", "log_spot", "moneyness"])
        sub_ms = gen_linear(g, 2, 1)
        top1, top2 = gen_linear(g, 2, 1), gen_linear(g, 2, 1)

        def mk_feature():
            return ModuleOutput(model_obj(torch, sub_ms), [feature_obj(torch, inner_name, mk), "prev_hedge"])
        shared = mk_feature()
        hA = Hedger(model_obj(torch, top1), [shared, "time_to_maturity"])
        hB = Hedger(model_obj(torch, top2), [shared, "time_to_maturity"])
        hB_own = Hedger(model_obj(torch, top2), [mk_feature(), "time_to_maturity"])
        t = g.randint(j0, T - 2)
        m2 = perturb_np(g, mk, t)
        case = {"nonpositive_prices": "injected", "shared_module_output": inner_name, "option": mk["option"], "T": T, "N": N, "spot": enc_rat(mk["spot"]),
                "strike": rat_str(mk["strike"]), "dt": rat_str(mk["dt"]), "sub": model_json(sub_ms), "top": [model_json(top1), model_json(top2)], "t": t}
        ctx.case(case, True, tag="nonpositive_prices:shared_feature_objects")
        ctx.traces += 1
        with torch.no_grad():
            inject(torch, u, mk)
            sA, oA, _ = call_impl(hA.compute_hedge, d)
            sB, oB, _ = call_impl(hB.compute_hedge, d)
            sO, oO, _ = call_impl(hB_own.compute_hedge, d)
            inject(torch, u, m2)
            sA2, oA2, _ = call_impl(hA.compute_hedge, d)
            sB2, oB2, _ = call_impl(hB.compute_hedge, d)
            inject(torch, u, mk)
        if not (sA == sB == sO == sA2 == sB2 == "ok"):
            ctx.fail("compute_hedge raised for hedgers sharing a feature object on a price series with non-positive entries", case,
                     key="compute_hedge:nonpositive:error", detail=[str(x)[:80] for x in (oA, oB, oO, oA2, oB2) if not hasattr(x, "shape")])
            continue
        if not same_nan(oB.tolist(), oO.tolist()):
            ctx.fail("a hedger sharing a ModuleOutput(prev_hedge) feature object with another hedger differs from the same hedger with its own "
                     "feature objects (price series with non-positive entries)", case, key="compute_hedge:nonpositive:shared-feature:own-state",
                     detail={"shared": oB.tolist(), "own": oO.tolist()})
            continue
        last_column(case, oB.tolist(), "compute_hedge:nonpositive:last-column")
        for o, o2 in ((oA, oA2), (oB, oB2)):
            lookahead(case, [inner_name, "prev_hedge"], f"BrownianStock / {mk['option']}, shared ModuleOutput", o.tolist(), o2.tolist(), t, m2,
                      "compute_hedge:nonpositive:lookahead")


# ---- hedgers with user FORWARD HOOKS / FORWARD PRE-HOOKS ----------------------------------------------------------------------------
# A Hedger is a torch Module: the PyTorch way to constrain its positions without touching the model (lot-size rounding, position caps,
# a long-only floor) is a forward hook that returns a modified output, registered after construction on the hedger or on its model;
# a forward pre-hook transforms the features the model sees.  The hook protocol fixes what such a hedger computes:
#   * a hook on the MODEL, or a hook put in front of the hedger's own hooks (prepend=True): the hedger behaves as the hedger whose
#     model is Sequential(model, post) — `prev_hedge` reads the post-processed position;
#   * a hook appended to the hedger (the default: it runs after the hook that records `prev_hedge`): `prev_hedge` reads the raw model
#     output, the reported positions are post(positions of the hedger without the hook), element by element;
#   * a pre-hook (hedger or model): the hedger whose model is Sequential(pre, model).
# The hooks used are element-wise and made of exact / correctly rounded operations, so the implied positions are compared BITWISE.
# Whatever the hook, the position at the final index must be the one held over the last step and steps 0..t must not move when only
# later prices change.  Both evaluation orders: state-independent inputs (all steps at once) and inputs with prev_hedge (step by step).
HOOK_WHERE = ["hedger", "hedger_kwargs", "hedger_prepend", "model", "pre_hedger", "pre_model"]
HOOK_KINDS = ["lot", "cap", "lot_cap", "collar", "relu", "half", "shift"]
HOOK_MODELS = ["linear", "mlp", "prev", "prev_mlp", "bs", "ww", "naked", "modout_prev"]


def gen_hook(g, kinds=HOOK_KINDS, force=None):
    return dict(kind=force or g.choice(kinds), lot=g.choice([F(1, 2), F(1, 4), F(1, 8)]), cap=g.choice([F(1, 2), F(3, 4), F(1), F(2)]),
                floor=g.choice([F(-1, 2), F(0), F(1, 4)]))


def hook_fn(spec):
    """the element-wise post-processing (positions) / pre-processing (features) of a hook"""
    k, lot, cap, floor = spec["kind"], float(spec["lot"]), float(spec["cap"]), float(spec["floor"])
    if k == "lot":              # positions are traded in lots
        return lambda o: (o / lot).round() * lot
    if k == "cap":              # position cap
        return lambda o: o.clamp(max=cap)
    if k == "lot_cap":
        return lambda o: ((o / lot).round() * lot).clamp(max=cap)
    if k == "collar":
        return lambda o: o.clamp(min=floor, max=cap)
    if k == "relu":             # long only
        return lambda o: o.relu()
    if k == "half":
        return lambda o: o * 0.5
    if k == "shift":
        return lambda o: o + 0.25
    raise ValueError(k)


def hook_json(spec):
    return {"kind": spec["kind"], "lot": rat_str(spec["lot"]), "cap": rat_str(spec["cap"]), "floor": rat_str(spec["floor"])}


# the Lean model of the hook protocol (op "hooked_hedge"): where a harness placement sits in the model's hook lists (execution order)
HOOK_LEAN_KEY = {"hedger": "appended", "hedger_kwargs": "appended", "hedger_prepend": "prepended", "model": "model_hooks",
                 "pre_hedger": "pre", "pre_model": "model_pre"}


def hook_lean_json(spec):
    return {"kind": spec["kind"], "lot": float_bits(float(spec["lot"])), "cap": float_bits(float(spec["cap"])),
            "floor": float_bits(float(spec["floor"]))}


def same_rows(mv, rows, tol, bs):
    """model rows vs implementation rows: exact, or (log features / closed-form models) within the tolerance of the "hedge" op"""
    if not tol:
        return mv == rows
    return len(mv) == len(rows) and all(len(a) == len(b) and all((near(x, y) or (bs and abs(x - y) <= 1e-9)) for x, y in zip(a, b))
                                        for a, b in zip(mv, rows))


def hooked_hedgers(ctx, torch, g, reqs, metas, hreqs=None, hmetas=None):
    from pfhedge.nn import Hedger, BlackScholes, WhalleyWilmott
    from pfhedge.features import ModuleOutput

    class Fn(torch.nn.Module):
        def __init__(self, fn):
            super().__init__()
            self.fn = fn

        def forward(self, x):
            return self.fn(x)

    def register(hedger, where, fn):
        if where == "hedger":
            return hedger.register_forward_hook(lambda m, i, o: fn(o))
        if where == "hedger_kwargs":
            return hedger.register_forward_hook(lambda m, a, kw, o: fn(o), with_kwargs=True)
        if where == "hedger_prepend":
            return hedger.register_forward_hook(lambda m, i, o: fn(o), prepend=True)
        if where == "model":
            return hedger.model.register_forward_hook(lambda m, i, o: fn(o))
        if where == "pre_hedger":
            return hedger.register_forward_pre_hook(lambda m, a: (fn(a[0]),))
        return hedger.model.register_forward_pre_hook(lambda m, a: fn(a[0]))

    pool = [nm for nm in BASE_FEATURES if nm != "empty"]
    for rep in range(3 if ctx.tier == "quick" else 12):
        for kind in HOOK_MODELS:
            for where in HOOK_WHERE:
                mk = gen_market(g)
                T, N = mk["T"], mk["N"]
                if rep == 0 and T == 2:
                    mk = gen_market(g, T=g.choice([3, 4, 5, 6]))
                    T, N = mk["T"], mk["N"]
                stepwise = kind in ("prev", "prev_mlp", "ww", "modout_prev")
                H = 1 if kind in ("bs", "ww") else g.choice([1, 1, 2, 3])
                thr = g.choice([x for p in mk["spot"] for x in p])
                pre = where.startswith("pre_")
                # the first round: a post-processing that changes every position (shift) / every feature (half)
                if kind in ("bs", "ww") and pre:      # features of the closed-form models: the volatility must stay positive
                    spec = gen_hook(g, ["half", "cap", "shift", "relu"], force="half" if rep == 0 else None)
                else:
                    spec = gen_hook(g, force=("half" if pre else "shift") if rep == 0 else None)
                fn = hook_fn(spec)
                lean_ms = None
                if kind in ("bs", "ww"):
                    mk["option"] = "EuropeanOption"
                    if mk["primary"] == "LocalVolatilityStock":
                        mk["primary"] = "BrownianStock"
                        mk["vol"] = [[mk["sigma"]] * T for _ in range(N)]
                    mk["vol"] = [[v if v > 0 else F(1, 4) for v in r] for r in mk["vol"]]
                    mk["var"] = [[v * v for v in r] for r in mk["vol"]]
                    d, u = build_derivative(torch, mk)
                    a = g.choice([0.25, 1.0, 3.0])
                    names = ["log_moneyness", "time_to_maturity", "volatility"] + (["prev_hedge"] if kind == "ww" else [])
                    fj = [feature_json(nm) for nm in names]

                    def mk_model():
                        return BlackScholes(d) if kind == "bs" else WhalleyWilmott(d, a=a)

                    def mk_feats():
                        return list(mk_model().inputs())
                    msj = {"kind": kind, "a": a}
                    hook_msj = {"kind": "bs_european", "call": mk["call"], "k": float_bits(float(mk["strike"]))} if kind == "bs" else \
                        {"kind": "ww_european", "call": mk["call"], "k": float_bits(float(mk["strike"])), "cost": float_bits(float(mk["cost"])),
                         "a": float_bits(a)}
                else:
                    d, u = build_derivative(torch, mk)
                    names = [g.choice(pool) for _ in range(g.choice([1, 2, 3]))]
                    if kind == "modout_prev":       # prev_hedge is read INSIDE a ModuleOutput feature (e.g. a no-transaction band module)
                        sub_ms = gen_linear(g, 1 + H, 2)
                        ms = gen_linear(g, len(names) + 2, H)
                        inner, plain = names[0], list(names)

                        def mk_feats():
                            return [feature_obj(torch, nm, mk, thr) for nm in plain] + \
                                [ModuleOutput(model_obj(torch, sub_ms), [feature_obj(torch, inner, mk, thr), "prev_hedge"])]
                        fj = [feature_json(nm, thr) for nm in names] + [["module_output", model_json(sub_ms), [feature_json(inner, thr), ["prev_hedge"]]]]
                        names = names + ["module_output(prev_hedge)"]
                    else:
                        width = len(names) + (H if stepwise else 0)
                        ms = dict(kind="naked", h=H) if kind == "naked" else (gen_mlp(g, width, H) if kind in ("mlp", "prev_mlp") else gen_linear(g, width, H))
                        plain = list(names)

                        def mk_feats():
                            return [feature_obj(torch, nm, mk, thr) for nm in plain] + (["prev_hedge"] if stepwise else [])
                        fj = [feature_json(nm, thr) for nm in names] + ([["prev_hedge"]] if stepwise else [])
                        if stepwise:
                            names = names + ["prev_hedge"]

                    def mk_model():
                        return model_obj(torch, ms)
                    msj = model_json(ms)
                    hook_msj = msj
                    # the hedger the hook implies, where the model language can express it (sent to the Lean model as well)
                    if ms["kind"] == "linear" and spec["kind"] == "relu" and not pre and (where in ("hedger_prepend", "model") or not stepwise):
                        lean_ms = dict(ms, relu=True)
                    elif ms["kind"] == "linear" and spec["kind"] == "half" and pre:
                        lean_ms = dict(ms, w=[[x / 2 for x in r] for r in ms["w"]])
                    elif ms["kind"] == "mlp" and spec["kind"] == "half" and pre:
                        l0 = ms["layers"][0]
                        lean_ms = dict(ms, layers=[dict(l0, w=[[x / 2 for x in r] for r in l0["w"]])] + ms["layers"][1:])
                    if kind == "modout_prev":
                        lean_ms = None
                hedge = [u] + extra_hedges(torch, g, mk, H - 1)
                hedger = Hedger(mk_model(), mk_feats())
                handle = register(hedger, where, fn)
                # the hedger the hook protocol implies, built WITHOUT hooks
                if where in ("hedger", "hedger_kwargs"):
                    oracle, after = Hedger(mk_model(), mk_feats()), fn
                elif pre:
                    oracle, after = Hedger(torch.nn.Sequential(Fn(fn), mk_model()), mk_feats()), None
                else:
                    oracle, after = Hedger(torch.nn.Sequential(mk_model(), Fn(fn)), mk_feats()), None
                t = g.randint(0, T - 2)
                m2 = perturb(g, mk, t)
                grad_on = g.chance(0.3)
                case = {"forward_hooks": where, "hook": hook_json(spec), "kind": kind, "stepwise": stepwise, "H": H, "features": names, "thr": rat_str(thr),
                        "model": msj, "option": mk["option"], "primary": mk["primary"], "T": T, "N": N, "spot": enc_rat(mk["spot"]),
                        "vol": enc_rat(mk["vol"]), "strike": rat_str(mk["strike"]), "dt": rat_str(mk["dt"]), "call": mk["call"],
                        "cost": rat_str(mk["cost"]), "t": t, "grad_enabled": grad_on}
                with torch.set_grad_enabled(grad_on):
                    inject(torch, u, mk)
                    st, out, mut = call_impl(hedger.compute_hedge, d, hedge, watch=[("derivative", d)])
                    sto, exp, _ = call_impl(oracle.compute_hedge, d, hedge)
                    # which value do the features read?  an observing pre-hook (returns None) records `prev_output` at every call
                    seen_prev, st_obs, out_obs = [], None, None
                    if stepwise and hreqs is not None:
                        obs = hedger.register_forward_pre_hook(lambda m_, a_: seen_prev.append(m_.prev_output.detach().clone()))
                        st_obs, out_obs, _ = call_impl(hedger.compute_hedge, d, hedge)
                        obs.remove()
                    inject(torch, u, m2)
                    st2, out2, _ = call_impl(hedger.compute_hedge, d, hedge)
                    inject(torch, u, mk)
                    handle.remove()
                    st3, out3, _ = call_impl(hedger.compute_hedge, d, hedge)
                    stp, plain_out, _ = call_impl(Hedger(mk_model(), mk_feats()).compute_hedge, d, hedge)
                if mut:
                    ctx.mutated("compute_hedge", mut, case)
                ctx.stats[f"hooks:{where}"] += 1
                ctx.stats[f"hooks:model={kind}"] += 1
                ctx.case(case, True, tag="forward_hooks")
                ctx.traces += 1
                if not (st == sto == st2 == st3 == stp == "ok"):
                    ctx.fail("compute_hedge raised for a hedger with a user forward (pre-)hook, for the hedger the hook implies, or after the hook was "
                             "removed", case, key="compute_hedge:hooks:error",
                             detail=[str(x)[:100] for x in (out, exp, out2, out3, plain_out) if not hasattr(x, "shape")])
                    continue
                out, exp, out2, out3, plain_out = (x.detach() for x in (out, exp, out2, out3, plain_out))
                if after is not None:
                    exp = after(exp)
                if tuple(out.shape) != (N, H, T) or tuple(out2.shape) != (N, H, T):
                    ctx.fail("compute_hedge has the wrong shape (hedger with a forward hook)", case, key="compute_hedge:hooks:shape", detail=list(out.shape))
                    continue
                base, pert = out.tolist(), out2.tolist()
                # --- no trade at maturity, whatever the hook does to the positions
                if any(not same_nan(r[T - 1], r[T - 2]) for pth in base for r in pth) or any(not same_nan(r[T - 1], r[T - 2]) for pth in pert for r in pth):
                    ctx.fail(f"the position at the final time index differs from the one held over the last step for a hedger with a user forward "
                             f"{'pre-' if pre else ''}hook ({where}, {spec['kind']}): a trade at maturity", case, key="compute_hedge:hooks:last-column",
                             detail={"hedge": base, "hedge_perturbed_market": pert})
                # --- perturbation experiment
                for p in range(N):
                    bad = [hh for hh in range(H) if not same_nan(base[p][hh][: t + 1], pert[p][hh][: t + 1])]
                    if bad:
                        hh = bad[0]
                        ctx.fail("hedge ratios for steps 0..t change when only prices/variances after step t are changed (look-ahead; hedger with a user "
                                 "forward hook)", case | {"perturbed_spot": enc_rat(m2["spot"]), "perturbed_vol": enc_rat(m2["vol"])},
                                 key="compute_hedge:hooks:lookahead", detail={"before": base[p][hh][: t + 1], "after": pert[p][hh][: t + 1], "path": p})
                        break
                # --- every step agrees with what the hook protocol implies
                if not same_nan(base, exp.tolist()):
                    ctx.fail(f"the positions of a hedger with a user forward {'pre-' if pre else ''}hook ({where}) differ from the ones the hook implies "
                             "(the hook-free hedger composed with the same processing)", case, key="compute_hedge:hooks:implied",
                             detail={"hedge": base, "implied": exp.tolist()})
                if not same_nan(out3.tolist(), plain_out.tolist()):
                    ctx.fail("after the hook was removed the hedger differs from a hedger that never had one", case, key="compute_hedge:hooks:removed",
                             detail={"hedge": out3.tolist(), "plain": plain_out.tolist()})
                if lean_ms is not None:
                    tol = any(nm in LOG_FEATURES or nm == "time_to_maturity" for nm in names)
                    for p in range(N):
                        reqs.append({"op": "hedge", "market": market_json(mk, p), "features": fj, "model": model_json(lean_ms), "n": T, "h": H})
                        metas.append((case | {"path": p}, tol, [[base[p][hh][tt] for hh in range(H)] for tt in range(T)]))
                        ctx.stats["hooks:sent-to-model"] += 1
                # --- the Lean model of the hook protocol on the same scenario: positions and the values read by prev_hedge
                if hreqs is not None:
                    tol = kind in ("bs", "ww") or any(nm in LOG_FEATURES or nm == "time_to_maturity" for nm in names)
                    if tol and spec["kind"] in ("lot", "lot_cap"):
                        # rounding to lots is discontinuous: a last-bit difference of a logarithm may move a position by a whole lot
                        ctx.stats["hooks:protocol-model:skipped(lot rounding of inexact features)"] += 1
                        continue
                    reads = None
                    if stepwise:
                        if st_obs != "ok" or not same_nan(out_obs.detach().tolist(), base) or len(seen_prev) != T - 1 or \
                                any(tuple(x.shape) != (N, 1, H) for x in seen_prev):
                            ctx.fail("an observing forward pre-hook (returning None) changes the hedge, or the hedger was not called once per step "
                                     "with a (N, 1, H) prev_output", case, key="compute_hedge:hooks:observer",
                                     detail={"calls": len(seen_prev), "shapes": [list(x.shape) for x in seen_prev][:4]})
                            continue
                        reads = [x.tolist() for x in seen_prev]
                    for p in range(N):
                        hreqs.append({"op": "hooked_hedge", "market": market_json(mk, p), "features": fj, "model": hook_msj, "n": T, "h": H,
                                      HOOK_LEAN_KEY[where]: [hook_lean_json(spec)]})
                        hmetas.append((case | {"path": p}, tol, [[base[p][hh][tt] for hh in range(H)] for tt in range(T)],
                                       None if reads is None else [[reads[tt][p][0][hh] for hh in range(H)] for tt in range(T - 1)]))
                        ctx.stats["hooks:protocol-model"] += 1

    # ---- SEVERAL hooks at once, in every placement (also prepended model hooks / prepended pre-hooks), registered in random order: the order
    # in which torch runs them (registration order, prepend=True in front, the one prepended last first) and the position of pfhedge's own
    # hook among them decide both the positions and what prev_hedge reads.  Compared with the Lean model of the protocol; last column and
    # perturbation experiment on the real code as above.
    if hreqs is None:
        return
    for rep in range(18 if ctx.tier == "quick" else 90):
        kind = g.choice(["linear", "mlp", "prev", "prev", "prev_mlp", "prev_mlp"])
        mk = gen_market(g, T=g.choice([3, 4, 5, 6]))
        T, N = mk["T"], mk["N"]
        stepwise = kind in ("prev", "prev_mlp")
        H = g.choice([1, 1, 2, 3])
        thr = g.choice([x for p in mk["spot"] for x in p])
        d, u = build_derivative(torch, mk)
        names = [g.choice(pool) for _ in range(g.choice([1, 2, 3]))]
        width = len(names) + (H if stepwise else 0)
        ms = gen_mlp(g, width, H) if kind in ("mlp", "prev_mlp") else gen_linear(g, width, H)
        feats = [feature_obj(torch, nm, mk, thr) for nm in names] + (["prev_hedge"] if stepwise else [])
        fj = [feature_json(nm, thr) for nm in names] + ([["prev_hedge"]] if stepwise else [])
        tol = any(nm in LOG_FEATURES or nm == "time_to_maturity" for nm in names)
        hedge = [u] + extra_hedges(torch, g, mk, H - 1)
        hedger = Hedger(model_obj(torch, ms), feats)
        lists = {k: [] for k in ("prepended", "appended", "pre", "model_pre", "model_hooks")}
        placed = []
        for _ in range(g.choice([2, 3, 4, 5])):
            where = g.choice(HOOK_WHERE + ["hedger", "hedger_prepend", "model_prepend", "pre_hedger_prepend"])
            spec = gen_hook(g, [k for k in HOOK_KINDS if not (tol and k in ("lot", "lot_cap"))])
            fn, hj = hook_fn(spec), hook_lean_json(spec)
            if where == "model_prepend":
                hedger.model.register_forward_hook(lambda m_, i_, o_, fn=fn: fn(o_), prepend=True)
                lists["model_hooks"].insert(0, hj)
            elif where == "pre_hedger_prepend":
                hedger.register_forward_pre_hook(lambda m_, a_, fn=fn: (fn(a_[0]),), prepend=True)
                lists["pre"].insert(0, hj)
            else:
                register(hedger, where, fn)
                if where == "hedger_prepend":
                    lists["prepended"].insert(0, hj)
                else:
                    lists[HOOK_LEAN_KEY[where]].append(hj)
            placed.append([where, hook_json(spec)])
        if stepwise:
            names = names + ["prev_hedge"]
        t = g.randint(0, T - 2)
        m2 = perturb(g, mk, t)
        grad_on = g.chance(0.3)
        case = {"forward_hooks": "several", "hooks_in_registration_order": placed, "kind": kind, "stepwise": stepwise, "H": H, "features": names,
                "thr": rat_str(thr), "model": model_json(ms), "option": mk["option"], "primary": mk["primary"], "T": T, "N": N,
                "spot": enc_rat(mk["spot"]), "vol": enc_rat(mk["vol"]), "strike": rat_str(mk["strike"]), "dt": rat_str(mk["dt"]),
                "call": mk["call"], "cost": rat_str(mk["cost"]), "t": t, "grad_enabled": grad_on}
        seen_prev = []
        with torch.set_grad_enabled(grad_on):
            inject(torch, u, mk)
            st, out, mut = call_impl(hedger.compute_hedge, d, hedge, watch=[("derivative", d)])
            st_obs, out_obs = "ok", out
            if stepwise:
                obs = hedger.register_forward_pre_hook(lambda m_, a_: seen_prev.append(m_.prev_output.detach().clone()))
                st_obs, out_obs, _ = call_impl(hedger.compute_hedge, d, hedge)
                obs.remove()
            inject(torch, u, m2)
            st2, out2, _ = call_impl(hedger.compute_hedge, d, hedge)
            inject(torch, u, mk)
        if mut:
            ctx.mutated("compute_hedge", mut, case)
        ctx.stats["hooks:several"] += 1
        ctx.case(case, True, tag="forward_hooks_several")
        ctx.traces += 1
        if not (st == st2 == st_obs == "ok"):
            ctx.fail("compute_hedge raised for a hedger with several user forward (pre-)hooks", case, key="compute_hedge:hooks:error",
                     detail=[str(x)[:100] for x in (out, out2, out_obs) if not hasattr(x, "shape")])
            continue
        out, out2, out_obs = out.detach(), out2.detach(), out_obs.detach()
        if tuple(out.shape) != (N, H, T) or tuple(out2.shape) != (N, H, T):
            ctx.fail("compute_hedge has the wrong shape (hedger with several forward hooks)", case, key="compute_hedge:hooks:shape", detail=list(out.shape))
            continue
        base, pert = out.tolist(), out2.tolist()
        if any(not same_nan(r[T - 1], r[T - 2]) for pth in base for r in pth) or any(not same_nan(r[T - 1], r[T - 2]) for pth in pert for r in pth):
            ctx.fail("the position at the final time index differs from the one held over the last step for a hedger with several user forward "
                     "(pre-)hooks: a trade at maturity", case, key="compute_hedge:hooks:last-column", detail={"hedge": base, "hedge_perturbed_market": pert})
        for p in range(N):
            bad = [hh for hh in range(H) if not same_nan(base[p][hh][: t + 1], pert[p][hh][: t + 1])]
            if bad:
                hh = bad[0]
                ctx.fail("hedge ratios for steps 0..t change when only prices/variances after step t are changed (look-ahead; hedger with several "
                         "user forward hooks)", case | {"perturbed_spot": enc_rat(m2["spot"]), "perturbed_vol": enc_rat(m2["vol"])},
                         key="compute_hedge:hooks:lookahead", detail={"before": base[p][hh][: t + 1], "after": pert[p][hh][: t + 1], "path": p})
                break
        reads = None
        if stepwise:
            if not same_nan(out_obs.tolist(), base) or len(seen_prev) != T - 1 or any(tuple(x.shape) != (N, 1, H) for x in seen_prev):
                ctx.fail("an observing forward pre-hook (returning None) changes the hedge, or the hedger was not called once per step "
                         "with a (N, 1, H) prev_output", case, key="compute_hedge:hooks:observer",
                         detail={"calls": len(seen_prev), "shapes": [list(x.shape) for x in seen_prev][:4]})
                continue
            reads = [x.tolist() for x in seen_prev]
        for p in range(N):
            hreqs.append({"op": "hooked_hedge", "market": market_json(mk, p), "features": fj, "model": model_json(ms), "n": T, "h": H} | lists)
            hmetas.append((case | {"path": p}, tol, [[base[p][hh][tt] for hh in range(H)] for tt in range(T)],
                           None if reads is None else [[reads[tt][p][0][hh] for hh in range(H)] for tt in range(T - 1)]))
            ctx.stats["hooks:protocol-model:several"] += 1


# ---- Black-Scholes type models fed with a PARTIAL input list ------------------------------------------------------------------------
# A Black-Scholes module built from a derivative (BlackScholes(derivative) for the four options, WhalleyWilmott(derivative)) takes its
# arguments as OPTIONAL: a Hedger (or a ModuleOutput feature) may be given a strict subset of `model.inputs()`; what is left out is read
# from the derivative by the module itself.  On the unchanged library many of these configurations produce no hedge (the (N, T) tensor
# read from the underlier does not broadcast against the (N, T', 1) features: a shape error, or a result that is not (N, H, T)): that is
# recorded and skipped, nothing can anticipate.  Whenever a (N, H, T) hedge IS produced it has to be non-anticipative and must not trade
# at maturity.  Underliers: all those whose volatility / variance changes in time; every column after t of every buffer is changed.
PI_UNDERLIERS = ["HestonStock", "RoughBergomiStock", "LocalVolatilityStock", "custom_vol_var"]
PI_KINDS = ["bs", "ww", "bs_as_feature", "ww_as_feature"]
PI_VOLS = [F(1, 4), F(1, 2), F(3, 4), F(1), F(3, 8)]


def gen_market_tv(g, ukind, T=None, N=None):
    """a market on an underlier with time-varying volatility (strictly positive), T >= 3 unless given"""
    T = T or g.choice([3, 4, 5, 6])
    mk = gen_market(g, N=N or g.choice([1, 2, 3]), T=T, primary="LocalVolatilityStock" if ukind == "LocalVolatilityStock" else "HestonStock")
    mk["primary"] = ukind
    mk["vol"] = [[g.choice(PI_VOLS) for _ in r] for r in mk["vol"]]
    mk["var"] = [[v * v for v in r] for r in mk["vol"]]
    mk["strike"] = g.choice([F(1), F(2)])
    return mk


def perturb_all_future(g, mk, t):
    """copy of the market changed only at columns > t, and changed at EVERY such column: prices, and volatility / variance"""
    m2 = perturb(g, mk, t)
    for p in range(mk["N"]):
        for j in range(t + 1, mk["T"]):
            if m2["spot"][p][j] == mk["spot"][p][j]:
                m2["spot"][p][j] = mk["spot"][p][j] * g.choice([F(1, 2), F(3, 2), F(2)])
            if m2["vol"][p][j] == mk["vol"][p][j] or m2["vol"][p][j] <= 0:
                v = g.choice([x for x in PI_VOLS if x != mk["vol"][p][j]])
                m2["vol"][p][j] = v
                m2["var"][p][j] = v * v
    return m2


def hedge_checks(ctx, case, base, pert, t, m2, what, prefix):
    """the two statements of the property on a pair of (N, H, T) hedges (nested lists) of markets that differ after column t only"""
    T = len(base[0][0])
    if any(not same_nan(r[T - 1], r[T - 2]) for pth in base for r in pth) or any(not same_nan(r[T - 1], r[T - 2]) for pth in pert for r in pth):
        ctx.fail(f"the position at the final time index differs from the one held over the last step ({what}): a trade at maturity", case,
                 key=f"{prefix}:last-column", detail={"hedge": base, "hedge_perturbed_market": pert})
    for p in range(len(base)):
        for hh in range(len(base[p])):
            a, b = base[p][hh][: t + 1], pert[p][hh][: t + 1]
            if not same_nan(a, b):
                ctx.fail(f"hedge ratios for steps 0..t change when only prices/variances/volatilities after step t are changed (look-ahead; {what})",
                         case | {"perturbed_spot": enc_rat(m2["spot"]), "perturbed_vol": enc_rat(m2["vol"]), "perturbed_var": enc_rat(m2["var"])},
                         key=f"{prefix}:lookahead", detail={"before": a, "after": b, "path": p, "instrument": hh})
                return


def partial_input_lists(ctx, torch, g):
    from pfhedge.nn import Hedger, BlackScholes, WhalleyWilmott
    from pfhedge.features import ModuleOutput
    for rep in range(1 if ctx.tier == "quick" else 4):
        for ukind in PI_UNDERLIERS:
            for opt in OPTION_TYPES:
                for kind in PI_KINDS:
                    mk = gen_market_tv(g, ukind)
                    mk["option"] = opt
                    if opt == "LookbackOption" or opt == "AmericanBinaryOption":
                        mk["call"] = True          # the closed-form modules of these two exist for calls only
                    T, N = mk["T"], mk["N"]
                    d, u = build_x(torch, mk)
                    a = g.choice([0.25, 1.0, 3.0])
                    ww = kind.startswith("ww")
                    try:
                        full = list((WhalleyWilmott(d, a=a) if ww else BlackScholes(d)).inputs())
                    except Exception as e:  # noqa
                        ctx.stats["partial_inputs:model-not-constructible"] += 1
                        continue
                    args = full[:-1] if ww else full          # the arguments of the Black-Scholes formula, positional
                    subsets = [args[:n] for n in range(1, len(args) + 1)]        # the leading subsets (and the full list as the control)
                    pick = [nm for nm in args if g.chance(0.5)]                    # one more subsequence (arguments shift position: legal, odd)
                    if pick and pick not in subsets:
                        subsets.append(pick)
                    for sub in subsets:
                        names = sub + (["prev_hedge"] if ww else [])
                        # without and with autograd for the list that leaves out the volatility only, one of the two otherwise
                        for grad_on in ((False, True) if sub == args[:-1] else (g.chance(0.5),)):
                            model = WhalleyWilmott(d, a=a) if ww else BlackScholes(d)
                            if kind.endswith("_as_feature"):      # the module is read through a ModuleOutput feature of a linear hedger
                                top = dict(kind="linear", w=[[g.choice(NZ_W)]], b=[g.choice([F(0), F(1, 2)])], relu=False)
                                hedger = Hedger(model_obj(torch, top), [ModuleOutput(model, list(names))])
                                msj = {"kind": kind, "a": a, "top": model_json(top)}
                            else:
                                hedger = Hedger(model, list(names))
                                msj = {"kind": kind, "a": a}
                            t = g.choice([0, T - 3, g.randint(0, T - 2)])
                            m2 = perturb_all_future(g, mk, t)
                            case = {"partial_inputs": True, "kind": kind, "model": msj, "inputs": names, "all_inputs": full, "H": 1, "option": opt,
                                    "primary": ukind, "T": T, "N": N, "spot": enc_rat(mk["spot"]), "vol": enc_rat(mk["vol"]), "var": enc_rat(mk["var"]),
                                    "strike": rat_str(mk["strike"]), "dt": rat_str(mk["dt"]), "call": mk["call"], "cost": rat_str(mk["cost"]), "t": t,
                                    "grad_enabled": grad_on}
                            with torch.set_grad_enabled(grad_on):
                                inject_x(torch, u, mk)
                                st, out, mut = call_impl(hedger.compute_hedge, d, [u], watch=[("derivative", d)])
                                st2, out2 = st, out
                                if st == "ok":        # (no hedge on the market itself: nothing to compare)
                                    inject_x(torch, u, m2)
                                    st2, out2, _ = call_impl(hedger.compute_hedge, d, [u])
                                    inject_x(torch, u, mk)
                            if mut:
                                ctx.mutated("compute_hedge", mut, case)
                            strict = len(sub) < len(args) or sub != args
                            produced = st == "ok" and st2 == "ok" and tuple(out.shape) == (N, 1, T) and tuple(out2.shape) == (N, 1, T)
                            ctx.stats[f"partial_inputs:{'strict-subset' if strict else 'all-inputs'}:{'hedge' if produced else 'no-hedge'}"] += 1
                            if not produced:
                                # no (N, H, T) hedge (shape error of the broadcast against the tensors read from the derivative): nothing to anticipate
                                ctx.case(case | {"outcome": str(out)[:80] if st != "ok" else list(out.shape)}, False, tag="partial_inputs:no-hedge")
                                continue
                            ctx.case(case, True, tag="partial_inputs")
                            ctx.traces += 1
                            hedge_checks(ctx, case, out.detach().tolist(), out2.detach().tolist(), t, m2,
                                         f"{kind} model of a {opt} on {ukind} with inputs {names} out of {full}", "compute_hedge:partial-inputs")


# ---- user modules whose output ALIASES their input ----------------------------------------------------------------------------------
# A hedging model is any torch Module.  Legitimate user models return a VIEW of the input they are given (a feature selector
# `x[..., a:a+H]`, `select`, a strided slice, an expanded column), the input ITSELF (torch.nn.Identity behind a ModuleOutput feature that
# has the width of the hedge), or modify the input in place before handing (part of) it back.  The positions of such a hedger are fixed by
# the definition of compute_hedge: step by step, out_j = model(cat(features_j, out_{j-1})), out_{-1} = 0, evaluated here with a fresh
# input per step and the result copied; all steps at once, out = model(features[:, :-1]).  Compared BITWISE with what compute_hedge
# returns, besides the last column and the perturbation experiment; both evaluation orders, with and without autograd.
VIEW_KINDS = ["slice", "select", "stride", "expand", "identity", "inplace_half", "inplace_shift", "inplace_clamp"]


def view_fn(kind, a, H):
    """(the user function on a (N, T', F) input, its description as weights of a linear map (w, b) where there is one)"""
    if kind == "slice":
        return lambda x: x[..., a:a + H]
    if kind == "select":
        return lambda x: x.select(-1, a).unsqueeze(-1)
    if kind == "stride":
        return lambda x: x[..., a::2][..., :H]
    if kind == "expand":
        return lambda x: x[..., a:a + 1].expand(*x.shape[:-1], H)
    if kind == "identity":
        return lambda x: x
    if kind == "inplace_half":
        return lambda x: x.mul_(0.5)[..., a:a + H]
    if kind == "inplace_shift":
        def f(x):
            y = x[..., a:a + H]
            y.add_(0.25)
            return y
        return f
    if kind == "inplace_clamp":
        def f(x):
            x.clamp_(max=1.0)
            return x[..., a:a + H]
        return f
    raise ValueError(kind)


def view_linear(kind, a, H, width):
    """the same map as a linear model of the model language (None if it is not one)"""
    cols = {"slice": [a + i for i in range(H)], "select": [a], "stride": [a + 2 * i for i in range(H)], "expand": [a] * H,
            "inplace_half": [a + i for i in range(H)], "inplace_shift": [a + i for i in range(H)]}.get(kind)
    if cols is None:
        return None
    s = F(1, 2) if kind == "inplace_half" else F(1)
    return dict(kind="linear", w=[[s if c == col else F(0) for c in range(width)] for col in cols],
                b=[F(1, 4) if kind == "inplace_shift" else F(0)] * H, relu=False)


def view_models(ctx, torch, g, reqs, metas):
    from pfhedge.nn import Hedger
    from pfhedge.features import ModuleOutput, FeatureList

    class UserModel(torch.nn.Module):
        def __init__(self, fn):
            super().__init__()
            self.fn = fn

        def forward(self, x):
            return self.fn(x)

    pool = [nm for nm in BASE_FEATURES if nm != "empty"]
    varying = ["moneyness", "log_moneyness", "underlier_spot", "spot", "time_to_maturity"]
    for rep in range(4 if ctx.tier == "quick" else 16):
        for kind in VIEW_KINDS:
            for stepwise in (True, False):
                for grad_on in (False, True):
                    mk = gen_market(g, T=g.choice([4, 5, 6, 8]) if rep == 0 else g.choice([2, 3, 4, 5, 6]))
                    T, N = mk["T"], mk["N"]
                    d, u = build_derivative(torch, mk)
                    thr = g.choice([x for p in mk["spot"] for x in p])
                    H = 1 if kind == "select" else g.choice([1, 1, 2])
                    k = g.choice([1, 2, 3])
                    if not stepwise:
                        k = H if kind == "identity" else max(k, H)      # identity: the features ARE the positions
                    if kind == "stride" and not stepwise:
                        k = max(k, 2 * H - 1)
                    # the first round: features that move with the price / the time at every step
                    names = [g.choice(varying if rep == 0 else pool) for _ in range(k)]
                    width = k + (H if stepwise else 0)
                    if kind == "stride":
                        a = g.randint(0, width - (2 * H - 1))
                    elif kind in ("select", "expand"):
                        a = g.randint(0, width - 1)
                    else:
                        a = g.randint(0, width - H)
                    if rep == 0 and kind != "identity":
                        a = 0                                  # a pure feature selector
                    fn = view_fn(kind, a, H)
                    sub_ms = None
                    if kind == "identity" and stepwise:         # the model hands back its input: a ModuleOutput feature of the width of the hedge
                        sub_ms = gen_linear(g, width, H, relu=False)
                        if rep == 0:
                            sub_ms["w"][0][0] = F(1)
                        feats = [ModuleOutput(model_obj(torch, sub_ms), [feature_obj(torch, nm, mk, thr) for nm in names] + ["prev_hedge"])]
                        model = torch.nn.Identity()
                    else:
                        feats = [feature_obj(torch, nm, mk, thr) for nm in names] + (["prev_hedge"] if stepwise else [])
                        model = UserModel(fn)
                    hedger = Hedger(model, feats)
                    hedge = [u] + extra_hedges(torch, g, mk, H - 1)
                    t = g.choice([0, max(0, T - 3), g.randint(0, T - 2)])
                    m2 = perturb_all_future(g, mk, t)
                    case = {"view_model": kind, "kind": "view:" + kind, "offset": a, "stepwise": stepwise, "H": H, "features": names, "thr": rat_str(thr),
                            "sub": model_json(sub_ms) if sub_ms else None, "option": mk["option"], "primary": mk["primary"], "T": T, "N": N,
                            "spot": enc_rat(mk["spot"]), "vol": enc_rat(mk["vol"]), "strike": rat_str(mk["strike"]), "dt": rat_str(mk["dt"]),
                            "call": mk["call"], "cost": rat_str(mk["cost"]), "t": t, "grad_enabled": grad_on}
                    with torch.set_grad_enabled(grad_on):
                        inject(torch, u, mk)
                        st, out, mut = call_impl(hedger.compute_hedge, d, hedge, watch=[("derivative", d)])
                        # the definition, with a fresh input per evaluation and every result copied
                        X = FeatureList([feature_obj(torch, nm, mk, thr) for nm in names]).of(d).get(None).detach().clone()      # (N, T, k)
                        sub = model_obj(torch, sub_ms) if sub_ms else None
                        with torch.no_grad():
                            if stepwise:
                                prev, steps = X.new_zeros((N, 1, H)), []
                                for j in range(T - 1):
                                    inp = torch.cat([X[:, j:j + 1], prev], dim=-1)
                                    prev = (sub(inp) if sub is not None else fn(inp)).clone()
                                    steps.append(prev)
                                exp = torch.cat(steps + [steps[-1]], dim=1).transpose(1, 2)
                            else:
                                o = fn(X[:, :-1].clone()).clone()
                                exp = torch.cat([o, o[:, -1:]], dim=1).transpose(1, 2)
                        inject(torch, u, m2)
                        st2, out2, _ = call_impl(hedger.compute_hedge, d, hedge)
                        inject(torch, u, mk)
                    if mut:
                        ctx.mutated("compute_hedge", mut, case)
                    ctx.stats[f"view_model:{kind}"] += 1
                    ctx.case(case, True, tag="view_models")
                    ctx.traces += 1
                    if st != "ok" or st2 != "ok":
                        ctx.fail("compute_hedge raised for a user model whose output is a view of its input / its input / its input modified in place",
                                 case, key="compute_hedge:view-model:error",
                                 detail={"base": str(out)[:120] if st != "ok" else "ok", "perturbed": str(out2)[:120] if st2 != "ok" else "ok"})
                        continue
                    if tuple(out.shape) != (N, H, T) or tuple(out2.shape) != (N, H, T):
                        ctx.fail("compute_hedge has the wrong shape (user model returning a view of its input)", case, key="compute_hedge:view-model:shape",
                                 detail=list(out.shape))
                        continue
                    base, pert = out.detach().tolist(), out2.detach().tolist()
                    hedge_checks(ctx, case, base, pert, t, m2, f"user model '{kind}' returning (a view of) its input, "
                                 f"{'step by step' if stepwise else 'all steps at once'}", "compute_hedge:view-model")
                    if not same_nan(base, exp.tolist()):
                        ctx.fail(f"the positions of a hedger whose user model returns (a view of) its input ('{kind}', "
                                 f"{'step by step' if stepwise else 'all steps at once'}) differ from model(features_j, previous position) evaluated "
                                 "step by step on fresh inputs", case, key="compute_hedge:view-model:stepwise-semantics",
                                 detail={"hedge": base, "definition": exp.tolist()})
                    # the same map in the model language (a linear model with 0 / 1 weights): the Lean model of compute_hedge
                    lin = view_linear(kind, a, H, width)
                    if lin is not None:
                        fj = [feature_json(nm, thr) for nm in names] + ([["prev_hedge"]] if stepwise else [])
                        tol = any(nm in LOG_FEATURES or nm == "time_to_maturity" for nm in names)
                        for p in range(N):
                            reqs.append({"op": "hedge", "market": market_json(mk, p), "features": fj, "model": model_json(lin), "n": T, "h": H})
                            metas.append((case | {"path": p}, tol, [[base[p][hh][tt] for hh in range(H)] for tt in range(T)]))
                            ctx.stats["view_model:sent-to-model"] += 1


# ---- LARGE simulations ----------------------------------------------------------------------------------------------------------------
# Everything above runs on markets of a few paths and a few steps.  Production simulations have tens of thousands of paths (or thousands
# of time points), i.e. feature tensors of several million elements; the property quantifies over ALL simulated paths, so whatever
# compute_hedge does for inputs of that size must obey the same two statements.  A small DETERMINISTIC corpus (every tier; float32; a tiny
# linear model with dyadic weights drawn through g; the price series drawn from a local torch.Generator whose seed comes from g, so the
# global random stream is untouched): all steps at once and, where affordable, step by step (prev_hedge among the inputs).
LARGE_CORPUS = [
    # (n_paths, n_time_points, features, also step by step)
    (30000, 41, ["log_moneyness", "time_to_maturity", "volatility"], True),
    (52000, 41, ["log_moneyness", "time_to_maturity"], True),
    (70000, 41, ["moneyness", "underlier_spot"], False),
    (180, 4001, ["log_moneyness", "time_to_maturity", "volatility"], False),     # a long maturity, few paths
]


def large_simulations(ctx, torch, g):
    import pfhedge.instruments as I
    from pfhedge.nn import Hedger
    for N, T, feats, stepwise in LARGE_CORPUS:
        for with_prev in ((False, True) if stepwise else (False,)):
            names = feats + (["prev_hedge"] if with_prev else [])
            w = [float(g.choice(NZ_W)) for _ in names]
            b = float(g.choice([F(0), F(1, 2), F(-1, 4)]))
            seed = g.randint(0, 2 ** 31 - 1)
            dt = 1.0 / 250
            gen = torch.Generator().manual_seed(seed)
            spot = torch.exp(torch.cumsum(0.02 * torch.randn(N, T, generator=gen, dtype=torch.float32), dim=1))    # (N, T), around 1
            u = I.BrownianStock(sigma=0.2, cost=1e-3, dt=dt, dtype=torch.float32)
            d = I.EuropeanOption(u, strike=1.0, maturity=(T - 1) * dt)
            model = torch.nn.Linear(len(names), 1)
            with torch.no_grad():
                model.weight.copy_(torch.tensor([w]))
                model.bias.copy_(torch.tensor([b]))
            hedger = Hedger(model, list(names))
            case = {"large": True, "N": N, "T": T, "numel_of_input": N * T * len(names), "inputs": names, "H": 1, "dtype": "float32",
                    "model": {"kind": "torch.nn.Linear", "w": w, "b": b}, "option": "EuropeanOption(strike=1)", "primary": "BrownianStock",
                    "dt": "1/250", "spot": f"exp(cumsum(0.02 * randn(N, T, generator=Generator().manual_seed({seed}), dtype=float32), dim=1))",
                    "evaluation": "step by step" if with_prev else "all steps at once"}
            what = f"{N} paths x {T} time points x {len(names)} features, {case['evaluation']}"
            with torch.no_grad():
                u.register_buffer("spot", spot)
                st, out, mut = call_impl(hedger.compute_hedge, d, [u], watch=[("derivative", d)])
            if mut:
                ctx.mutated("compute_hedge", mut, case)
            ctx.case(case, True, tag="large")
            ctx.traces += 1
            if st != "ok":
                ctx.fail(f"compute_hedge raised on a large simulation ({what})", case, key="compute_hedge:large:error", detail=str(out)[:200])
                continue
            if tuple(out.shape) != (N, 1, T):
                ctx.fail(f"compute_hedge has the wrong shape ({what})", case, key="compute_hedge:large:shape", detail=list(out.shape))
                continue
            out = out.detach()
            bad = (out[..., -1] != out[..., -2]).nonzero()
            if len(bad):
                p = int(bad[0][0])
                ctx.fail(f"the position at the final time index differs from the one held over the last step ({what}): a trade at maturity",
                         case, key="compute_hedge:large:last-column",
                         detail={"path": p, "n_paths_affected": len(bad), "hedge[path, 0, -3:]": out[p, 0, -3:].tolist(),
                                 "spot[path, -3:]": spot[p, -3:].tolist()})
            # perturbation experiments: only the price at maturity; all prices after a random step t
            for t in (T - 2, g.randint(0, T - 3)):
                f = torch.tensor([float(g.choice([F(1, 2), F(3, 4), F(5, 4), F(2)])) for _ in range(T - 1 - t)], dtype=torch.float32)
                spot2 = spot.clone()
                spot2[:, t + 1:] = spot[:, t + 1:] * f
                with torch.no_grad():
                    u.register_buffer("spot", spot2)
                    st2, out2, _ = call_impl(hedger.compute_hedge, d, [u])
                    u.register_buffer("spot", spot)
                c2 = case | {"t": t, "perturbation": f"spot[:, t+1:] multiplied column by column by {f.tolist()}"}
                ctx.case(c2, True, tag="large:perturbed")
                if st2 != "ok" or tuple(out2.shape) != (N, 1, T):
                    ctx.fail(f"compute_hedge raised / has the wrong shape on the perturbed large simulation ({what})", c2,
                             key="compute_hedge:large:error", detail=str(out2)[:200] if st2 != "ok" else list(out2.shape))
                    continue
                out2 = out2.detach()
                bad = (out[..., : t + 1] != out2[..., : t + 1]).nonzero()
                if len(bad):
                    p, j = int(bad[0][0]), int(bad[0][2])
                    ctx.fail(f"hedge ratios for steps 0..t change when only prices after step t are changed (look-ahead; {what})", c2,
                             key="compute_hedge:large:lookahead",
                             detail={"path": p, "step": j, "before": float(out[p, 0, j]), "after": float(out2[p, 0, j]), "n_entries_affected": len(bad)})
                bad = (out2[..., -1] != out2[..., -2]).nonzero()
                if len(bad):
                    p = int(bad[0][0])
                    ctx.fail(f"the position at the final time index differs from the one held over the last step (perturbed market; {what}): "
                             "a trade at maturity", c2, key="compute_hedge:large:last-column",
                             detail={"path": p, "n_paths_affected": len(bad), "hedge[path, 0, -3:]": out2[p, 0, -3:].tolist(),
                                     "spot[path, -3:]": spot2[p, -3:].tolist()})
                if t == T - 2:
                    bad = (out != out2).nonzero()
                    if len(bad):
                        p, j = int(bad[0][0]), int(bad[0][2])
                        ctx.fail(f"the hedge changes when only the price at maturity is changed ({what}): the positions depend on the maturity "
                                 "price", c2, key="compute_hedge:large:maturity-price",
                                 detail={"path": p, "index": j, "before": float(out[p, 0, j]), "after": float(out2[p, 0, j]),
                                         "n_entries_affected": len(bad)})


def check(ctx):
    torch, pfhedge = import_impl()
    from pfhedge.nn import Hedger, Naked, BlackScholes, WhalleyWilmott
    g = ctx.gen
    ctx.lean_gate()
    reqs, metas = [], []
    n = 2000 if ctx.tier == "quick" else 8000
    for _ in range(n):
        mk = gen_market(g)
        T, N = mk["T"], mk["N"]
        kind = g.weighted([("linear", 3), ("mlp", 2), ("prev", 3), ("naked", 1), ("bs", 2), ("ww", 2), ("modout", 1)])
        H = 1 if kind in ("bs", "ww") else g.choice([1, 1, 2, 3])      # number of hedging instruments
        thr = g.choice([x for p in mk["spot"] for x in p])
        msj = None
        tol = False
        if kind in ("bs", "ww"):
            mk["option"] = "EuropeanOption"
            if mk["primary"] == "LocalVolatilityStock":
                mk["primary"] = "BrownianStock"
                mk["vol"] = [[mk["sigma"]] * T for _ in range(N)]
                mk["var"] = [[mk["sigma"] ** 2] * T for _ in range(N)]
            # BS needs positive volatility
            mk["vol"] = [[v if v > 0 else F(1, 4) for v in r] for r in mk["vol"]]
            mk["var"] = [[v * v for v in r] for r in mk["vol"]]
            d, u = build_derivative(torch, mk)
            if kind == "bs":
                model = BlackScholes(d)
                names = ["log_moneyness", "time_to_maturity", "volatility"]
                msj = {"kind": "bs_european", "call": mk["call"], "k": float_bits(float(mk["strike"]))}
            else:
                a = g.choice([0.25, 1.0, 3.0])
                model = WhalleyWilmott(d, a=a)
                names = ["log_moneyness", "time_to_maturity", "volatility", "prev_hedge"]
                msj = {"kind": "ww_european", "call": mk["call"], "k": float_bits(float(mk["strike"])),
                       "cost": float_bits(float(mk["cost"])), "a": float_bits(a)}
            feats = list(model.inputs())
            fj = [feature_json(nm) for nm in names]
            tol = True
        else:
            d, u = build_derivative(torch, mk)
            k = g.choice([1, 2, 3])
            pool = [nm for nm in BASE_FEATURES if nm != "empty"]
            names = [g.choice(pool) for _ in range(k)]
            if kind == "modout":
                ins = [g.choice(["moneyness", "max_moneyness", "barrier_up", "volatility"]) for _ in range(2)]
                sub_ms = gen_linear(g, 2, 2, relu=True)
                names = names[:1]
                feats = [feature_obj(torch, names[0], mk, thr), feature_obj(torch, "module_output", mk, thr, (model_obj(torch, sub_ms), ins))]
                fj = [feature_json(names[0], thr), feature_json("module_output", thr, (model_json(sub_ms), ins))]
                ms = gen_linear(g, 3, H)
                names = names + ["module_output"]
            else:
                feats = [feature_obj(torch, nm, mk, thr) for nm in names]
                fj = [feature_json(nm, thr) for nm in names]
                width = len(names)
                if kind == "prev":
                    feats.append("prev_hedge")
                    fj.append(["prev_hedge"])
                    names = names + ["prev_hedge"]
                    width += H
                if kind == "naked":
                    ms = dict(kind="naked", h=H)
                elif kind == "mlp":
                    ms = gen_mlp(g, width, H)
                else:
                    ms = gen_linear(g, width, H)
            model = model_obj(torch, ms)
            msj = model_json(ms)
            tol = any(nm in LOG_FEATURES or nm == "time_to_maturity" for nm in names)
        hedger = Hedger(model, feats)
        hedge = [u] + extra_hedges(torch, g, mk, H - 1)
        case = {"kind": kind, "H": H, "features": names, "thr": rat_str(thr), "model": msj, "option": mk["option"], "primary": mk["primary"],
                "T": T, "N": N, "spot": enc_rat(mk["spot"]), "vol": enc_rat(mk["vol"]), "strike": rat_str(mk["strike"]),
                "dt": rat_str(mk["dt"]), "call": mk["call"], "cost": rat_str(mk["cost"])}
        # autograd switched on in a third of the cases (fit / compute_loss evaluate the hedge that way): the hedge must not depend on it
        grad_on = g.chance(0.35)
        case["grad_enabled"] = grad_on
        with torch.set_grad_enabled(grad_on):
            inject(torch, u, mk)
            st, out, mut = call_impl(hedger.compute_hedge, d, hedge, watch=[("derivative", d)])
        if st == "ok":
            out = out.detach()
        if mut:
            ctx.mutated("compute_hedge", mut, case)
        ctx.stats[f"H={H}"] += 1
        ctx.stats[f"model={kind}"] += 1
        for nm in names:
            ctx.stats[f"feature={nm}"] += 1
        if st != "ok":
            ctx.case(case, False, tag="hedge")
            ctx.fail("compute_hedge raised on a well-formed market", case, key="compute_hedge:error", detail=str(out)[:200])
            continue
        if tuple(out.shape) != (N, H, T):
            ctx.fail("compute_hedge has the wrong shape", case, key="compute_hedge:shape", detail=list(out.shape))
            continue
        base = out.tolist()
        # --- no trade at maturity
        if any(base[p][hh][T - 1] != base[p][hh][T - 2] and not (base[p][hh][T - 1] != base[p][hh][T - 1]) for p in range(N) for hh in range(H)):
            ctx.fail("the position at the final time index differs from the one held over the last step", case,
                     key="compute_hedge:last-column", detail={"hedge": base})
        # --- perturbation experiment
        t = g.randint(0, T - 2)
        m2 = perturb(g, mk, t)
        changed_stat = any(max(a) != max(b) or min(a) != min(b) for a, b in zip(mk["spot"], m2["spot"]))
        with torch.set_grad_enabled(grad_on):
            inject(torch, u, m2)
            st2, out2, _ = call_impl(hedger.compute_hedge, d, hedge)
            inject(torch, u, mk)
        if st2 == "ok":
            out2 = out2.detach()
        ctx.case(case | {"t": t}, nontrivial=changed_stat, tag="perturbation")
        ctx.traces += 1
        if st2 != "ok":
            ctx.fail("compute_hedge raised on the perturbed market", case | {"t": t}, key="compute_hedge:error")
        else:
            pert = out2.tolist()
            for p in range(N):
                for hh in range(H):
                    a, b = base[p][hh][: t + 1], pert[p][hh][: t + 1]
                    if not all(x == y or (x != x and y != y) for x, y in zip(a, b)):
                        ctx.fail("hedge ratios for steps 0..t change when only prices/variances after step t are changed (look-ahead)",
                                 case | {"t": t, "perturbed_spot": enc_rat(m2["spot"]), "perturbed_vol": enc_rat(m2["vol"])},
                                 key="compute_hedge:lookahead", detail={"before": a, "after": b, "path": p})
                        break
        for p in range(N):
            reqs.append({"op": "hedge", "market": market_json(mk, p), "features": fj, "model": msj, "n": T, "h": H})
            metas.append((case | {"path": p}, tol, [[base[p][hh][tt] for hh in range(H)] for tt in range(T)]))
    # ---------------- feature OBJECTS shared by two hedgers: a ModuleOutput whose inputs contain prev_hedge (e.g. a WhalleyWilmott
    # module used as a feature) handed to two hedgers evaluated alternately on the same derivative; the second hedger must read ITS OWN
    # previous hedge, so its positions for steps 0..t must not move when only later prices change, and must equal those of a hedger with
    # its own feature objects
    from pfhedge.features import ModuleOutput
    for it in range(40 if ctx.tier == "quick" else 400):
        mk = gen_market(g, primary="BrownianStock")
        mk["option"] = "EuropeanOption"
        T, N = mk["T"], mk["N"]
        mk["vol"] = [[v if v > 0 else F(1, 4) for v in r] for r in mk["vol"]]
        mk["var"] = [[v * v for v in r] for r in mk["vol"]]
        d, u = build_derivative(torch, mk)
        thr = g.choice([x for p in mk["spot"] for x in p])

        def mk_feature():
            inner = model_obj(torch, sub_ms)
            return ModuleOutput(inner, [feature_obj(torch, "moneyness", mk, thr), "prev_hedge"])
        sub_ms = gen_linear(g, 2, 1)
        top1, top2 = gen_linear(g, 2, 1), gen_linear(g, 2, 1)
        shared = mk_feature()
        hA = Hedger(model_obj(torch, top1), [shared, feature_obj(torch, "time_to_maturity", mk, thr)])
        hB = Hedger(model_obj(torch, top2), [shared, feature_obj(torch, "time_to_maturity", mk, thr)])
        hB_own = Hedger(model_obj(torch, top2), [mk_feature(), feature_obj(torch, "time_to_maturity", mk, thr)])
        case = {"shared_module_output": True, "T": T, "N": N, "spot": enc_rat(mk["spot"]), "strike": rat_str(mk["strike"]), "sub": model_json(sub_ms),
                "top": [model_json(top1), model_json(top2)]}
        t = g.randint(0, T - 2)
        m2 = perturb(g, mk, t)
        ctx.case(case | {"t": t}, True, tag="shared_feature_objects")
        ctx.traces += 1
        with torch.no_grad():
            inject(torch, u, mk)
            sA, oA, _ = call_impl(hA.compute_hedge, d)
            sB, oB, _ = call_impl(hB.compute_hedge, d)
            sO, oO, _ = call_impl(hB_own.compute_hedge, d)
            inject(torch, u, m2)
            sA2, oA2, _ = call_impl(hA.compute_hedge, d)
            sB2, oB2, _ = call_impl(hB.compute_hedge, d)
            inject(torch, u, mk)
        if not (sA == sB == sO == sA2 == sB2 == "ok"):
            ctx.fail("compute_hedge raised for hedgers sharing a feature object", case, key="compute_hedge:shared-feature:error",
                     detail=[str(x)[:80] for x in (oA, oB, oO, oA2, oB2) if not hasattr(x, "shape")])
            continue
        if not torch.equal(oB, oO):
            ctx.fail("a hedger sharing a ModuleOutput(prev_hedge) feature object with another hedger differs from the same hedger with its own "
                     "feature objects (it reads the other hedger's previous hedge)", case, key="compute_hedge:shared-feature:own-state",
                     detail={"shared": oB.tolist(), "own": oO.tolist()})
        elif not torch.equal(oB[..., : t + 1], oB2[..., : t + 1]):
            ctx.fail("hedge ratios for steps 0..t change when only prices/variances after step t are changed (look-ahead through a shared feature)",
                     case | {"t": t}, key="compute_hedge:lookahead", detail={"before": oB[..., : t + 1].tolist(), "after": oB2[..., : t + 1].tolist()})
    # ---------------- every built-in feature x every underlier type (incl. rates and user-defined primaries) x every derivative type
    features_x_underliers(ctx, torch, g, reqs, metas)
    # ---------------- price series with non-positive entries (rates crossing zero, prices that hit zero): every feature, the closed-form
    # models, shared feature objects
    nonpositive_prices(ctx, torch, g, reqs, metas)
    # ---------------- hedgers with user forward hooks / pre-hooks (lot-size rounding, position caps, feature transforms), registered after
    # construction on the hedger or on its model, state-independent and prev_hedge-consuming inputs
    hreqs, hmetas = [], []
    hooked_hedgers(ctx, torch, g, reqs, metas, hreqs, hmetas)
    # ---------------- Black-Scholes type models (BlackScholes of the four options, WhalleyWilmott; as the model or as a ModuleOutput feature)
    # given a strict subset of their inputs, on every underlier with time-varying volatility / variance
    partial_input_lists(ctx, torch, g)
    # ---------------- user models returning a view of their input / the input itself / the input modified in place, both evaluation orders,
    # with and without autograd
    view_models(ctx, torch, g, reqs, metas)
    # ---------------- large simulations (feature tensors of several million elements; deterministic corpus on every tier)
    large_simulations(ctx, torch, g)
    try:
        outs = ctx.driver(reqs + hreqs)
    except DriverBroken as e:
        ctx.ties_broken.append({"kind": "driver", "detail": str(e)[:1500]})
        outs = []
    outs, houts = outs[:len(reqs)], outs[len(reqs):]
    # the model of the hook protocol: positions, and the value of prev_output read at every step
    for (case, tol, rows, reads), mo in zip(hmetas, houts):
        bs = case["kind"] in ("bs", "ww")
        if "ok" not in mo:
            ctx.stats["hooks:protocol-model:disagreements"] += 1
            ctx.disagree("hooked_hedge", case, rows, mo)
            continue
        mv = dec_flt(mo["ok"])
        if not same_rows(mv, rows, tol, bs):
            ctx.stats["hooks:protocol-model:disagreements"] += 1
            ctx.disagree("hooked_hedge", case, rows, mv)
            continue
        if reads is not None:
            mr = dec_flt(mo["reads"])
            if not same_rows(mr, reads, tol, bs):
                ctx.stats["hooks:protocol-model:disagreements"] += 1
                ctx.disagree("hooked_hedge", case, reads, mr, note="value of prev_output read by the features at each step")
    for (case, tol, rows), mo in zip(metas, outs):
        if "ok" not in mo:
            ctx.disagree("hedge", case, rows, mo)
            continue
        mv = dec_flt(mo["ok"])
        if tol:
            bs = case["kind"] in ("bs", "ww")
            same = len(mv) == len(rows) and all(len(a) == len(b) and all(
                (near(x, y) or (bs and abs(x - y) <= 1e-9)) for x, y in zip(a, b)) for a, b in zip(mv, rows))
        else:
            same = mv == rows
        if not same:
            ctx.disagree("hedge", case, rows, mv)
    return ctx.finish(
        rule="real Hedger on injected dyadic markets (Brownian/Heston/Merton/LocalVol x 4 option types), 1-3 random built-in features "
             "(+prev_hedge, ModuleOutput), models linear/MLP/prev-consuming/Naked/BlackScholes/WhalleyWilmott; perturbation of all buffers at "
             "columns > t making later prices new extremes / crossing barriers / changing variance; non-trivial = perturbation changes a whole-path "
             "statistic (max/min); price series with non-positive entries (zeros, negative values, simulated VasicekRate paths crossing zero) for every "
             "feature x underlier x derivative, BlackScholes / WhalleyWilmott and shared ModuleOutput objects, the perturbation always moving the "
             "smallest positive price, nan-aware bitwise comparison; hedgers with user forward hooks / pre-hooks (on the hedger appended / prepended / "
             "with_kwargs, on the model) x all model kinds x both evaluation orders: last column, perturbation, bitwise agreement with the hook-free "
             "hedger the hook protocol implies, hook removal; every hook scenario also against the Lean model of the hook protocol (op hooked_hedge: "
             "positions and the prev_output value read at each step, exact), plus hedgers with 2-5 hooks at once in random placements and registration order; Black-Scholes type models (4 options, WhalleyWilmott, also as "
             "ModuleOutput features) with strict subsets of model.inputs() x {Heston, RoughBergomi, LocalVolatility, user primary}: no-hedge recorded, any "
             "hedge produced checked with all later columns of every buffer changed; user models returning views of / the / the in-place modified input "
             "(8 kinds x both evaluation orders x autograd on/off) against the step-by-step definition on fresh inputs, bitwise; LARGE simulations (deterministic corpus, every tier: 30000-70000 paths x 41 "
             "time points and 180 paths x 4001 time points, 2-3 features, float32, linear model; all steps at once and step by step): last column, "
             "perturbation of the maturity price only and of all prices after a random step, bitwise; distinct = sha1 of canonical case")
