"""C13 — The time grid matches maturity and step size.

correspondence: number of simulated time points of every primary (via derivative.simulate) and
OptionMixin.time_to_maturity (both forms, negative indices) vs the bit-exact Float replica of the
Lean model (Model/Grid.lean).  predicate: exact-rational reading of the property statement.
object re-use: the underlier of an existing derivative replaced (attribute assignment / re-registration) and simulated again;
every feature step by step incl. negative steps (get(i) = column i of get(None)), FeatureList.get / Hedger.get_input likewise, the
TimeToMaturity feature against the replica (op "ttm").
histories of objects (replaced underliers, two-underlier derivatives, listed derivative / other owner, mixed histories with different step
sizes) against the model of the grid over a system of instruments (Model/GridSys.lean, op "grid_sys", theorems Lemmas/C13System.lean):
object identity of every accessor, shapes of all buffers of all primaries, of time to maturity / payoff / features / hedge, error kinds.
feature objects / FeatureLists used as TEMPLATES: one object bound with .of() to two or three simulated derivatives of different maturity /
step size / number of paths, every binding used after the later ones were made (and after a re-simulation of its derivative): each stays on
the grid of ITS derivative (predicate), and answers the model's feature / features queries of its derivative (op "grid_sys").
forward-start options with maturity and start on / off the grid: step count and the observed strike-fixing grid point vs op "grid"
(n_shipped, start_shipped / start_exact); predicate: payoff by hand from the simulated prices at index floor(start/dt).
hedge VALUES: compute_hedge[:, h, i] = model output h on the features of grid step i (1-3 hedging instruments, both evaluation branches);
payoffs by hand from ALL grid points 0..T-1 of the spot buffer (every option type, calls and puts, T = 1, extreme at the first point).
"""
import math
from fractions import Fraction as F
from common import *  # noqa

DENS = [250, 365, 12, 10, 252, 100, 52, 4, 8, 360]


def expected_points(m, dt):
    """property statement on the exact values of the doubles: ceil(M/dt)+1; within rounding distance
    of an integer k: k+1.  returns a set of accepted counts (borderline band accepts both)."""
    ratio = F(m) / F(dt)
    near = round(ratio)
    dist = abs(ratio - near)
    tight = F(1, 10 ** 12) * max(1, abs(near))
    loose = F(1, 10 ** 7) * max(1, abs(near))
    if dist <= tight:
        return {near + 1}
    if dist <= loose:
        return {near + 1, math.ceil(ratio) + 1}
    return {math.ceil(ratio) + 1}


def gen_grid(g):
    den = g.choice(DENS)
    dt = 1 / den if g.chance(0.75) else g.choice([0.1, 0.01, 0.05, 0.2, 0.3])
    k = g.randint(1, 120)
    form = g.weighted([("k/den", 3), ("k*dt", 3), ("round", 1), ("noninteger", 3)])
    if form == "k/den" and dt == 1 / den:
        m = k / den
    elif form == "round":
        m = round(k * dt, 10)
    elif form == "noninteger":
        m = (k + g.choice([0.25, 0.5, 0.75, 0.1, 0.9])) * dt
    else:
        form = "k*dt"
        m = k * dt
    return m, dt, form, k


def make_primary(I, torch, name, dt, dtype):
    if name == "BrownianStock":
        return I.BrownianStock(dt=dt, dtype=dtype)
    if name == "HestonStock":
        return I.HestonStock(dt=dt, dtype=dtype)
    if name == "CIRRate":
        return I.CIRRate(dt=dt, dtype=dtype)
    if name == "VasicekRate":
        return I.VasicekRate(dt=dt, dtype=dtype)
    if name == "MertonJumpStock":
        return I.MertonJumpStock(dt=dt, dtype=dtype)
    if name == "KouJumpStock":
        return I.KouJumpStock(dt=dt, dtype=dtype)
    if name == "RoughBergomiStock":
        return I.RoughBergomiStock(dt=dt, dtype=dtype)
    if name == "LocalVolatilityStock":
        return I.LocalVolatilityStock(lambda time, spot: torch.full_like(spot, 0.2), dt=dt, dtype=dtype)
    raise ValueError(name)


PRIMS = ["BrownianStock", "HestonStock", "CIRRate", "VasicekRate", "MertonJumpStock", "KouJumpStock",
         "RoughBergomiStock", "LocalVolatilityStock"]
OPTS = ["EuropeanOption", "LookbackOption", "AmericanBinaryOption", "EuropeanBinaryOption"]


DTS = [1 / 250, 1 / 365, 1 / 12, 0.1, 0.01, 1 / 52]
RATES = ("CIRRate", "VasicekRate")


def _ulp_eps(t, T, dt):
    return 4 * 2.0 ** (-52 if t.dtype.itemsize == 8 else -23) * max(1e-300, (T - 1) * dt)


# ---------------------------------------------------------------------------------------------------------------------------
# histories of OBJECTS against the model of the grid over a system of instruments (Model/GridSys.lean, op "grid_sys"): every
# primary and derivative a section creates is given an index, every operation the section performs is recorded as a command,
# and after each simulation the real objects are asked what the model is asked: which primary an accessor returns (index =
# object identity), the shapes of all buffers of ALL primaries of the history (the replaced ones keep their old paths), the shapes
# of time to maturity / payoff / features / hedge, or the kind of the exception.  The model runs twice: with the exact step count
# on rationals ("exact": the property's reading - a horizon within rounding distance of k*dt is sent as k*dt, the policy of
# expected_points) and with the shipped double formula ("float": the code's reading); both must agree with the objects.

KIND = {"BrownianStock": "flat", "MertonJumpStock": "flat", "KouJumpStock": "flat", "HestonStock": "stochVar",
        "RoughBergomiStock": "stochVar", "LocalVolatilityStock": "localVol", "CIRRate": "rate", "VasicekRate": "rate"}


def exact_horizon(m, dts):
    """the rational the exact run takes for a horizon m used with step sizes dts: m itself, or k*dt where m/dt is within rounding
    distance of the integer k (the clause of the property, same bands as expected_points).  None: the property accepts two counts
    there, or step sizes of one derivative call for different readings"""
    vals = set()
    for dt in dts:
        ratio = F(m) / F(dt)
        near = round(ratio)
        dist = abs(ratio - near)
        if dist <= F(1, 10 ** 12) * max(1, abs(near)):
            vals.add(near * F(dt))
        elif dist <= F(1, 10 ** 7) * max(1, abs(near)):
            return None
        else:
            vals.add(F(m))
    if not vals:
        return F(m)
    return vals.pop() if len(vals) == 1 else None


class GTrace:
    """mirror of one history of real objects, replayed by the op "grid_sys" """

    def __init__(self, case, section):
        self.case, self.section = case, section
        self.P, self.D = [], []            # (object, json) of primaries / derivatives
        self.cmds, self.obs = [], []       # commands and what the real objects answered (None for operations)
        self.exact_ok = True
        self.regs = {}                     # derivative index -> current registry as the harness performed it (name -> primary object)

    def pidx(self, p):
        for i, (o, _) in enumerate(self.P):
            if o is p:
                return i
        import torch
        dt_ = p.dtype
        dts = None if dt_ is None else {torch.float64: "f64", torch.float32: "f32"}[dt_]
        self.P.append((p, [KIND[type(p).__name__], dts, [rat_str(F(p.dt)), float_bits(p.dt)]]))
        return len(self.P) - 1

    def didx(self, d):
        for i, (o, _) in enumerate(self.D):
            if o is d:
                return i
        raise KeyError("derivative not in trace")

    def scal(self, m, dts):
        ex = exact_horizon(m, dts)
        if ex is None:
            self.exact_ok = False
            ex = F(m)
        return [rat_str(ex), float_bits(m)]

    def deriv(self, d, regs, mixin, pay="ul0", pk="arith", pricer=None):
        """regs: [(name, primary object)] in the order __init__ registers them"""
        k = len(self.D)
        self.regs[k] = dict(regs)
        self.D.append((d, {"maturity": self.scal(d.maturity, [p.dt for _, p in regs]),
                           "regs": [[n, self.pidx(p)] for n, p in regs], "mixin": mixin, "pay": pay, "pk": pk, "pricer": pricer}))
        return k

    def op(self, *cmd):
        self.cmds.append(list(cmd))
        self.obs.append(None)

    def assign(self, d, name, p, route="assign"):
        k = self.didx(d)
        self.op(route, k, name, self.pidx(p))
        self.regs[k][name] = p

    def deriv_sim(self, d, n_paths):
        """the maturity the object has NOW goes with the simulation (exact run: read against the step sizes of the current registry)"""
        k = self.didx(d)
        self.op("set_maturity", k, self.scal(d.maturity, [p.dt for p in self.regs[k].values()]))
        self.op("deriv_sim", k, n_paths)

    def prim_sim(self, p, n_paths, horizon):
        self.op("prim_sim", self.pidx(p), n_paths, self.scal(horizon, [p.dt]))

    def ask(self, query, fn, conv, float_only=False):
        """fn: the call on the real objects; conv: its value -> the model's answer format"""
        try:
            got = conv(fn())
        except Exception as e:  # noqa
            got = {"err": canon_error(e)}
        self.cmds.append(["ask", query])
        self.obs.append((got, float_only))

    def request(self):
        return {"op": "grid_sys", "ambient": "f32", "prims": [j for _, j in self.P], "derivs": [j for _, j in self.D], "cmds": self.cmds}


def _shape(t):
    return {"shape": list(t.shape)}


def gs_observe(tr, d, feats, hedge_cfgs=(), names=("underlier",), listed=False, pay_names=None, singles=()):
    """ask the real objects what the model is asked (no random numbers are consumed)"""
    import torch
    from pfhedge.nn import Hedger, Naked
    from pfhedge.features import FeatureList, get_feature
    k = tr.didx(d)
    prim = lambda fn: (fn, lambda p: {"prim": tr.pidx(p)})    # noqa
    tr.ask(["underliers", k], lambda: list(d.underliers()), lambda l: {"prims": [tr.pidx(p) for p in l]})
    tr.ask(["ul", k, 0], *prim(lambda: d.ul()))
    tr.ask(["ul", k, 1], *prim(lambda: d.ul(1)))
    for n in names:
        tr.ask(["attr", k, n], *prim(lambda n=n: getattr(d, n)))
        tr.ask(["get_underlier", k, n], *prim(lambda n=n: d.get_underlier(n)))
    for i in range(len(tr.P)):
        p = tr.P[i][0]
        tr.ask(["buffers", i], lambda p=p: [[n_, list(b.shape)] for n_, b in p.named_buffers()], lambda l: {"bufs": l})
    with torch.no_grad():
        tr.ask(["ttm", k], lambda: d.time_to_maturity(None), _shape)
        if getattr(getattr(d, "underlier", None), "dtype", None) == torch.float64:
            tr.ask(["ttm_values", k], lambda: d.time_to_maturity(None)[0].tolist(), lambda l: {"values": enc_flt(l)}, float_only=True)
        if pay_names is not None:
            tr.ask(["payoff_inputs", k], lambda: [list(d.get_underlier(n).spot.shape) for n in pay_names], lambda l: {"shapes": l})
        tr.ask(["payoff", k], lambda: d.payoff(), _shape)
        for f in singles:
            tr.ask(["feature", k, f], lambda f=f: get_feature(f).of(d).get(None), _shape)
        if feats:
            tr.ask(["features", k, feats], lambda: FeatureList(feats).of(d).get(None), _shape)
        for fs, hedge, hj in hedge_cfgs:
            nh = len(hedge) if hedge is not None else len(list(d.underliers()))
            tr.ask(["hedge", k, {"model": "naked", "feats": fs, "hedge": hj}],
                   lambda fs=fs, hedge=hedge, nh=nh: Hedger(Naked(max(nh, 1)), fs).compute_hedge(d, hedge=hedge), _shape)
        if listed:
            tr.ask(["listed", k], lambda: d.spot, _shape)
            tr.ask(["feature", k, "spot"], lambda: get_feature("spot").of(d).get(None), _shape)


def _gs_norm(r):
    if "err" in r:
        return {"err": {"index_error": "runtime_error"}.get(r["err"], r["err"])}
    return r


def gs_compare(ctx, traces):
    """send the recorded histories to the model and compare every answer exactly"""
    if not traces:
        return
    try:
        outs = ctx.driver([tr.request() for tr in traces])
    except DriverBroken as e:
        ctx.ties_broken.append({"kind": "driver", "detail": str(e)[:1500]})
        return
    for tr, mo in zip(traces, outs):
        ctx.stats[f"grid_sys:{tr.section}"] += 1
        ctx.stats[f"grid_sys:exact_run_compared={tr.exact_ok}"] += 1
        for run in ("float", "exact"):
            if run == "exact" and not tr.exact_ok:
                continue
            res = mo[run]
            if "ok" not in res["init"] or len(res["steps"]) != len(tr.cmds):
                ctx.disagree("grid_sys", tr.case | {"run": run}, "constructed", res["init"])
                continue
            for i, (cmd, ob, ans) in enumerate(zip(tr.cmds, tr.obs, res["steps"])):
                ans = _gs_norm(ans)
                if ob is None:
                    if ans != {"done": True}:
                        ctx.disagree("grid_sys", tr.case | {"run": run, "at": i, "cmd": cmd}, "done", ans)
                        break
                    continue
                got, float_only = ob
                if float_only and run != "float":
                    continue
                ctx.stats["grid_sys:answers"] += 1
                if "err" in got:
                    ctx.stats[f"grid_sys:{cmd[1][0]}:{got['err']}"] += 1
                if got != ans:
                    ctx.disagree("grid_sys", tr.case | {"run": run, "at": i, "cmd": cmd, "ops": [c for c in tr.cmds[:i] if c[0] != "ask"]},
                                 got, ans)
                    break


# ---------------------------------------------------------------------------------------------------------------------------
# histories the sections below do not produce: underliers of DIFFERENT step sizes under one derivative (built-in option with a second
# underlier added by attribute assignment, user derivatives with and without OptionMixin whose registry does or does not start
# with the name `underlier`), several owners of one primary, maturities changed without a new simulation, primaries simulated
# directly, accessors and results asked BEFORE the next simulation (a replaced-in underlier without paths, stale paths of the others).
# No predicate of its own: with different step sizes there is no single grid; what the objects answer (shapes or the kind of the
# exception: AttributeError, ValueError "spot prices of the hedges must have the same size", RuntimeError of torch.cat) is
# compared with the model.

def check_mixed_histories(ctx, torch, I, g, gtraces):
    from pfhedge.instruments import BaseDerivative
    from pfhedge.instruments.derivative.base import OptionMixin

    class Pair(BaseDerivative):
        def __init__(self, regs, pay, maturity):
            super().__init__()
            for n_, p_ in regs:
                self.register_underlier(n_, p_)
            self.maturity = maturity
            self.strike = 1.0
            self.pay = tuple(pay)

        def payoff_fn(self):
            a, b = (self.get_underlier(n_).spot[..., -1] for n_ in self.pay)
            return torch.relu(a - b)

    class PairOption(Pair, OptionMixin):
        pass

    MP = ["BrownianStock", "HestonStock", "MertonJumpStock", "KouJumpStock", "LocalVolatilityStock", "CIRRate"]
    MDT = [1 / 250, 1 / 12, 0.1, 0.01, 1 / 52]
    ALLF = ["moneyness", "log_moneyness", "max_moneyness", "time_to_maturity", "underlier_spot", "volatility", "variance", "zeros"]
    for it in range(40 if ctx.tier == "quick" else 500):
        base_dt = g.choice(MDT)
        prims = []
        for _ in range(g.choice([2, 3, 3])):
            dt = base_dt if g.chance(0.35) else g.choice(MDT)
            prims.append(make_primary(I, torch, g.choice(MP), dt, g.choice([None, None, torch.float64])))
        case = {"mixed_history": True, "primaries": [[type(p).__name__, p.dt] for p in prims], "derivatives": [], "steps": []}
        tr = GTrace(case, "mixed_history")
        gtraces.append(tr)
        for p in prims:
            tr.pidx(p)
        ders = []
        for _ in range(g.choice([1, 2])):
            kind = g.choice(["option", "option", "pair", "pair_option_u1", "pair_option_u2"])
            a, b = g.choice(prims), g.choice(prims)
            m0 = (g.randint(1, 12) + g.choice([0, 0, 0.5])) * a.dt
            if kind == "option":
                d = getattr(I, g.choice(OPTS))(a, maturity=m0)
                regs, pay, mixin, pn = [("underlier", a)], None, True, None
                pk = "arith" if type(d).__name__ in ("EuropeanOption", "LookbackOption") else "indicator"
            else:
                names = {"pair": ("first", "second"), "pair_option_u1": ("underlier", "second"), "pair_option_u2": ("first", "underlier")}[kind]
                regs = [(names[0], a), (names[1], b)]
                d = (Pair if kind == "pair" else PairOption)(regs, names, m0)
                pay, mixin, pn, pk = ["named", names[0], names[1]], kind != "pair", names, "arith"
            tr.deriv(d, regs, mixin, pay="ul0" if pay is None else pay, pk=pk)
            ders.append((d, pn, kind))
            case["derivatives"].append({"kind": kind, "underliers": [[n_, prims.index(p_)] for n_, p_ in regs], "maturity": m0})
        ctx.case(case, True, tag="mixed_history")
        ctx.traces += 1

        def observe():
            for d_, pn_, kind_ in ders:
                fs = [g.choice(ALLF) for _ in range(g.choice([2, 3]))]
                hp = g.choice(prims)
                gs_observe(tr, d_, fs, names=("underlier", "first", "second"), pay_names=pn_, singles=ALLF,
                           hedge_cfgs=[(fs, None, None), (fs, [hp], [["prim", tr.pidx(hp)]])])

        for _ in range(g.choice([3, 4, 5, 6])):
            d, pn, kind = g.choice(ders)
            k = tr.didx(d)
            what = g.weighted([("deriv_sim", 5), ("assign", 3), ("register", 1), ("maturity", 2), ("prim_sim", 2)])
            ctx.stats[f"mixed_history:{what}"] += 1
            if what == "deriv_sim":
                n_ = g.choice([1, 2, 3])
                st, v, _ = call_impl(d.simulate, n_paths=n_)
                case["steps"].append({"simulate": k, "n_paths": n_, "maturity": d.maturity})
                if st != "ok":
                    ctx.fail("derivative.simulate raised", case, key="mixed-history:simulate:raise", detail=v)
                    break
                tr.deriv_sim(d, n_)
                observe()
            elif what in ("assign", "register"):
                name = g.choice(["underlier", "first", "second"] if kind != "option" else ["underlier", "underlier", "second"])
                p = g.choice(prims)
                case["steps"].append({what: k, "name": name, "primary": prims.index(p)})
                if what == "assign":
                    setattr(d, name, p)
                else:
                    d.register_underlier(name, p)
                tr.assign(d, name, p, what)
                if g.chance(0.5):
                    observe()
            elif what == "maturity":
                p = g.choice(prims)
                d.maturity = (g.randint(0, 12) + g.choice([0, 0, 0.25])) * p.dt           # (M = 0: a single time point)
                case["steps"].append({"maturity": k, "value": d.maturity})
                tr.op("set_maturity", k, tr.scal(d.maturity, [p_.dt for p_ in tr.regs[k].values()]))
            else:
                p = g.choice(prims)
                n_, hz = g.choice([1, 2, 4]), g.randint(1, 12) * p.dt
                st, v, _ = call_impl(p.simulate, n_paths=n_, time_horizon=hz)
                case["steps"].append({"simulate_primary": prims.index(p), "n_paths": n_, "time_horizon": hz})
                if st != "ok":
                    ctx.fail("primary.simulate raised", case, key="mixed-history:simulate:raise", detail=v)
                    break
                tr.prim_sim(p, n_, hz)
                observe()


# ---------------------------------------------------------------------------------------------------------------------------
# object re-use: the underlier of an EXISTING derivative is replaced (derivative.underlier = other_primary, or register_underlier
# under the same name), optionally together with a new maturity, and the derivative is simulated again: every primary the derivative
# reaches as its underlier (registry, ul(), the attribute) is on the grid of the current maturity, and time to maturity, payoff,
# features and hedges live on that one grid

def check_replace_underlier(ctx, torch, I, g, gtraces):
    from pfhedge.nn import Hedger, Naked
    from pfhedge.features import FeatureList
    RP = [x for x in PRIMS if x != "VasicekRate"]
    for it in range(40 if ctx.tier == "quick" else 600):
        p0n, dt0 = g.choice(RP), g.choice(DTS)
        opt = g.choice(OPTS)
        k0 = g.randint(1, 30)
        d = getattr(I, opt)(make_primary(I, torch, p0n, dt0, None), maturity=k0 * dt0)
        case = {"replace_underlier": True, "option": opt, "primary": p0n, "dt": dt0, "maturity": k0 * dt0, "history": []}
        tr = GTrace(case, "replace_underlier")
        gtraces.append(tr)
        tr.deriv(d, [("underlier", d.ul())], True, pk="arith" if opt in ("EuropeanOption", "LookbackOption") else "indicator")
        if g.chance(0.7):
            n0 = g.choice([1, 2, 3])
            d.simulate(n_paths=n0)
            case["history"].append({"simulate": n0})
            tr.deriv_sim(d, n0)
        routes = []
        for r in range(g.choice([1, 1, 2, 3])):
            pn, dtn = g.choice(RP), g.choice(DTS)
            new = make_primary(I, torch, pn, dtn, g.choice([None, None, torch.float64]))
            step = {"replace_by": pn, "dt": dtn}
            if g.chance(0.4):
                # the new primary has been looked at on its own before: it carries paths of another horizon
                hz, npre = g.randint(1, 30) * dtn, g.choice([1, 2, 4])
                new.simulate(n_paths=npre, time_horizon=hz)
                step["pre_simulated"] = {"time_horizon": hz, "n_paths": npre}
                tr.prim_sim(new, npre, hz)
            route = g.weighted([("assign", 5), ("register", 1)])
            routes.append(route)
            step["route"] = route
            if route == "assign":
                d.underlier = new
            else:
                d.register_underlier("underlier", new)
            tr.assign(d, "underlier", new, route)
            keep = g.chance(0.3) and d.maturity / dtn <= 40
            if not keep:
                d.maturity = (g.randint(1, 30) + g.choice([0, 0, 0, 0.5, 0.25])) * dtn
            step["maturity"] = d.maturity
            n1 = g.choice([1, 2, 3, 5])
            step["n_paths"] = n1
            case["history"].append(step)
            st, v, _ = call_impl(d.simulate, n_paths=n1)
            ctx.stats[f"replace_underlier:route={route}"] += 1
            ctx.stats[f"replace_underlier:pre_simulated={'pre_simulated' in step}"] += 1
            if st != "ok":
                ctx.fail("simulate raised on a derivative whose underlier was replaced", case, key="replace-underlier:raise", detail=v)
                break
            tr.deriv_sim(d, n1)
            gfe = ["moneyness", "time_to_maturity"] + ([] if pn in RATES else ["volatility"])
            gs_observe(tr, d, gfe, hedge_cfgs=[(gfe, None, None)], singles=["moneyness", "underlier_spot", "volatility", "max_moneyness"])
            # a re-registration after an attribute assignment is kept apart (the attribute then hides the registry)
            mixed = route == "register" and "assign" in routes[:-1]
            mk = (lambda key: "replace-underlier:register-after-assignment") if mixed else (lambda key: key)   # noqa
            M = d.maturity
            reach = [("underliers()[%d]" % i_, u_) for i_, u_ in enumerate(d.underliers())] + [("ul()", d.ul()), (".underlier", d.underlier)]
            seen, bad = {}, {}
            for how, u_ in reach:
                if id(u_) in seen:
                    continue
                seen[id(u_)] = how
                shapes = {name: tuple(b.shape) for name, b in u_.named_buffers()}
                want = expected_points(M, u_.dt)
                Tu = shapes.get("spot", (0, 0))[1]
                if "spot" not in shapes or Tu not in want or any(sh != (n1, Tu) for sh in shapes.values()):
                    bad[how] = {"buffers": str(shapes), "dt": u_.dt, "expected_points": sorted(want)}
            if bad or len(seen) != 1:
                ctx.fail("after the underlier of an existing derivative was replaced and the derivative simulated again, not every primary "
                         "it reaches as its underlier (registry / ul() / attribute) is on the grid ceil(M/dt)+1 of the current maturity",
                         case, key=mk("replace-underlier:grid"),
                         detail={"off_grid": bad, "objects": {how: type(u_).__name__ + ("=new" if u_ is new else "") for how, u_ in reach}})
                break
            T = new.spot.size(1)
            rate = pn in RATES
            feats = ["moneyness", "time_to_maturity"] + ([] if rate else ["volatility"])
            with torch.no_grad():
                r_ttm = call_impl(d.time_to_maturity, None)[:2]
                r_pay = call_impl(d.payoff)[:2]
                r_f = call_impl(FeatureList(feats).of(d).get, None)[:2]
                r_h = call_impl(Hedger(Naked(), feats).compute_hedge, d)[:2]
            got = {"time_to_maturity": r_ttm, "payoff": r_pay, "features": r_f, "hedge": r_h}
            got = {k_: (tuple(v_.shape) if s_ == "ok" else v_) for k_, (s_, v_) in got.items()}
            exp = {"time_to_maturity": (n1, T), "payoff": (n1,), "features": (n1, T, len(feats)), "hedge": (n1, 1, T)}
            if got != exp:
                ctx.fail("after the underlier of an existing derivative was replaced: payoff / time to maturity / features / hedge are not on "
                         "the grid of the new simulation", case, key=mk("replace-underlier:shared-grid"),
                         detail={"got": str(got), "expected": str(exp)})
                break
            tt = r_ttm[1].to(torch.float64).tolist()
            eps = _ulp_eps(new.spot, T, dtn)
            if any(abs(row[i] - (T - 1 - i) * dtn) > eps for row in tt for i in range(T)) or any(row[-1] != 0.0 for row in tt) \
                    or any(row[i] <= row[i + 1] for row in tt for i in range(T - 1)):
                ctx.fail("after the underlier of an existing derivative was replaced: time to maturity is not (T-1-i)*dt of the NEW underlier, "
                         "strictly decreasing to exactly zero", case, key=mk("replace-underlier:time_to_maturity"), detail={"ttm": tt[0][:6]})
                break
            # the payoff is read off the paths just simulated
            last = new.spot[:, -1] if opt in ("EuropeanOption", "EuropeanBinaryOption") else new.spot.max(-1).values
            ref = (last - d.strike).clamp(min=0.0) if opt in ("EuropeanOption", "LookbackOption") else (last >= d.strike).to(last)
            if not torch.equal(r_pay[1], ref) or not torch.equal(r_f[1][..., 0], new.spot / d.strike):
                ctx.fail("after the underlier of an existing derivative was replaced: payoff / moneyness are not those of the paths just simulated",
                         case, key=mk("replace-underlier:values"))
                break
        ctx.case(case, True, tag="replace_underlier")
        ctx.traces += 1


# ---------------------------------------------------------------------------------------------------------------------------
# every feature, step by step: where a step index i (negative indices included) is accepted, get(i) is ONE time point and equals
# column i of the all-steps value get(None), which has T = ceil(M/dt)+1 points; the same through FeatureList.get and Hedger.get_input

def check_feature_steps(ctx, torch, I, g, freqs, fmeta):
    from pfhedge.nn import Hedger, Naked, BlackScholes
    from pfhedge.features import FeatureList, get_feature, Ones, Barrier
    from pfhedge.features.features import UnderlierLogSpot
    NAMED = ["moneyness", "log_moneyness", "time_to_maturity", "expiry_time", "underlier_spot", "zeros", "empty",
             "max_moneyness", "max_log_moneyness"]
    VOL = ["volatility", "variance"]
    for it in range(36 if ctx.tier == "quick" else 500):
        prim = g.choice([x for x in PRIMS if x != "VasicekRate"])
        dt = g.choice(DTS)
        k = g.choice([1, 1, 2, 3, 5, 8, 13, 20])
        frac = g.choice([0, 0, 0, 0.5])
        m = (k + frac) * dt
        opt = g.choice(OPTS)
        dtype = g.choice([None, torch.float64])
        N = g.choice([1, 2, 3])
        strike = g.choice([1.0, 0.5, 1.25])
        p = make_primary(I, torch, prim, dt, dtype)
        d = getattr(I, opt)(p, strike=strike, maturity=m)
        case = {"feature_steps": True, "primary": prim, "dt": dt, "M": m, "option": opt, "dtype": str(dtype), "n_paths": N, "strike": strike}
        st, v, _ = call_impl(d.simulate, n_paths=N)
        if st != "ok":
            ctx.fail("derivative.simulate raised", case, key=f"simulate:{prim}:raise", detail=v)
            continue
        T = p.spot.size(1)
        ctx.case(case, True, tag="feature_steps")
        ctx.traces += 1
        idx = sorted({0, T - 1, -1, -T, max(-2, -T), g.randint(-T, T - 1), g.randint(-T, -1)})
        thr = g.choice([1.0, float(p.spot.max()), float(p.spot.min()), 1.01])
        feats = [(n_, get_feature(n_)) for n_ in NAMED + ([] if prim in RATES else VOL)]
        feats += [("ones", Ones()), ("underlier_log_spot", UnderlierLogSpot()), ("barrier_up", Barrier(thr, up=True)),
                  ("barrier_down", Barrier(thr, up=False))]
        accepted = {i: [] for i in idx}            # features whose step-wise value at i is fine (candidates for the lists below)
        with torch.no_grad():
            for name, f in feats:
                f = f.of(d)
                sf, full, _ = call_impl(f.get, None)
                if sf != "ok" or tuple(full.shape) != (N, T, 1):
                    ctx.fail(f"feature '{name}' over all steps is not on the simulated grid", case, key=f"feature.{name}.get:all-steps",
                             detail=full if sf != "ok" else list(full.shape))
                    continue
                ats = []
                for i in idx:
                    si, one, _ = call_impl(f.get, i)
                    cls = "negative-step" if i < 0 else "step"
                    ctx.stats[f"feature_steps:{cls}:{'accepted' if si == 'ok' else 'refused'}"] += 1
                    if si != "ok":
                        ats.append(("err", one))
                        if i >= 0:
                            ctx.fail(f"feature '{name}' raised at a step of the simulated grid", case | {"step": i, "T": T},
                                     key=f"feature.{name}.get:step-error", detail=one)
                        elif name in ("time_to_maturity", "expiry_time") and -T <= i:
                            # the time grid is indexed like the price buffers: every index -T .. T-1 that the spot / moneyness
                            # features accept has a time to maturity (T-1-(i mod T)) dt
                            ctx.fail(f"feature '{name}' refuses a negative step inside the grid (-T <= step <= -1) that the price features accept",
                                     case | {"step": i, "T": T}, key=f"feature.{name}.get:negative-step-error", detail=one)
                        continue           # a negative index that is not accepted (e.g. the running maximum up to step -1)
                    ats.append(("ok", float(one.reshape(-1)[0]) if one.numel() else None))
                    col = full[:, [i]]
                    if tuple(one.shape) != (N, 1, 1):
                        ctx.fail(f"feature '{name}' at step {i} of {T} is not one time point per path", case | {"step": i, "T": T},
                                 key=f"feature.{name}.get:{cls}-shape", detail={"shape": list(one.shape), "expected": [N, 1, 1]})
                        continue
                    if name == "empty":
                        pass                # uninitialised values: the grid only
                    elif name in ("time_to_maturity", "expiry_time"):
                        # (t[-1] - t[i]) of the all-steps form vs (T-1-i)*dt: equal up to the rounding of the products
                        eps = _ulp_eps(p.spot, T, dt)
                        want = (T - 1 - (i % T)) * dt
                        if any(abs(float(a) - want) > eps for a in one.reshape(-1)) or bool(((one - col).abs() > eps).any()) \
                                or (i % T == T - 1 and bool((one != 0).any())):
                            ctx.fail(f"feature '{name}' at step {i} of {T} differs from (T-1-i)*dt / from column i of its all-steps value",
                                     case | {"step": i, "T": T}, key=f"feature.{name}.get:{cls}-value",
                                     detail={"impl": one.reshape(-1).tolist(), "expected": want})
                            continue
                    elif "log" in name:
                        # the logarithm of a column vs the column of the logarithm: the same numbers through a kernel that may
                        # take its vectorised or its scalar path -> a few units in the last place
                        tol = 8 * 2.0 ** (-52 if one.dtype == torch.float64 else -23)
                        if not bool(((one - col).abs() <= tol * (1 + col.abs())).all()):
                            ctx.fail(f"feature '{name}' at step {i} of {T} differs from column i of its all-steps value",
                                     case | {"step": i, "T": T}, key=f"feature.{name}.get:{cls}-value",
                                     detail={"impl": one.reshape(-1).tolist(), "column": col.reshape(-1).tolist()})
                            continue
                    elif not torch.equal(one, col):
                        ctx.fail(f"feature '{name}' at step {i} of {T} differs from column i of its all-steps value",
                                 case | {"step": i, "T": T}, key=f"feature.{name}.get:{cls}-value",
                                 detail={"impl": one.reshape(-1).tolist(), "column": col.reshape(-1).tolist()})
                        continue
                    if name != "empty" and not name.startswith("barrier") and name not in ("ones", "underlier_log_spot"):
                        accepted[i].append(name)
                if name == "time_to_maturity" and p.spot.dtype == torch.float64:
                    freqs.append({"op": "ttm", "n": T, "dt": float_bits(dt), "idx": idx})
                    fmeta.append((case | {"T": T, "idx": idx, "via": "TimeToMaturity feature"},
                                  idx, [float(x) for x in full[0, :, 0].tolist()], ats))
            # several features side by side: FeatureList.get(i) / Hedger.get_input(derivative, i) = the features' values at step i
            lists = []
            for _ in range(3):
                i = g.choice(idx)
                if len(accepted[i]) >= 2:
                    names = [g.choice(accepted[i]) for _ in range(g.choice([2, 3, 4]))]
                    lists.append((i, names))
            bs = [str(n_) for n_ in BlackScholes(d).inputs()]
            for i in (-1, g.choice(idx)):
                if all(n_ in accepted[i] for n_ in bs):
                    lists.append((i, bs))            # the inputs of the Black-Scholes hedge of this derivative
            for i, names in lists:
                cls = "negative-step" if i < 0 else "step"
                parts = torch.cat([get_feature(n_).of(d).get(i) for n_ in names], dim=-1)
                for via, fn in (("FeatureList.get", FeatureList(names).of(d).get), ("Hedger.get_input", None)):
                    if fn is None:
                        sv, out, _ = call_impl(Hedger(Naked(), names).get_input, d, i)
                    else:
                        sv, out, _ = call_impl(fn, i)
                    ctx.stats[f"feature_steps:{via}:{cls}"] += 1
                    if sv != "ok" or tuple(out.shape) != (N, 1, len(names)) or not torch.equal(out, parts):
                        ctx.fail(f"{via} at step {i} of {T} is not the features' values at that step side by side (each feature accepts "
                                 "the step on its own)", case | {"step": i, "T": T, "features": names}, key=f"{via}:{cls}",
                                 detail=out if sv != "ok" else {"shape": list(out.shape), "expected": [N, 1, len(names)]})
                        break


# ---------------------------------------------------------------------------------------------------------------------------
# feature objects as TEMPLATES.  A FeatureList (or single feature objects a user keeps: the inputs handed to several lists / hedgers,
# features with parameters, user-defined features) is bound with .of(derivative) to SEVERAL simulated derivatives of different
# maturity / step size / number of paths; all bindings are made first (some before the derivatives are simulated) and used afterwards,
# in any order, also after one of the derivatives was simulated again with another maturity.  Every binding reports the grid of the
# derivative it was bound to: get(None) has that derivative's (n_paths, T) with T = ceil(M/dt)+1, time to maturity is (T-1-i)*dt of ITS
# step size (zero at the last step, strictly decreasing), moneyness is ITS underlier / ITS strike, every column equals the same
# feature of a feature object of its own, get(i) is column i.  The same bindings answer the model's feature / features queries of
# their derivative (grid_sys: two or three derivatives on their own primaries in one history).

SF_NAMED = ["moneyness", "log_moneyness", "time_to_maturity", "underlier_spot", "volatility", "variance", "zeros", "max_moneyness"]
SF_PRIMS = ["BrownianStock", "BrownianStock", "HestonStock", "MertonJumpStock", "KouJumpStock", "LocalVolatilityStock"]
SF_FORMS = ["template", "objects", "single", "chain", "hedger_inputs"]


def sf_corpus(torch):
    """(primary, dt, maturity, option, strike, call, dtype, n_paths) of each derivative, and the features; part of every run"""
    N = None
    f3 = ["moneyness", "time_to_maturity", "volatility"]
    return [
        ([("BrownianStock", 1 / 250, 20 / 250, "EuropeanOption", 1.0, True, N, 3), ("BrownianStock", 1 / 250, 10 / 250, "EuropeanOption", 1.0, True, N, 3)], f3),
        ([("BrownianStock", 1 / 365, 30 / 365, "EuropeanOption", 1.1, True, N, 2), ("HestonStock", 1 / 12, 0.25, "LookbackOption", 1.0, True, N, 2)], f3),
        ([("BrownianStock", 0.1, 0.45, "EuropeanOption", 1.0, True, N, 2), ("BrownianStock", 0.1, 0.3, "EuropeanOption", 1.0, False, N, 4)],
         ["time_to_maturity", "log_moneyness"]),
        # the same number of time points, another step size / only other paths
        ([("BrownianStock", 1 / 250, 5 / 250, "EuropeanOption", 1.0, True, torch.float64, 2), ("BrownianStock", 1 / 12, 5 / 12, "AmericanBinaryOption", 1.25, True, torch.float64, 2)],
         ["time_to_maturity", "moneyness", "max_moneyness"]),
        ([("BrownianStock", 1 / 250, 5 / 250, "EuropeanOption", 1.0, True, N, 2), ("BrownianStock", 1 / 250, 5 / 250, "EuropeanOption", 0.5, True, N, 2),
          ("KouJumpStock", 1 / 52, 3.5 / 52, "EuropeanBinaryOption", 1.0, False, N, 1)], ["underlier_spot", "moneyness", "variance", "zeros"]),
    ]


def sf_gen(g, torch):
    ders = []
    for _ in range(g.choice([2, 2, 2, 3])):
        while True:
            dt = g.choice(DTS)
            spec = (g.choice(SF_PRIMS), dt, (g.choice([1, 2, 3, 5, 8, 13, 20]) + g.choice([0, 0, 0, 0.5])) * dt, g.choice(OPTS),
                    g.choice([1.0, 0.5, 1.25]), g.chance(0.6), g.choice([None, None, torch.float64]), g.choice([1, 2, 2, 3]))
            # mostly another grid than the derivatives before (sometimes the same grid: only the paths differ)
            if all((spec[1], spec[2]) != (o[1], o[2]) for o in ders) or g.chance(0.15):
                break
        ders.append(spec)
    names = ["time_to_maturity"] if g.chance(0.8) else []
    names += [g.choice(SF_NAMED) for _ in range(g.choice([1, 2, 3]))]
    if g.chance(0.3):
        names = names[::-1]
    return ders, names


def check_shared_features(ctx, torch, I, g, gtraces):
    from pfhedge.features import FeatureList, get_feature, Ones, Barrier, ModuleOutput
    from pfhedge.features._base import Feature
    from pfhedge.features.features import UnderlierLogSpot
    from pfhedge.nn import Hedger, Naked

    class ScaledTime(Feature):
        """a user-defined feature with a parameter: the time to maturity in units of `unit`"""
        name = "scaled_time"

        def __init__(self, unit):
            super().__init__()
            self.unit = unit

        def get(self, time_step=None):
            return self.derivative.time_to_maturity(time_step).unsqueeze(-1) / self.unit

    def make_obj(name, par):
        if name == "ones":
            return Ones()
        if name == "underlier_log_spot":
            return UnderlierLogSpot()
        if name == "barrier":
            return Barrier(par["threshold"], up=par["up"])
        if name == "scaled_time":
            return ScaledTime(par["unit"])
        return get_feature(name)

    cases = [(c, True) for c in sf_corpus(torch)] + [(sf_gen(g, torch), False) for _ in range(26 if ctx.tier == "quick" else 400)]
    for (specs, names), fixed in cases:
        par = {"threshold": g.choice([1.0, 1.01, 0.99]), "up": g.chance(0.5), "unit": g.choice([1 / 250, 1 / 12, 0.5])}
        onames = names + [g.choice(["ones", "underlier_log_spot", "barrier", "scaled_time"]) for _ in range(g.choice([1, 2]))]
        when = g.choice(["bound_after_simulation", "bound_before_simulation", "bound_in_between"])
        resim = g.chance(0.35)
        case = {"shared_features": True, "derivatives": [[sp[0], sp[1], sp[2], sp[3], sp[4], sp[5], str(sp[6]), sp[7]] for sp in specs],
                "features": names, "feature_objects": onames, "parameters": par, "when": when, "corpus": fixed}
        ctx.case(case, True, tag="shared_features")
        ctx.traces += 1
        ctx.stats[f"shared_features:derivatives={len(specs)}"] += 1
        ctx.stats[f"shared_features:{when}"] += 1
        tr = GTrace(case, "shared_features")
        gtraces.append(tr)
        ders = []
        for prim, dt, m, opt, strike, call, dtype, n_ in specs:
            p = make_primary(I, torch, prim, dt, dtype)
            d = getattr(I, opt)(p, call=call, strike=strike, maturity=m)
            tr.deriv(d, [("underlier", p)], True, pk="arith" if opt in ("EuropeanOption", "LookbackOption") else "indicator")
            ders.append((d, p, n_))
        K = len(ders)

        def simulate(k):
            d_, p_, n_ = ders[k]
            st_, v_, _ = call_impl(d_.simulate, n_paths=n_)
            if st_ != "ok":
                ctx.fail("derivative.simulate raised", case, key=f"simulate:{type(p_).__name__}:raise", detail=v_)
                return False
            tr.deriv_sim(d_, n_)
            return True

        # ---- the templates, and their bindings to every derivative (derivative 0 first)
        sim_before = {"bound_after_simulation": K, "bound_before_simulation": 0, "bound_in_between": 1}[when]
        if not all(simulate(k) for k in range(sim_before)):
            continue
        template = FeatureList(names)                         # one list, bound K times
        objs = [make_obj(n_, par) for n_ in onames]           # feature objects the user keeps ...
        hedger = Hedger(Naked(), objs)                        # ... handed to a hedger as its inputs
        bound = {f: [] for f in SF_FORMS}
        for k, (d, p, n_) in enumerate(ders):
            bound["template"].append(template.of(d))
            bound["objects"].append(FeatureList(objs).of(d))              # a new list each time, the SAME feature objects
            bound["single"].append([f.of(d) for f in objs])
            bound["chain"].append(template.of(d) if k == 0 else bound["chain"][k - 1].of(d))    # a bound list bound again
            bound["hedger_inputs"].append(hedger.inputs.of(d, hedger))
        if not all(simulate(k) for k in range(sim_before, K)):
            continue
        # (measured, no predicate: ModuleOutput.of binds the module itself in place and returns it - there is one object, not a
        #  binding per derivative)
        with torch.no_grad():
            mo = ModuleOutput(torch.nn.Identity(), ["time_to_maturity"])
            mo_first = mo.of(ders[0][0])
            mo.of(ders[1][0])
            follows = mo_first.get(None).size(1) == ders[1][1].spot.size(1) != ders[0][1].spot.size(1)
            ctx.stats["shared_features:module_output(in-place by design):first-binding-" + ("follows-the-rebinding" if follows else "kept/same-T")] += 1

        def on_own_grid(form, k, rnd):
            """the binding `form` of derivative k is on the grid of derivative k; False after a reported failure"""
            d, p, n_ = ders[k]
            T, dt = p.spot.size(1), p.dt
            here = case | {"form": form, "derivative": k, "round": rnd, "own_grid": [n_, T], "grids": [list(p_.spot.shape) for _, p_, _ in ders]}
            key = f"feature.of:shared-template:{form}:"
            cols = names if form in ("template", "chain") else onames
            if form == "single":
                got = [call_impl(f.get, None)[:2] for f in bound[form][k]]
                if any(st_ != "ok" or tuple(v_.shape) != (n_, T, 1) for st_, v_ in got):
                    ctx.fail("a feature object bound with .of() to several derivatives: the binding to one derivative is not on THAT "
                             "derivative's grid (n_paths, ceil(M/dt)+1, 1) once the object was bound to another derivative", here, key=key + "grid",
                             detail={"shapes": [list(v_.shape) if st_ == "ok" else v_ for st_, v_ in got], "expected": [n_, T, 1]})
                    return False
                full = torch.cat([v_ for _, v_ in got], dim=-1)
                getter = lambda i: torch.cat([f.get(i) for f in bound[form][k]], dim=-1)      # noqa
            else:
                st_, full, _ = call_impl(bound[form][k].get, None)
                if st_ != "ok" or tuple(full.shape) != (n_, T, len(cols)):
                    ctx.fail("a FeatureList / feature objects bound with .of() to several derivatives: the binding to one derivative is not on "
                             "THAT derivative's grid (n_paths, ceil(M/dt)+1, F) once the template was bound to another derivative", here,
                             key=key + "grid", detail={"shape": list(full.shape) if st_ == "ok" else full, "expected": [n_, T, len(cols)]})
                    return False
                getter = bound[form][k].get
            if T not in expected_points(d.maturity, dt):
                ctx.fail("number of simulated time points differs from ceil(M/dt)+1", here, key="primary.simulate:n_steps=ceil(M/dt+1)",
                         detail={"points": T, "expected": sorted(expected_points(d.maturity, dt))})
                return False
            eps = _ulp_eps(p.spot, T, dt)
            ulp = 8 * 2.0 ** (-52 if p.spot.dtype == torch.float64 else -23)
            tol = []
            for j, name in enumerate(cols):
                col = full[..., j]
                if name in ("time_to_maturity", "scaled_time"):
                    unit = par["unit"] if name == "scaled_time" else 1.0
                    tol.append(2 * eps / unit)
                    tt = col.to(torch.float64).tolist()
                    if any(abs(row[i] - (T - 1 - i) * dt / unit) > 2 * eps / unit for row in tt for i in range(T)) \
                            or any(row[-1] != 0.0 for row in tt) or any(row[i] <= row[i + 1] for row in tt for i in range(T - 1)):
                        ctx.fail("a time-to-maturity feature bound to several derivatives: the binding to one derivative is not (T-1-i)*dt of THAT "
                                 "derivative (strictly decreasing to exactly zero)", here | {"feature": name}, key=key + "time_to_maturity",
                                 detail={"impl": tt[0][:6], "dt": dt, "T": T})
                        return False
                    continue
                tol.append(None if "log" not in name else ulp)
                if name == "moneyness":
                    ref = p.spot / d.strike
                else:
                    ref = make_obj(name, par).of(d).get(None)[..., 0]          # a feature object of its own, used at once
                same = torch.equal(col, ref) if "log" not in name else bool(((col - ref).abs() <= ulp * (1 + ref.abs())).all())
                if not same:
                    ctx.fail("a feature bound to several derivatives: the values of the binding to one derivative are not those of THAT derivative "
                             "(its underlier, strike and paths)", here | {"feature": name}, key=key + "values",
                             detail={"impl": col[0].tolist()[:6], "own": ref[0].tolist()[:6]})
                    return False
            for i in sorted({0, T - 1, -1, -T, g.randint(0, T - 1)}):
                st_, one, _ = call_impl(getter, i)
                if st_ != "ok":
                    if i < 0:
                        continue               # a negative index a feature of the list does not accept (running maximum up to step -1)
                    ctx.fail("a feature list bound to several derivatives raised at a step of its derivative's grid", here | {"step": i},
                             key=key + "step", detail=one)
                    return False
                ok = tuple(one.shape) == (n_, 1, len(cols))
                for j, t_ in enumerate(tol if ok else []):
                    a, b = one[:, 0, j], full[:, i, j]
                    ok = ok and (torch.equal(a, b) if t_ is None else bool(((a - b).abs() <= t_ * (1 + b.abs())).all()))
                if not ok:
                    ctx.fail("a feature list bound to several derivatives: get(i) is not column i of get(None) on the grid of its derivative",
                             here | {"step": i}, key=key + "step", detail={"shape": list(one.shape), "expected": [n_, 1, len(cols)]})
                    return False
            return True

        def ask_model(k):
            """the bindings answer the model's queries about the features of derivative k"""
            d = ders[k][0]
            tr.ask(["features", k, names], lambda: bound["template"][k].get(None), _shape)
            tr.ask(["features", k, names], lambda: bound["chain"][k].get(None), _shape)
            known = [j for j, n_ in enumerate(onames) if n_ != "scaled_time"]
            if known:
                tr.ask(["features", k, [onames[j] for j in known]], lambda: bound["objects"][k].get(None)[..., known], _shape)
                tr.ask(["features", k, [onames[j] for j in known]], lambda: bound["hedger_inputs"][k].get(None)[..., known], _shape)
            for j in known:
                tr.ask(["feature", k, onames[j]], lambda j=j: bound["single"][k][j].get(None), _shape)
            tr.ask(["ttm", k], lambda: d.time_to_maturity(None), _shape)
            tr.ask(["payoff", k], lambda: d.payoff(), _shape)

        failed = set()                   # forms with a reported failure in this case (each form is judged on its own)
        for rnd in range(2 if resim else 1):
            if rnd == 1:
                # one derivative is simulated again with another maturity: its bindings follow ITS new grid, the others stay
                k = g.randint(0, K - 1)
                d, p, n_ = ders[k]
                d.maturity = (g.choice([1, 2, 4, 7, 11]) + g.choice([0, 0, 0.5])) * p.dt
                case["resimulated"] = {"derivative": k, "maturity": d.maturity}
                if not simulate(k):
                    break
            with torch.no_grad():
                # the binding made FIRST is used after all the others were made; then the others; every form
                order = list(range(K)) if g.chance(0.5) else list(range(K))[::-1]
                for k in order:
                    for form in SF_FORMS:
                        if form not in failed and not on_own_grid(form, k, rnd):
                            failed.add(form)
                    ask_model(k)


# ---------------------------------------------------------------------------------------------------------------------------
# the forward-start option: its strike-fixing date `start` lives on the SAME grid as everything else.  Maturity M on step dt gives
# T = ceil(M/dt)+1 points at times 0, dt, .., (T-1) dt - whether or not M is a multiple of dt - and the strike is fixed at the grid
# point k with k dt <= start < (k+1) dt (k = floor(start/dt); start/dt within rounding distance of an integer k: k), counted from
# the FIRST point of the grid: payoff = max(S[T-1] / S[k] - K, 0), computed by hand from the simulated prices.  All combinations of
# whole / fractional M/dt and start/dt (fixed list, part of every run) plus random ones on every primary with a price series; the object
# re-used with another start / maturity.  Which grid point the payoff fixes the strike at is OBSERVED (the indices j for which the
# payoff equals max(S[T-1]/S[j] - K, 0) on every path), not read from the object.  Model: op "grid" (step count, start index shipped /
# exact).

FS_PRIMS = ["BrownianStock", "HestonStock", "MertonJumpStock", "KouJumpStock", "LocalVolatilityStock", "RoughBergomiStock"]
FS_MFRAC = [0, 0.25, 0.5, 0.6, 0.75, 0.9, 0.1]
FS_SFRAC = [0, 0.1, 0.25, 0.4, 0.5, 0.6, 0.7, 0.75, 0.9]


def fs_corpus():
    """(primary, dt, M/dt, start/dt): every pair of fractional parts, at four step sizes"""
    out = []
    n = 0
    for dt in (1 / 250, 1 / 365, 1 / 12, 0.1):
        for mf in FS_MFRAC:
            for sf in FS_SFRAC:
                mw = (2, 3, 4, 6, 10)[n % 5]
                sw = (n // 5) % (mw + 1)
                n += 1
                if sw + sf > mw + mf:
                    sw = mw - 1
                out.append((("BrownianStock", "HestonStock", "MertonJumpStock")[n % 3] if n % 4 == 0 else "BrownianStock", dt, mw + mf, sw + sf))
    return out


def start_point(start, dt):
    """the property's reading on the exact values of the doubles: floor(start/dt); within rounding distance of an integer k: k"""
    ratio = F(start) / F(dt)
    near = round(ratio)
    if abs(ratio - near) <= F(1, 10 ** 9) * max(1, abs(near)):
        return near, True
    return math.floor(ratio), False


def check_forward_start_grid(ctx, torch, I, g):
    cases = [(c, True) for c in fs_corpus()]
    for _ in range(120 if ctx.tier == "quick" else 2500):
        dt = g.choice(DTS + [0.3, 1 / 252])
        mw = g.choice([1, 2, 3, 5, 8, 12])
        mr = mw + g.choice(FS_MFRAC)
        sr = g.randint(0, mw) + g.choice(FS_SFRAC)
        if sr > mr:
            sr = mr if g.chance(0.5) else sr - 1       # (start = maturity: the strike is fixed at the last grid point before the maturity)
        cases.append(((g.choice(FS_PRIMS), dt, mr, sr), False))
    greqs, gmeta = [], []
    for (prim, dt, mr, sr), fixed in cases:
        dtype = torch.float64 if (fixed or g.chance(0.5)) else None
        K = g.choice([0.5, 0.7, 0.9])
        N = g.choice([2, 3, 16])
        p = make_primary(I, torch, prim, dt, dtype)
        d = I.EuropeanForwardStartOption(p, strike=K, maturity=mr * dt, start=sr * dt)
        rounds = [(mr, sr)]
        if not fixed and g.chance(0.4):
            # the object re-used: another start (and maturity), simulated again
            mr2 = mr if g.chance(0.5) else g.choice([1, 2, 4, 7]) + g.choice(FS_MFRAC)
            rounds.append((mr2, min(g.randint(0, int(mr2)) + g.choice(FS_SFRAC), mr2)))
        for rnd, (mr_, sr_) in enumerate(rounds):
            m, start = mr_ * dt, sr_ * dt
            d.maturity, d.start = m, start
            case = {"forward_start": True, "primary": prim, "dt": dt, "M": m, "start": start, "M/dt": mr_, "start/dt": sr_, "strike": K,
                    "n_paths": N, "dtype": str(dtype), "corpus": fixed, "round": rnd}
            st, v, _ = call_impl(d.simulate, n_paths=N)
            if st != "ok":
                ctx.fail("derivative.simulate raised", case, key=f"simulate:{prim}:raise", detail=v)
                break
            shapes = {name: tuple(b.shape) for name, b in p.named_buffers()}
            T = p.spot.size(1)
            acc = expected_points(m, dt)
            if any(sh != (N, T) for sh in shapes.values()) or T not in acc:
                ctx.case(case, True, tag="forward_start_grid")
                ctx.fail("number of simulated time points differs from ceil(M/dt)+1 (k+1 when M/dt is within rounding distance of the integer k)",
                         case | {"shapes": str(shapes), "expected": sorted(acc)}, key="primary.simulate:n_steps=ceil(M/dt+1)")
                break
            with torch.no_grad():
                st, pay, mut = call_impl(d.payoff, watch=[("derivative", d)])
            if mut:
                ctx.mutated("derivative.payoff", mut, case)
            want, on_grid = start_point(start, dt)
            whole = abs(F(m) / F(dt) - round(F(m) / F(dt))) <= F(1, 10 ** 7) * max(1, round(F(m) / F(dt)))
            ctx.stats[f"forward_start:M/dt-whole={whole}"] += 1
            ctx.stats[f"forward_start:start-on-grid={on_grid}"] += 1
            ctx.traces += 1
            if st != "ok" or tuple(pay.shape) != (N,) or pay.dtype != p.spot.dtype:
                ctx.case(case, True, tag="forward_start_grid")
                ctx.fail("the payoff of a forward-start option raised / does not have one entry per path of the simulated grid", case | {"T": T},
                         key="forward-start:payoff-error", detail=pay if st != "ok" else [list(pay.shape), str(pay.dtype)])
                break
            # by hand from the simulated prices: max(S[T-1]/S[j] - K, 0) for every grid point j (IEEE division / subtraction are
            # correctly rounded: doubles exactly in Python; single precision with the same two tensor operations)
            if p.spot.dtype == torch.float64:
                xs = p.spot.tolist()
                got = pay.tolist()
                fixes = [j for j in range(T) if got == [max(r[-1] / r[j] - K, 0.0) for r in xs]]
            else:
                fixes = [j for j in range(T) if torch.equal(pay, (p.spot[:, -1] / p.spot[:, j] - K).clamp(min=0.0))]
            ctx.case(case, nontrivial=len(fixes) == 1, tag="forward_start_grid")
            here = case | {"T": T, "grid_times": f"0, dt, .., {T - 1} dt", "expected_index": want, "payoff_fixes_the_strike_at_index": fixes}
            greqs.append({"op": "grid", "m": float_bits(m), "dt": float_bits(dt), "start": float_bits(start)})
            gmeta.append((here, T, fixes, want, on_grid))
            if want not in fixes:
                ctx.fail("forward-start option: the payoff is not max(S[T-1]/S[k] - K, 0) with k = floor(start/dt) counted from the first point of "
                         "the simulated grid (T = ceil(M/dt)+1 points at 0, dt, .., (T-1) dt): the strike is fixed at another grid point"
                         + ("" if whole else " - the maturity is not a multiple of dt") + ("" if on_grid else ", the start date lies between two grid points"),
                         here, key="forward-start:strike-fixing-index" + ("" if rnd == 0 else "-reuse"),
                         detail={"payoff": pay.tolist()[:4], "expected": [max(float(r[-1]) / float(r[want]) - K, 0.0) for r in p.spot.tolist()][:4]
                                 if want < T else "start index outside the grid"})
                break
    try:
        gouts = ctx.driver(greqs)
    except DriverBroken as e:
        ctx.ties_broken.append({"kind": "driver", "detail": str(e)[:1500]})
        gouts = []
    for (case, T, fixes, want, on_grid), mo in zip(gmeta, gouts):
        if mo["n_shipped"] != T:
            ctx.disagree("n_steps", case, T, mo["n_shipped"])
        if mo["start_shipped"] not in fixes:
            ctx.disagree("forward_start_index", case, fixes, mo["start_shipped"])
        if not on_grid and mo["start_exact"] != want:
            ctx.disagree("forward_start_index_exact", case, want, mo["start_exact"], note="exact start index of the model vs the harness' reading")


# ---------------------------------------------------------------------------------------------------------------------------
# the VALUES of the hedge, step by step: Hedger.compute_hedge(derivative, hedge)[:, h, i] is the model's output number h on the
# features of grid step i (Hedger.get_input(derivative, i): time to maturity (T-1-i)*dt, the prices of column i) for every step
# i <= T-2, and the position of step T-2 is held over the last step - with ONE and with SEVERAL hedging instruments (a list of
# primaries simulated over the same horizon, or the default: all underliers of a user derivative with 2-3 underliers), with models
# that are not symmetric in their outputs (Linear / a small tanh network with dyadic weights drawn from g), with state-independent
# inputs only (the all-steps-at-once evaluation) and with 'prev_hedge' among the inputs (the step-by-step evaluation: the input of
# step i is the features of step i next to the hedge of step i-1, zeros at step 0).  Whole and fractional M/dt; a fixed list is part
# of every run.  Tolerance: the model is evaluated on one (N, T-1, F) batch by the hedger and on (N, 1, F) slices here - the same
# sums of at most 8 products of magnitude <= 8, possibly in another order: 1e-5 (single) / 1e-13 (double) times (1 + |value|).
# The same scenarios are sent to the model of the system of instruments (op "grid_sys", hedge with several instruments).

HV_FEATS = ["log_moneyness", "time_to_maturity", "moneyness", "volatility", "max_moneyness", "underlier_spot"]
HV_PRIMS = ["BrownianStock", "BrownianStock", "HestonStock", "MertonJumpStock", "KouJumpStock", "LocalVolatilityStock"]


def hv_corpus():
    """(dt, M/dt, H, form, features, state-dependent): part of every run"""
    out = []
    for dt, r in [(1 / 250, 7), (0.1, 2.5), (1 / 12, 3), (1 / 365, 4.5), (1 / 250, 1), (0.01, 10.25)]:
        for H in (1, 2, 3):
            out.append((dt, r, H, "hedge_list", ["log_moneyness", "time_to_maturity"], False))
        out.append((dt, r, 2, "underliers", ["moneyness", "time_to_maturity", "volatility"], False))
        out.append((dt, r, 2, "hedge_list", ["log_moneyness", "time_to_maturity"], True))
    return out


def check_hedge_values(ctx, torch, I, g, gtraces):
    from pfhedge.nn import Hedger, Naked
    from pfhedge.features import FeatureList
    from pfhedge.instruments import BaseDerivative
    from pfhedge.instruments.derivative.base import OptionMixin

    class Basket(BaseDerivative, OptionMixin):
        """a user derivative on several underliers (the first one under the name `underlier`)"""

        def __init__(self, prims, maturity, strike):
            super().__init__()
            for n_, p_ in zip(("underlier", "second", "third"), prims):
                self.register_underlier(n_, p_)
            self.maturity, self.strike, self.call = maturity, strike, True

        def payoff_fn(self):
            return torch.relu(self.ul().spot[..., -1] - self.strike)

    cases = [(c, True) for c in hv_corpus()]
    for _ in range(24 if ctx.tier == "quick" else 400):
        dt = g.choice(DTS)
        r = g.choice([1, 2, 3, 5, 8, 13]) + g.choice([0, 0, 0.5, 0.25])
        nf = g.choice([2, 2, 3])
        fs = ["time_to_maturity"] + [g.choice(HV_FEATS) for _ in range(nf - 1)]
        if g.chance(0.3):
            fs = fs[::-1]
        cases.append(((dt, r, g.choice([1, 2, 2, 3, 3]), g.choice(["hedge_list", "hedge_list", "underliers"]), fs, g.chance(0.3)), False))
    for (dt, r, H, form, feats, dep), fixed in cases:
        m = r * dt
        dtype = g.choice([None, None, torch.float64])
        N = g.choice([1, 2, 5])
        strike = g.choice([1.0, 0.9, 1.1])
        prims = [make_primary(I, torch, "BrownianStock" if fixed and j == 0 else g.choice(HV_PRIMS), dt, dtype) for j in range(H)]
        opt = g.choice(OPTS)
        net = g.choice(["linear", "linear", "tanh_net"])
        case = {"hedge_values": True, "dt": dt, "M": m, "M/dt": r, "n_hedges": H, "form": form, "features": feats, "prev_hedge": dep,
                "primaries": [type(p_).__name__ for p_ in prims], "option": opt if form == "hedge_list" else "user derivative on all of them",
                "dtype": str(dtype), "n_paths": N, "strike": strike, "model": net, "corpus": fixed}
        ctx.case(case, True, tag="hedge_values")
        ctx.traces += 1
        ctx.stats[f"hedge_values:H={H}:{'step-by-step' if dep else 'all-at-once'}"] += 1
        tr = GTrace(case, "hedge_values")
        if form == "hedge_list":
            d = getattr(I, opt)(prims[0], strike=strike, maturity=m)
            tr.deriv(d, [("underlier", prims[0])], True, pk="arith" if opt in ("EuropeanOption", "LookbackOption") else "indicator")
            order = list(range(H))
            if g.chance(0.4):
                order = order[::-1]            # the underlier of the derivative need not be the first hedging instrument
            hedge = [prims[j] for j in order]
        else:
            d = Basket(prims, m, strike)
            tr.deriv(d, list(zip(("underlier", "second", "third"), prims)), True)
            hedge = None
        for p_ in prims:
            tr.pidx(p_)
        st, v, _ = call_impl(d.simulate, n_paths=N)
        if st != "ok":
            ctx.fail("derivative.simulate raised", case, key="hedge-values:simulate:raise", detail=v)
            continue
        tr.deriv_sim(d, N)
        if form == "hedge_list":
            for p_ in prims[1:]:
                p_.simulate(n_paths=N, time_horizon=m)
                tr.prim_sim(p_, N, m)
        gtraces.append(tr)
        T = prims[0].spot.size(1)
        if T not in expected_points(m, dt) or any(tuple(p_.spot.shape) != (N, T) for p_ in prims):
            ctx.fail("number of simulated time points differs from ceil(M/dt)+1", case, key="primary.simulate:n_steps=ceil(M/dt+1)",
                     detail={"shapes": [list(p_.spot.shape) for p_ in prims], "expected": sorted(expected_points(m, dt))})
            continue
        hj = None if hedge is None else [["prim", tr.pidx(p_)] for p_ in hedge]
        mfeats = feats + (["prev_hedge"] if dep else [])
        with torch.no_grad():
            tr.ask(["hedge", tr.didx(d), {"model": "naked", "feats": mfeats, "hedge": hj}],
                   lambda: Hedger(Naked(H), mfeats).compute_hedge(d, hedge=hedge), _shape)
        # the model: outputs that differ from instrument to instrument and from step to step
        n_in = len(feats) + (H if dep else 0)
        fdt = prims[0].spot.dtype

        def lin(n_out, n_inp):
            l_ = torch.nn.Linear(n_inp, n_out).to(fdt)
            with torch.no_grad():
                l_.weight.copy_(torch.tensor([[float(g.dy(-2, 2, 6)) for _ in range(n_inp)] for _ in range(n_out)], dtype=fdt))
                l_.bias.copy_(torch.tensor([float(g.dy(-1, 1, 6)) for _ in range(n_out)], dtype=fdt))
            return l_
        model = lin(H, n_in) if net == "linear" else torch.nn.Sequential(lin(4, n_in), torch.nn.Tanh(), lin(H, 4))
        hedger = Hedger(model, mfeats)
        kind = "step-by-step" if dep else "all-at-once"
        with torch.no_grad():
            st, unit, mut = call_impl(hedger.compute_hedge, d, hedge=hedge, watch=[("derivative", d)])
            if mut:
                ctx.mutated("Hedger.compute_hedge", mut, case)
            if st != "ok" or tuple(unit.shape) != (N, H, T):
                ctx.fail("Hedger.compute_hedge raised / is not one position per path, hedging instrument and step of the simulated grid (N, H, T)",
                         case | {"T": T}, key=f"compute_hedge:grid:{kind}", detail=unit if st != "ok" else {"shape": list(unit.shape), "expected": [N, H, T]})
                continue
            tol = 1e-13 if fdt == torch.float64 else 1e-5
            eps = _ulp_eps(prims[0].spot, T, dt)
            base = FeatureList(feats).of(d)
            bad = None
            for i in range(T - 1):
                if dep:
                    prev = unit.new_zeros((N, 1, H)) if i == 0 else unit[:, :, i - 1].unsqueeze(1)
                    sx, x, _ = call_impl(lambda i=i: torch.cat([base.get(i), prev], dim=-1))
                else:
                    sx, x, _ = call_impl(hedger.get_input, d, i)
                if sx != "ok" or tuple(x.shape) != (N, 1, n_in):
                    bad = ("input", i, x if sx != "ok" else list(x.shape), [N, 1, n_in])
                    break
                jt = feats.index("time_to_maturity") if "time_to_maturity" in feats else None
                if jt is not None and bool(((x[:, 0, jt].to(torch.float64) - (T - 1 - i) * dt).abs() > eps).any()):
                    bad = ("input", i, x[:, 0, jt].tolist(), (T - 1 - i) * dt)
                    break
                want = model(x)[:, 0, :]              # (N, H)
                got = unit[:, :, i]
                if not bool(((got - want).abs() <= tol * (1 + want.abs())).all()):
                    bad = ("value", i, got.tolist(), want.tolist())
                    break
            if bad and bad[0] == "input":
                ctx.fail("the input of the hedger at step i is not one time point per path carrying the time to maturity (T-1-i)*dt of the simulated grid",
                         case | {"T": T, "step": bad[1]}, key="compute_hedge:input-grid", detail={"impl": bad[2], "expected": bad[3]})
            elif bad:
                ctx.fail("Hedger.compute_hedge(...)[:, h, i] is not the model's output for hedging instrument h on the features of grid step i "
                         "(time to maturity (T-1-i)*dt" + (", next to the hedge of step i-1" if dep else "") + "): the hedge is not on the time grid "
                         "of the underliers and the features" + (" - several hedging instruments" if H > 1 else ""),
                         case | {"T": T, "step": bad[1]}, key=f"compute_hedge:step-values:{kind}:" + ("one-instrument" if H == 1 else "several-instruments"),
                         detail={"hedge[:, :, i]": bad[2], "model(features of step i)": bad[3]})
            elif T >= 2 and not torch.equal(unit[:, :, -1], unit[:, :, -2]):
                ctx.fail("the hedge of the last step of the grid is not the position of step T-2 held until maturity", case | {"T": T},
                         key=f"compute_hedge:last-step:{kind}", detail={"hedge[:, :, -2:]": unit[:, :, -2:].tolist()})


# ---------------------------------------------------------------------------------------------------------------------------
# payoffs read the WHOLE grid 0 .. T-1 of the underlier: for every built-in option (calls and puts) the payoff is recomputed by hand
# from the spot buffer - the running maximum / minimum taken point by point from grid point 0 to grid point T-1 for the path-dependent
# ones (lookback, American binary), the last point T-1 for the European ones - and so are the functional forms applied to the buffer
# and the running-maximum features at the last step.  Simulated paths on every primary with a price series (whole / fractional M/dt,
# M = 0: one time point, strikes at / around the first, the lowest and the highest point of a path) and a fixed list of hand-made
# paths (part of every run) whose extreme sits at the first point, the last point or in between, constant paths, T = 1, 2, 3, 5.
# The same arithmetic as the library (a comparison, or one correctly rounded subtraction and a clamp): compared exactly.

PP_PRIMS = ["BrownianStock", "HestonStock", "MertonJumpStock", "KouJumpStock", "LocalVolatilityStock", "RoughBergomiStock"]
PP_PATHS = [
    [[1.0]], [[1.25], [0.75]],
    [[1.0, 1.1], [1.0, 0.9]], [[1.0, 1.0], [1.2, 1.2]],
    [[1.0, 1.1, 1.2], [1.0, 0.9, 0.8], [1.0, 1.2, 1.1], [1.0, 0.8, 0.9]],
    [[1.0, 1.05, 1.1, 1.2, 1.15], [1.0, 0.95, 0.9, 0.8, 0.85], [1.0, 1.3, 0.7, 1.1, 1.0], [1.0, 0.7, 1.3, 0.9, 1.0],
     [1.0, 1.01, 1.02, 1.01, 1.03], [1.0, 0.99, 0.98, 0.99, 0.97], [1.0, 1.0, 1.0, 1.0, 1.0]],
]


def check_path_payoffs(ctx, torch, I, g, gtraces):
    import pfhedge.nn.functional as PF
    from pfhedge.features import get_feature
    FUNC = {"EuropeanOption": PF.european_payoff, "LookbackOption": PF.lookback_payoff,
            "AmericanBinaryOption": PF.american_binary_payoff, "EuropeanBinaryOption": PF.european_binary_payoff}
    cases = []
    for paths in PP_PATHS:
        for opt in OPTS:
            for call in (True, False):
                for strike in (1.0, 0.9, 1.1):
                    cases.append(("hand-made", paths, opt, call, strike))
    for _ in range(60 if ctx.tier == "quick" else 1000):
        cases.append(("simulated", None, g.choice(OPTS[1:3] + OPTS), g.chance(0.5), None))
    for kind, paths, opt, call, strike in cases:
        dt = g.choice(DTS)
        dtype = g.choice([None, torch.float64])
        if kind == "hand-made":
            p = I.BrownianStock(dt=dt, dtype=dtype)
            spot = torch.tensor(paths, dtype=dtype or torch.get_default_dtype())
            p.register_buffer("spot", spot)
            N, T = spot.shape
            m = (T - 1) * dt
            d = getattr(I, opt)(p, call=call, strike=strike, maturity=m)
            case = {"path_payoff": True, "paths": paths, "option": opt, "call": call, "strike": strike, "dt": dt, "M": m, "dtype": str(dtype)}
        else:
            prim = g.choice(PP_PRIMS)
            r = g.choice([0, 1, 1, 2, 3, 5, 8, 20]) + g.choice([0, 0, 0.5])
            if prim == "RoughBergomiStock":
                r = max(r, 1)
            m, N = r * dt, g.choice([1, 4, 16])
            p = make_primary(I, torch, prim, dt, dtype)
            d = getattr(I, opt)(p, call=call, maturity=m)
            case = {"path_payoff": True, "primary": prim, "option": opt, "call": call, "dt": dt, "M": m, "M/dt": r, "n_paths": N, "dtype": str(dtype)}
            st, v, _ = call_impl(d.simulate, n_paths=N)
            if st != "ok":
                ctx.fail("derivative.simulate raised", case, key=f"simulate:{prim}:raise", detail=v)
                continue
            spot = p.spot
            T = spot.size(1)
            if tuple(spot.shape) != (N, T) or T not in expected_points(m, dt):
                ctx.fail("number of simulated time points differs from ceil(M/dt)+1", case, key="primary.simulate:n_steps=ceil(M/dt+1)",
                         detail={"shape": list(spot.shape), "expected": sorted(expected_points(m, dt))})
                continue
            row = spot[g.randint(0, N - 1)]
            how = g.choice(["first", "first", "lowest", "highest", "above", "below", "last"])
            strike = {"first": float(row[0]), "lowest": float(row.min()), "highest": float(row.max()), "last": float(row[-1]),
                      "above": float(row[0]) * 1.05, "below": float(row[0]) * 0.95}[how]
            d.strike = strike
            case |= {"strike": strike, "strike_at": how}
            tr = GTrace(case, "path_payoff")
            tr.deriv(d, [("underlier", p)], True, pk="arith" if opt in ("EuropeanOption", "LookbackOption") else "indicator")
            tr.deriv_sim(d, N)
            with torch.no_grad():
                tr.ask(["ttm", 0], lambda: d.time_to_maturity(None), _shape)
                tr.ask(["payoff", 0], lambda: d.payoff(), _shape)
            gtraces.append(tr)
        # by hand: point by point over the whole grid
        hi, lo = spot[:, 0], spot[:, 0]
        for i in range(1, T):
            hi, lo = torch.maximum(hi, spot[:, i]), torch.minimum(lo, spot[:, i])
        first_is_extreme = bool(((lo if not call else hi) == spot[:, 0]).any()) and T > 1
        ref = {"EuropeanOption": spot[:, T - 1], "EuropeanBinaryOption": spot[:, T - 1]}.get(opt, hi if call else lo)
        if opt in ("EuropeanOption", "LookbackOption"):
            want = (ref - strike).clamp(min=0.0) if call else (strike - ref).clamp(min=0.0)
        else:
            want = ((ref >= strike) if call else (ref <= strike)).to(spot.dtype)
        ctx.case(case, True, tag="path_payoff")
        ctx.traces += 1
        ctx.stats[f"path_payoff:{kind}:{opt}:{'call' if call else 'put'}"] += 1
        ctx.stats[f"path_payoff:extreme-at-the-first-point={first_is_extreme}"] += 1
        ctx.stats[f"path_payoff:T={'1' if T == 1 else '2+'}"] += 1
        side = "call" if call else "put"
        with torch.no_grad():
            for via, fn in (("derivative.payoff", d.payoff), ("functional", lambda: FUNC[opt](spot, call=call, strike=strike))):
                st, pay, mut = call_impl(fn, watch=[("derivative", d)])
                if mut:
                    ctx.mutated(via, mut, case)
                if st != "ok" or tuple(pay.shape) != (N,) or not torch.equal(pay, want):
                    ctx.fail(f"the payoff of {opt} ({side}) is not the one computed by hand from ALL points 0 .. T-1 of the underlier's grid "
                             "(running maximum / minimum point by point for the path-dependent options, point T-1 for the European ones)"
                             + (": it raised" if st != "ok" else ""), case | {"T": T, "via": via},
                             key=f"payoff:full-grid:{opt}:{side}" + (":single-point" if T == 1 else ""),
                             detail=pay if st != "ok" else {"payoff": pay.tolist()[:8], "by_hand": want.tolist()[:8], "paths": spot.tolist()[:4]})
                    break
            # the feature side: the running maximum up to the last step is the same maximum over the same points
            for name in ("max_moneyness", "max_log_moneyness"):
                st, fv, _ = call_impl(get_feature(name).of(d).get, T - 1)
                wantf = hi / strike
                ok = st == "ok" and tuple(fv.shape) == (N, 1, 1)
                if ok and name == "max_moneyness":
                    ok = torch.equal(fv[:, 0, 0], wantf)
                elif ok:
                    ok = bool(((fv[:, 0, 0] - wantf.log()).abs() <= 8 * 2.0 ** (-52 if spot.dtype == torch.float64 else -23) * (1 + wantf.log().abs())).all())
                if not ok:
                    ctx.fail(f"feature '{name}' at the last step is not the maximum over ALL points 0 .. T-1 of the underlier's grid over the strike",
                             case | {"T": T}, key=f"feature.{name}:full-grid", detail=fv if st != "ok" else {"impl": fv.reshape(-1).tolist()[:8], "by_hand": wantf.tolist()[:8]})
                    break


# ---------- the clock of the local volatility model: every buffer uses the grid i*dt of the underlier
# LocalVolatilityStock hands sigma_fn(time, spot) the time of the step.  With a sigma_fn that REVEALS its time argument (c + a*t, or
# c + a*t + b*spot) the time elapsed can be read off the volatility buffer: (volatility[:, i] - c - b*spot[:, i]) / a must be i*dt, so that
# elapsed time + time to maturity at step i is (T-1)*dt for every i - for the buffer, its square (variance) and the features
# 'volatility' / 'variance' of a derivative on it.  Deterministic corpus (non-default dt, integer and non-integer M/dt) + random cases.
# Tolerance: the time is one rounded product i*dt, sigma two or three rounded operations on values <= |c|+|a t|+|b s|, the elapsed
# time two more; 16 ulp of that magnitude (a wrong clock is off by i*|dt - dt'| >= 1e-3*dt).

LV_SIGMAS = [("t", 0.0, 1.0, 0.0), ("1+t", 1.0, 1.0, 0.0), ("0.2+t/2", 0.2, 0.5, 0.0), ("0.1+t+s/8", 0.1, 1.0, 0.125)]


def lv_corpus():
    out = []
    for dt in (1 / 365, 1 / 12, 0.1, 1 / 250, 0.01, 1 / 52):
        for r in (1, 3, 4.5, 20):
            out.append((dt, r))
    return out


def check_local_vol_clock(ctx, torch, I, g):
    from pfhedge.features import get_feature
    cases = [(dt, r, LV_SIGMAS[i % len(LV_SIGMAS)], "corpus") for i, (dt, r) in enumerate(lv_corpus())]
    for _ in range(30 if ctx.tier == "quick" else 400):
        cases.append((g.choice(DTS + [0.05, 0.2, 1 / 256]), g.choice([0, 1, 2, 3, 5, 8, 13, 30]) + g.choice([0, 0, 0.5, 0.25, 0.9]),
                      g.choice(LV_SIGMAS), "random"))
    for dt, r, (sname, c, a, b), kind in cases:
        dtype = g.choice([None, torch.float64])
        N = g.choice([1, 3, 8])
        via = g.choice(["stock", "derivative", "derivative"])
        opt = g.choice(OPTS)
        m = r * dt
        case = {"local_vol_clock": True, "dt": dt, "M": m, "M/dt": r, "sigma_fn(t, s)": sname, "via": via, "option": opt if via == "derivative" else None,
                "n_paths": N, "dtype": str(dtype), "kind": kind}
        p = I.LocalVolatilityStock(lambda time, spot, c=c, a=a, b=b: c + a * time + b * spot, dt=dt, dtype=dtype)
        d = getattr(I, opt)(p, maturity=m)
        if via == "stock":
            st, v, _ = call_impl(p.simulate, n_paths=N, time_horizon=m)
        else:
            st, v, _ = call_impl(d.simulate, n_paths=N)
        if st != "ok":
            ctx.fail("simulate raised", case, key="simulate:LocalVolatilityStock:raise", detail=v)
            continue
        spot, vol = p.spot, p.volatility
        T = spot.size(1)
        ctx.case(case, T > 1, tag="local_vol_clock")
        ctx.traces += 1
        ctx.stats[f"local_vol_clock:{kind}:{via}:dt={'default' if dt == 1 / 250 else 'other'}"] += 1
        if tuple(spot.shape) != (N, T) or tuple(vol.shape) != (N, T) or T not in expected_points(m, dt):
            ctx.fail("number of simulated time points differs from ceil(M/dt)+1", case, key="primary.simulate:n_steps=ceil(M/dt+1)",
                     detail={"spot": list(spot.shape), "volatility": list(vol.shape), "expected": sorted(expected_points(m, dt))})
            continue
        u = 2.0 ** (-52 if spot.dtype == torch.float64 else -23)
        with torch.no_grad():
            ttm = d.time_to_maturity(None).to(torch.float64)
            s64, v64 = spot.to(torch.float64), vol.to(torch.float64)
            mag = abs(c) + a * (T - 1) * dt + b * s64.abs() + v64.abs() + (T - 1) * dt
            tol = 16 * u * mag
            steps = torch.arange(T, dtype=torch.float64)
            views = [("volatility buffer", v64, 1.0)]
            st, var, _ = call_impl(lambda: p.variance)
            if st == "ok" and tuple(var.shape) == (N, T) and bool((var >= 0).all()):
                views.append(("variance buffer", var.to(torch.float64).sqrt(), 2.0))
            else:
                ctx.fail("the variance of a LocalVolatilityStock is not an (N, T) tensor", case, key="local_vol:variance:shape", detail=var if st != "ok" else list(var.shape))
            if via == "derivative":
                for name, k in (("volatility", 1.0), ("variance", 2.0)):
                    f = get_feature(name).of(d)
                    st, fall, _ = call_impl(f.get, None)
                    cols = []
                    for i in sorted({0, T - 1, g.randint(0, T - 1)}):
                        st2, fi, _ = call_impl(f.get, i)
                        cols.append((i, st2, fi))
                    if st != "ok" or tuple(fall.shape) != (N, T, 1) or any(s2 != "ok" or tuple(fi.shape) != (N, 1, 1) or not torch.equal(fi[:, 0, 0], fall[:, i, 0]) for i, s2, fi in cols):
                        ctx.fail(f"feature '{name}' of a derivative on a LocalVolatilityStock: get(None) is not (N, T, 1) or get(i) is not its column i", case,
                                 key=f"feature.{name}:local-vol:steps", detail=fall if st != "ok" else list(fall.shape))
                        continue
                    fv = fall[:, :, 0].to(torch.float64)
                    views.append((f"feature '{name}'", fv if name == "volatility" else fv.clamp(min=0.0).sqrt(), k))
            for what, sig, k in views:
                elapsed = (sig - c - b * s64) / a
                bad = ((elapsed + ttm - (T - 1) * dt).abs() > k * tol / a) | ((elapsed - steps * dt).abs() > k * tol / a)
                if k == 2.0 and b != 0.0:  # a spot-dependent sigma may be negative on a path: the variance only knows |sigma|
                    other = (-sig - c - b * s64) / a
                    bad &= ((other + ttm - (T - 1) * dt).abs() > k * tol / a) | ((other - steps * dt).abs() > k * tol / a)
                bad &= torch.isfinite(sig) & torch.isfinite(s64) & torch.isfinite(v64)  # an exploded path (sigma growing with the spot, coarse dt) says nothing
                if bool(bad.any()):
                    n_, i_ = [int(x) for x in bad.nonzero()[0]]
                    ctx.fail(f"LocalVolatilityStock with sigma_fn(t, s) = {sname}: the time read off the {what} at step i is not i*dt - "
                             "time elapsed + time to maturity differs from (T-1)*dt, the volatility sits on another time grid than time to maturity",
                             case | {"T": T, "i": i_, "path": n_}, key=f"local_vol:clock:{what.split()[0].replace(chr(39), '')}:{what.split()[-1].replace(chr(39), '')}",
                             detail={"elapsed_from_volatility": float(elapsed[n_, i_]), "i*dt": i_ * dt, "time_to_maturity": float(ttm[n_, i_]), "(T-1)*dt": (T - 1) * dt})
                    break


def check(ctx):
    torch, pfhedge = import_impl()
    import pfhedge.instruments as I
    from pfhedge.nn import Hedger, Naked
    g = ctx.gen
    ctx.lean_gate()
    n = 1500 if ctx.tier == "quick" else 8000
    reqs, meta = [], []
    gtraces = []
    torch.manual_seed(ctx.seed % (2 ** 31))
    for it in range(n):
        m, dt, form, k = gen_grid(g)
        prim = "BrownianStock" if g.chance(0.6) else g.choice(PRIMS)
        if prim == "RoughBergomiStock" and m / dt > 40:
            prim = "BrownianStock"
        opt = g.choice(OPTS)
        dtype = g.choice([None, torch.float64])
        case = {"M": m, "dt": dt, "form": form, "k": k, "primary": prim, "option": opt,
                "dtype": str(dtype)}
        try:
            p = make_primary(I, torch, prim, dt, dtype)
            d = getattr(I, opt)(p, maturity=m)
        except Exception as e:  # noqa
            raise InternalError("cannot build instruments: " + repr(e))
        st, v, _ = call_impl(d.simulate, n_paths=2)
        ctx.stats[f"primary={prim}"] += 1
        ctx.stats[f"form={form}"] += 1
        if st != "ok":
            if prim == "VasicekRate" and v == "recursion_error":
                ctx.stats["vasicek_recursion(reported under C10/C11/C17)"] += 1
                continue
            ctx.fail("derivative.simulate raised", case, key=f"simulate:{prim}:raise", detail=v)
            continue
        shapes = {name: tuple(b.shape) for name, b in p.named_buffers()}
        T = p.spot.size(1)
        ctx.case(case, nontrivial=True, tag="n_steps")
        ctx.traces += 1
        if any(s != (2, T) for s in shapes.values()):
            ctx.fail("buffers of one instrument have different time grids", case | {"shapes": str(shapes)},
                     key=f"simulate:{prim}:buffer-shapes")
        reqs.append({"op": "grid", "m": float_bits(m), "dt": float_bits(dt), "start": float_bits(0.0)})
        meta.append((case, T))
        acc = expected_points(m, dt)
        if T not in acc:
            ctx.fail("number of simulated time points differs from ceil(M/dt)+1 (k+1 when M/dt is within rounding distance of the integer k)",
                     case | {"points": T, "expected": sorted(acc)},
                     key="primary.simulate:n_steps=ceil(M/dt+1)",
                     detail={"ratio": float(F(m) / F(dt))})
        # grid shared by payoffs / features / time to maturity / hedges (every 4th case)
        if it % 4 == 0 and prim not in ("CIRRate", "VasicekRate"):
            with torch.no_grad():
                ttm = d.time_to_maturity(None)
                pay = d.payoff()
                h = Hedger(Naked(), ["moneyness", "time_to_maturity", "volatility"])
                hedge = h.compute_hedge(d)
            if tuple(ttm.shape) != (2, T) or tuple(pay.shape) != (2,) or tuple(hedge.shape) != (2, 1, T):
                ctx.fail("payoff / time-to-maturity / hedge do not use the simulated grid", case,
                         key="grid:shared", detail={"ttm": list(ttm.shape), "hedge": list(hedge.shape)})
            # time to maturity: real identity (T-1-i)*dt, strictly decreasing, exactly zero at the end
            tt = [float(x) for x in ttm[0].to(torch.float64).tolist()]
            eps = 4 * 2.0 ** (-52 if p.spot.dtype == torch.float64 else -23) * max(1e-300, (T - 1) * dt)
            for i in range(T):
                if abs(tt[i] - (T - 1 - i) * dt) > eps:
                    ctx.fail("time to maturity at step i differs from (T-1-i)*dt", case | {"i": i},
                             key="time_to_maturity:value", detail={"impl": tt[i], "expected": (T - 1 - i) * dt})
                    break
            if tt[-1] != 0.0 or any(tt[i] <= tt[i + 1] for i in range(T - 1)):
                ctx.fail("time to maturity is not strictly decreasing to exactly zero", case,
                         key="time_to_maturity:monotone", detail={"tail": tt[-3:]})
    # ---------- derivatives with several underliers: every underlier gets the grid of the current maturity
    from pfhedge.instruments import BaseDerivative

    class Spread(BaseDerivative):
        def __init__(self, a, b, maturity):
            super().__init__()
            self.register_underlier("first", a)
            self.register_underlier("second", b)
            self.maturity = maturity

        def payoff_fn(self):
            return torch.relu(self.get_underlier("first").spot[..., -1] - self.get_underlier("second").spot[..., -1])

    for _ in range(20 if ctx.tier == "quick" else 300):
        dtm = g.choice([1 / 250, 1 / 12, 0.1])
        pa, pb = g.choice(PRIMS[:3] + PRIMS[4:6]), g.choice(PRIMS[:3] + PRIMS[4:6])
        a_, b_ = make_primary(I, torch, pa, dtm, None), make_primary(I, torch, pb, dtm, None)
        k1, k2 = g.randint(1, 30), g.randint(1, 30)
        sp = Spread(a_, b_, k1 * dtm)
        case = {"multi_underlier": [pa, pb], "dt": dtm, "maturities": [k1 * dtm, k2 * dtm]}
        ctx.case(case, True, tag="multi_underlier")
        ctx.traces += 1
        replaced = None
        tr = GTrace(case, "multi_underlier")
        gtraces.append(tr)
        tr.deriv(sp, [("first", a_), ("second", b_)], False, pay=["named", "first", "second"])
        for kk in (k1, k2):
            if kk is k2 and g.chance(0.6):
                # object re-use: one underlier of the EXISTING derivative is replaced by attribute assignment (same step size)
                replaced = g.choice(["first", "second"])
                pn = g.choice(PRIMS[:3] + PRIMS[4:6])
                setattr(sp, replaced, make_primary(I, torch, pn, dtm, None))
                case = case | {"replaced_by_assignment": {replaced: pn}}
                tr.case = case
                tr.assign(sp, replaced, getattr(sp, replaced))
            sp.maturity = kk * dtm
            st, v, _ = call_impl(sp.simulate, n_paths=2)
            if st != "ok":
                ctx.fail("simulate of a two-underlier derivative raised", case, key="simulate:multi-underlier:error", detail=v)
                break
            tr.deriv_sim(sp, 2)
            gs_observe(tr, sp, ["underlier_spot", "zeros"], hedge_cfgs=[(["underlier_spot"], None, None)], names=("first", "second", "underlier"),
                       pay_names=("first", "second"), singles=["moneyness", "volatility"])
            want = expected_points(kk * dtm, dtm)
            try:
                shapes = [tuple(u_.spot.shape) for u_ in sp.underliers()]
            except AttributeError:
                ctx.fail("an underlier of a derivative was not simulated", case | {"maturity": kk * dtm}, key="simulate:multi-underlier:grid")
                break
            if any(sh[0] != 2 or sh[1] not in want for sh in shapes) or tuple(sp.payoff().shape) != (2,):
                ctx.fail("not every underlier of a derivative is simulated on the grid of the current maturity", case | {"maturity": kk * dtm},
                         key="simulate:multi-underlier:grid", detail={"shapes": shapes, "expected_points": sorted(want)})
                break
            if replaced:
                # whichever way the derivative reaches its underliers (registry / attribute), each is on the grid of the maturity
                reach = [("underliers()[%d]" % i_, u_) for i_, u_ in enumerate(sp.underliers())] + \
                        [(".first", sp.first), (".second", sp.second), ("get_underlier(first)", sp.get_underlier("first")),
                         ("get_underlier(second)", sp.get_underlier("second"))]
                got = {how: (tuple(u_.spot.shape) if hasattr(u_, "spot") else "not simulated") for how, u_ in reach}
                if any(not (isinstance(sh, tuple) and sh[0] == 2 and sh[1] in want) for sh in got.values()) \
                        or len({id(u_) for _, u_ in reach}) != 2:
                    ctx.fail("after an underlier of an existing derivative was replaced by attribute assignment, simulate() does not put "
                             "every underlier (registry and attributes) on the grid of the current maturity", case | {"maturity": kk * dtm},
                             key="simulate:multi-underlier:replaced-by-assignment",
                             detail={"shapes": str(got), "expected_points": sorted(want),
                                     "distinct_objects": len({id(u_) for _, u_ in reach})})
                    break
    # ---------- lower boundary: maturities shorter than one step, down to M = 0 (a grid with a single time point)
    from pfhedge.features import Moneyness, TimeToMaturity
    SHORT_PRIMS = [x for x in PRIMS if x != "RoughBergomiStock"]     # (rough Bergomi cannot generate a single point: raises)
    for it in range(48 if ctx.tier == "quick" else 600):
        den = g.choice(DENS)
        dt = 1 / den if g.chance(0.75) else g.choice([0.1, 0.01, 0.05, 0.2, 0.3])
        frac = g.choice([0.0, 0.0, 0.0, 1e-14, 0.25, 0.5, 0.9])
        m = frac * dt
        prim = g.choice(SHORT_PRIMS)
        opt = g.choice(OPTS)
        call = g.chance(0.6)
        strike = g.choice([0.5, 1.0, 1.25, 2.0])
        s0 = g.choice([0.75, 1.0, 1.25, 1.5, 2.0])
        dtype = g.choice([None, torch.float64])
        n_paths = g.choice([1, 2, 3])
        case = {"short_maturity": True, "M": m, "dt": dt, "frac": frac, "primary": prim, "option": opt, "call": call,
                "strike": strike, "init_price": s0, "dtype": str(dtype), "n_paths": n_paths}
        p = make_primary(I, torch, prim, dt, dtype)
        d = getattr(I, opt)(p, call=call, strike=strike, maturity=m)
        rate = prim in ("CIRRate", "VasicekRate")
        init = None if rate else (s0,) + tuple(p.default_init_state[1:])
        st, v, _ = call_impl(d.simulate, n_paths=n_paths, init_state=init)
        ctx.case(case, nontrivial=True, tag="short_maturity")
        ctx.stats[f"short_maturity:frac={frac}"] += 1
        ctx.traces += 1
        if st != "ok":
            ctx.fail("derivative.simulate raised for a maturity shorter than one step", case, key=f"short-maturity:{prim}:raise", detail=v)
            continue
        shapes = {name: tuple(b.shape) for name, b in p.named_buffers()}
        acc = expected_points(m, dt)
        T = p.spot.size(1)
        if any(s != (n_paths, T) for s in shapes.values()) or T not in acc:
            ctx.fail("number of simulated time points differs from ceil(M/dt)+1 for a maturity shorter than one step (M = 0: a single point)",
                     case | {"shapes": str(shapes), "expected": sorted(acc)}, key="short-maturity:n_steps")
            continue
        if rate:
            continue
        with torch.no_grad():
            ttm = d.time_to_maturity(None)
            ttm_last = d.time_to_maturity(T - 1)
            stp, pay, _ = call_impl(d.payoff)
            fs = [tuple(f_.of(d).get(None).shape) for f_ in (Moneyness(), TimeToMaturity())]
        if stp != "ok":
            ctx.fail("the payoff of a derivative with a maturity shorter than one step raised (the grid has T = ceil(M/dt)+1 >= 1 points)",
                     case | {"T": T}, key=f"short-maturity:payoff-raise:{opt}:{'call' if call else 'put'}", detail=pay)
            continue
        if tuple(ttm.shape) != (n_paths, T) or tuple(pay.shape) != (n_paths,) or any(s != (n_paths, T, 1) for s in fs):
            ctx.fail("payoff / time-to-maturity / features do not use the simulated grid (maturity shorter than one step)", case,
                     key="short-maturity:grid", detail={"ttm": list(ttm.shape), "features": fs})
            continue
        tt = ttm.to(torch.float64).tolist()
        eps = 4 * 2.0 ** (-52 if p.spot.dtype == torch.float64 else -23) * max(1e-300, (T - 1) * dt)
        if any(abs(row[i] - (T - 1 - i) * dt) > eps for row in tt for i in range(T)) or any(row[-1] != 0.0 for row in tt) \
                or any(x != 0.0 for x in ttm_last.reshape(-1).tolist()):
            ctx.fail("time to maturity differs from (T-1-i)*dt / is not exactly zero at the last step (maturity shorter than one step)", case,
                     key="short-maturity:time_to_maturity", detail={"ttm": tt[0]})
        if T == 1:
            # the derivative matures at once: its payoff is the intrinsic value at the initial price
            first = p.spot[:, 0].to(torch.float64).tolist()
            if opt in ("EuropeanOption", "LookbackOption"):
                exp = [max(x - strike, 0.0) if call else max(strike - x, 0.0) for x in first]
            else:
                exp = [float(x >= strike) if call else float(x <= strike) for x in first]
            if pay.to(torch.float64).tolist() != exp:
                ctx.fail("the payoff of a derivative of maturity 0 is not the intrinsic value at the initial price", case,
                         key="short-maturity:payoff", detail={"payoff": pay.tolist(), "expected": exp, "initial": first})
    # ---------- a listed derivative (hedging instrument) shares its underlier: whichever object the underlier was simulated through
    #            last, the listed price series / its Spot feature / hedges computed with it live on the grid of THAT simulation
    from pfhedge.features import Spot
    LPRIMS = ["BrownianStock", "HestonStock", "MertonJumpStock", "KouJumpStock", "LocalVolatilityStock"]
    for it in range(30 if ctx.tier == "quick" else 400):
        dt = g.choice([1 / 250, 1 / 365, 1 / 12, 0.1, 0.01])
        prim = g.choice(LPRIMS)
        p = make_primary(I, torch, prim, dt, None)
        a, b = g.choice([1.0, 0.5, 2.0]), g.choice([0.0, 1.0, 0.25])

        def pricer(dd, a=a, b=b):
            return dd.ul().spot * a + b * dd.time_to_maturity()
        k0 = g.randint(1, 30)
        listed = getattr(I, g.choice(OPTS))(p, maturity=k0 * dt)
        listed.list(pricer, cost=g.choice([0.0, 1e-4]))
        k1 = g.choice([k for k in range(1, 31) if k != k0])
        other = getattr(I, g.choice(OPTS))(p, maturity=k1 * dt)
        seq = ["listed"] + [g.choice(["other", "other", "underlier", "listed"]) for _ in range(g.choice([1, 2, 3]))]
        case = {"listed_hedge": True, "primary": prim, "dt": dt, "listed_maturity": k0 * dt, "other_maturity": k1 * dt, "sequence": []}
        ctx.case(case | {"sequence": seq}, True, tag="listed_hedge")
        ctx.traces += 1
        tr = GTrace(case, "listed_hedge")
        gtraces.append(tr)
        for dd_ in (listed, other):
            tr.deriv(dd_, [("underlier", p)], True, pricer="spot" if dd_ is listed else None,
                     pk="arith" if type(dd_).__name__ in ("EuropeanOption", "LookbackOption") else "indicator")
        for route in seq:
            n_paths = g.choice([1, 2, 3])
            if route == "underlier":
                mat = g.randint(1, 30) * dt
                st, v, _ = call_impl(p.simulate, n_paths=n_paths, time_horizon=mat)
                hedged = None
            else:
                hedged = listed if route == "listed" else other
                mat = hedged.maturity
                st, v, _ = call_impl(hedged.simulate, n_paths=n_paths)
            case["sequence"].append({"through": route, "maturity": mat, "n_paths": n_paths})
            ctx.stats[f"listed_hedge:through={route}"] += 1
            if st != "ok":
                ctx.fail("simulate raised", case, key=f"simulate:{prim}:raise", detail=v)
                break
            if hedged is None:
                tr.prim_sim(p, n_paths, mat)
            else:
                tr.deriv_sim(hedged, n_paths)
            for dd_ in (listed, other):
                gs_observe(tr, dd_, ["time_to_maturity", "moneyness"], listed=dd_ is listed,
                           hedge_cfgs=[(["time_to_maturity"], [listed], [["deriv", 0]]), (["time_to_maturity", "prev_hedge"], [listed], [["deriv", 0]]),
                                       (["moneyness", "spot"] if dd_ is listed else ["moneyness"], None, None)])
            want = expected_points(mat, dt)
            T = p.spot.size(1)
            if tuple(p.spot.shape) != (n_paths, T) or T not in want:
                ctx.fail("number of simulated time points differs from ceil(M/dt)+1 when an underlier is simulated again", case,
                         key="listed:underlier-grid", detail={"shape": list(p.spot.shape), "expected_points": sorted(want)})
                break
            with torch.no_grad():
                r_spot = call_impl(lambda: listed.spot)[:2]
                r_feat = call_impl(Spot().of(listed).get, None)[:2]
                r_at = call_impl(Spot().of(listed).get, T - 1)[:2]
            got = {"listed.spot": r_spot[1].shape if r_spot[0] == "ok" else r_spot[1],
                   "Spot.get(None)": r_feat[1].shape if r_feat[0] == "ok" else r_feat[1],
                   "Spot.get(T-1)": r_at[1].shape if r_at[0] == "ok" else r_at[1]}
            if {k_: (tuple(v_) if not isinstance(v_, str) else v_) for k_, v_ in got.items()} != \
                    {"listed.spot": (n_paths, T), "Spot.get(None)": (n_paths, T, 1), "Spot.get(T-1)": (n_paths, 1, 1)}:
                ctx.fail("the price series of a listed derivative / its Spot feature is not on the grid of the last simulation of the shared underlier",
                         case, key="listed:grid-after-resimulation", detail={"got": str(got), "grid": [n_paths, T]})
                break
            with torch.no_grad():
                ineg = g.choice([-1, -1, -T, g.randint(-T, -1)])
                r_neg = call_impl(Spot().of(listed).get, ineg)[:2]
            if r_neg[0] == "ok" and (tuple(r_neg[1].shape) != (n_paths, 1, 1) or not torch.equal(r_neg[1], r_feat[1][:, [ineg]])):
                ctx.fail("the Spot feature of a listed derivative at a negative step is not one time point = that column of its all-steps value",
                         case | {"step": ineg}, key="feature.spot.get:negative-step",
                         detail={"shape": list(r_neg[1].shape), "grid": [n_paths, T]})
                break
            with torch.no_grad():
                fresh = pricer(listed)
            if not torch.equal(r_spot[1], fresh):
                ctx.fail("the price series of a listed derivative is not its pricer applied to the current paths of the shared underlier", case,
                         key="listed:price-after-resimulation", detail={"spot": r_spot[1][0].tolist(), "pricer": fresh[0].tolist()})
                break
            if hedged is None:
                continue
            bad = None
            for feats in (["time_to_maturity"], ["time_to_maturity", "prev_hedge"]):
                with torch.no_grad():
                    sth, hv, _ = call_impl(Hedger(Naked(), feats).compute_hedge, hedged, hedge=[listed])
                if sth != "ok" or tuple(hv.shape) != (n_paths, 1, T):
                    bad = {"features": feats, "hedge": hv if sth != "ok" else list(hv.shape), "grid": [n_paths, T]}
                    break
            if bad:
                ctx.fail("a hedge computed with a listed derivative as the hedging instrument is not on the grid of the derivative just simulated",
                         case, key="listed:hedge-grid", detail=bad)
                break
    check_shared_features(ctx, torch, I, g, gtraces)
    check_replace_underlier(ctx, torch, I, g, gtraces)
    check_mixed_histories(ctx, torch, I, g, gtraces)
    freqs, fmeta = [], []
    check_feature_steps(ctx, torch, I, g, freqs, fmeta)
    check_hedge_values(ctx, torch, I, g, gtraces)
    check_path_payoffs(ctx, torch, I, g, gtraces)
    check_local_vol_clock(ctx, torch, I, g)
    # ---------- time_to_maturity replica (float64 instruments: bit-exact)
    treqs, tmeta = [], []
    for _ in range(150 if ctx.tier == "quick" else 2000):
        T = g.small((1, 2, 3, 4, 5, 8, 21, 31))
        dt = g.choice([1 / 250, 1 / 365, 1 / 12, 0.1, 0.01, 0.25, 1 / 256])
        p = I.BrownianStock(dt=dt, dtype=torch.float64)
        p.register_buffer("spot", torch.ones(3, T, dtype=torch.float64))
        d = I.EuropeanOption(p, maturity=(T - 1) * dt)
        idx = sorted({0, T - 1, -1, -T, g.randint(-T, T - 1), g.randint(-T, T - 1), T, 2 * T + 1})
        allv = [float(x) for x in d.time_to_maturity(None)[1].tolist()]
        ats = []
        for i in idx:
            st, v, _ = call_impl(d.time_to_maturity, i)
            ats.append((st, float(v[0, 0]) if st == "ok" else v, tuple(v.shape) if st == "ok" else None))
        treqs.append({"op": "ttm", "n": T, "dt": float_bits(dt), "idx": idx})
        tmeta.append((T, dt, idx, allv, ats))
    check_forward_start_grid(ctx, torch, I, g)
    gs_compare(ctx, gtraces)
    try:
        outs = ctx.driver(reqs)
        touts = ctx.driver(treqs + freqs)
        touts, fouts = touts[:len(treqs)], touts[len(treqs):]
    except DriverBroken as e:
        ctx.ties_broken.append({"kind": "driver", "detail": str(e)[:1500]})
        outs, touts, fouts = [], [], []
    # the TimeToMaturity feature step by step (float64 instruments) against the same replica: bit-exact
    for (case, idx, allv, ats), mo in zip(fmeta, fouts):
        if dec_flt(mo["all"]) != allv:
            ctx.disagree("feature_ttm_all", case, allv, dec_flt(mo["all"]))
        for i, a, mm in zip(idx, ats, mo["at"]):
            mv = ("ok", float_of_bits(mm["ok"])) if "ok" in mm else ("err", mm["err"])
            if a != mv:
                ctx.disagree("feature_ttm_at", case | {"i": i}, a, mv)
    for (case, T), mo in zip(meta, outs):
        if mo["n_shipped"] != T:
            ctx.disagree("n_steps", case, T, mo["n_shipped"])
    for (T, dt, idx, allv, ats), mo in zip(tmeta, touts):
        case = {"T": T, "dt": dt, "idx": idx}
        ctx.case(case, nontrivial=T >= 2, tag="ttm")
        ctx.traces += 1
        mall = dec_flt(mo["all"])
        if mall != allv:
            ctx.disagree("ttm_all", case, allv, mall)
        for i, (st, v, shp), mm in zip(idx, ats, mo["at"]):
            mv = ("ok", float_of_bits(mm["ok"])) if "ok" in mm else ("err", mm["err"])
            if (st, v) != mv:
                ctx.disagree("ttm_at", case | {"i": i}, (st, v), mv)
            if st == "ok" and shp != (3, 1):
                ctx.fail("time_to_maturity(i) does not have one entry per path", case | {"i": i},
                         key="time_to_maturity:shape", detail=shp)
            # predicate: accepted indices give (T-1-(i mod T))*dt
            if st == "ok":
                exp = (T - 1 - (i % T)) * dt
                if abs(v - exp) > 4 * 2.0 ** -52 * max(1e-300, (T - 1) * dt):
                    ctx.fail("time to maturity at step i differs from (T-1-i)*dt", case | {"i": i},
                             key="time_to_maturity:value", detail={"impl": v, "expected": exp})
    return ctx.finish(
        rule="(M, dt) sweeps: dt in {1/250,1/365,1/12,1/10,1/252,1/100,1/52,1/4,1/8,1/360,0.1,0.01,0.05,0.2,0.3}, M = k/den, k*dt, round(k*dt,10) "
             "and non-integer multiples, k<=120, all 8 primaries x 4 option types; time_to_maturity for all/one step incl. negative and "
             "wrapped indices; maturities shorter than one step (M = 0, 1e-14 dt, fractions of dt) on 7 primaries with payoff = intrinsic value at T = 1; "
             "a listed derivative sharing its underlier with a derivative of another maturity, re-simulated through either / the underlier, "
             "price series / Spot feature / hedges on the current grid; the underlier of an existing derivative (single / two-underlier) "
             "replaced by attribute assignment or re-registration (fresh or pre-simulated primary of another type / dt, with or without a "
             "new maturity) and simulated again: every reachable underlier, time to maturity, payoff, features, hedge on the new grid; "
             "every feature (13 named ones, Ones, UnderlierLogSpot, Barrier up/down, Spot of a listed derivative) at steps 0, T-1, -1, -2, -T "
             "and random ones vs column i of the all-steps value, FeatureList.get / Hedger.get_input (random lists, Black-Scholes inputs) "
             "at the same steps; the histories of the object sections plus mixed histories (2-3 primaries of different dt, built-in options / user "
             "derivatives with and without OptionMixin, registry order first/underlier, assignments, registrations, maturity changes incl. M = 0, "
             "simulations through either owner or the primary) replayed by the model op grid_sys on exact rationals and on doubles: accessors by "
             "object identity, all buffer shapes, ttm / payoff / features / hedge shapes or error kinds compared exactly; "
             "ONE FeatureList / set of feature objects (named features, Ones, UnderlierLogSpot, Barrier, a user-defined feature with a parameter; "
             "also as the inputs of a Hedger, as single objects, and a bound list bound again) bound to 2-3 derivatives of different primary / dt / "
             "maturity / n_paths / strike (5 fixed pairs + random ones), bound before or after the simulations, every binding used after all were "
             "made and after a re-simulation with a new maturity: shape, time to maturity, values, get(i) on its OWN derivative's grid, and the "
             "same bindings as answers to the model's feature(s) queries (grid_sys with several derivatives); "
             "forward-start options on 6 primaries: every pair of whole / fractional M/dt and start/dt (fixed list at dt 1/250, 1/365, 1/12, 0.1 + random, "
             "object re-used with another start / maturity): T = ceil(M/dt)+1 and the payoff fixes the strike at grid point floor(start/dt) counted "
             "from the first point (observed from the payoff against max(S[T-1]/S[j]-K,0) by hand for every j; op grid start index shipped / exact); "
             "hedge values step by step: compute_hedge[:, h, i] = model(features of grid step i)[h] for H = 1, 2, 3 hedging instruments (list of primaries / "
             "all underliers of a user derivative), Linear / tanh network with dyadic weights, all-at-once and prev_hedge branches, whole and fractional "
             "M/dt (fixed list + random), last step held, also as grid_sys hedge queries with several instruments; payoffs of the 4 option types, calls "
             "and puts, derivative and functional form, recomputed point by point from ALL grid points of the spot buffer (hand-made paths with the extreme "
             "at the first / last / an inner point, T = 1, 2, 3, 5, + simulated paths on 6 primaries with strikes at the first / lowest / highest / last "
             "point, M = 0 included), running-maximum features at the last step; "
             "every case is non-trivial (T>=2 for ttm); distinct = sha1 of canonical case")
