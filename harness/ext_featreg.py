"""C03 (and C02) extension: the registry behind feature names.

The theorems of C02 / C03 quantify over the `BaseFeature`s of Model/Hedger.lean; `Hedger(inputs=[...])` is given NAMES.
Model/FeatReg.lean models `FeatureFactory` / `get_feature` / `list_feature_names` and the table of the classes the
library registers at import time; Lemmas/C03Registry.lean proves that table complete and injective.  Here the real
registry is run against the model (op `feat_reg`): the library's own registrations, then histories of user
`register_feature` calls (new names, aliases of library classes, a library name rebound), and every way of asking
`get_feature` (name, name with `log=`, instance, instance with a stray keyword, something that is no feature).
"""
from collections import OrderedDict

from common import import_impl

USER_CLASSES = ["MyFeatA", "MyFeatB"]


def _describe(torch, f, classes, d, hedger):
    """the outside view of a feature instance, in the vocabulary of the model (None for an instance of a user class)"""
    F = classes
    if isinstance(f, F["MaxMoneyness"]):
        tag = ["max_moneyness", bool(f.log)]
    elif isinstance(f, F["Moneyness"]):
        tag = ["moneyness", bool(f.log)]
    elif isinstance(f, F["TimeToMaturity"]):          # ExpiryTime is a subclass or an alias
        tag = ["time_to_maturity", False]
    elif type(f).__name__ == "ExpiryTime":
        tag = ["time_to_maturity", False]
    elif isinstance(f, F["Volatility"]):
        tag = ["volatility", False]
    elif isinstance(f, F["Variance"]):
        tag = ["variance", False]
    elif isinstance(f, F["UnderlierSpot"]):
        tag = ["underlier_spot", bool(f.log)]
    elif isinstance(f, F["Spot"]):
        tag = ["spot", bool(f.log)]
    elif isinstance(f, F["Zeros"]):
        tag = ["zeros", False]
    elif isinstance(f, F["Empty"]):
        tag = ["empty", False]
    elif isinstance(f, F["PrevHedge"]):
        tag = ["prev_hedge", False]
    else:
        return None
    bound = f.of(d, hedger)
    return {"feature": tag, "name": str(f), "state_dependent": bool(bound.is_state_dependent())}


def _canon(e):
    if isinstance(e, KeyError):
        return "key_error"
    if isinstance(e, TypeError):
        return "type_error"
    return "other:" + type(e).__name__


def run(ctx, g):
    torch, pfhedge = import_impl()
    import pfhedge.features.features as ff
    from pfhedge.features import _getter
    from pfhedge.features._base import Feature, StateIndependentFeature
    from pfhedge.instruments import BrownianStock, EuropeanOption
    fac = _getter.FeatureFactory()
    lib = {n: getattr(ff, n) for n in ["Empty", "ExpiryTime", "TimeToMaturity", "LogMoneyness", "MaxLogMoneyness", "MaxMoneyness",
                                      "Moneyness", "PrevHedge", "Variance", "Volatility", "Zeros", "Spot", "UnderlierSpot"]}
    user = {}
    for nm in USER_CLASSES:
        user[nm] = type(nm, (StateIndependentFeature,), {"name": nm.lower(), "get": lambda self, time_step=None: torch.zeros(1, 1, 1)})
    by_name = dict(lib, **user)
    d = EuropeanOption(BrownianStock())
    d.simulate(n_paths=2)
    hedger = torch.nn.Linear(1, 1)
    builtin_names = [n for n, _ in fac.named_features()]
    n_hist = 40 if ctx.tier == "quick" else 200
    histories = [[]]
    # deterministic corpus: alias of a library class, a library name rebound to another library class / to a user class,
    # the same name registered twice, a user class under two names
    histories += [[["alias_spot", "Spot"]], [["moneyness", "LogMoneyness"]], [["spot", "MyFeatA"]],
                  [["mine", "MyFeatA"], ["mine", "MyFeatB"]], [["a", "MyFeatA"], ["b", "MyFeatA"], ["zeros", "Spot"], ["a", "Zeros"]]]
    pool_names = builtin_names + ["mine", "other", "alias", "Spot", "log_spot", "underlier_log_spot", "ones", "barrier", ""]
    for _ in range(n_hist):
        histories.append([[g.choice(pool_names), g.choice(list(by_name))] for _ in range(g.choice([1, 1, 2, 3, 5]))])
    reqs, metas = [], []
    saved = OrderedDict(fac._features)
    try:
        for hist in histories:
            fac._features.clear()
            fac._features.update(saved)
            for n, c in hist:
                fac.register_feature(n, by_name[c])
            queries, impl = [], []
            qnames = list(dict.fromkeys(builtin_names + [n for n, _ in hist] + ["nope", "Spot", "log_spot", "ones", "barrier"]))
            for n in qnames:
                queries.append({"q": "get_class", "name": n})
                try:
                    impl.append({"ok": fac.get_class(n).__name__})
                except Exception as e:  # noqa
                    impl.append({"err": _canon(e)})
                for log in (None, True, False):
                    if log is not None and not g.chance(0.6) and hist:
                        continue
                    if log is not None and fac._features.get(n) in user.values():
                        continue        # constructor arguments of user classes are outside the model
                    queries.append({"q": "get_feature", "name": n, "log": log})
                    try:
                        f = _getter.get_feature(n) if log is None else _getter.get_feature(n, log=log)
                        if not isinstance(f, Feature):
                            ctx.fail("get_feature(name) did not return a Feature", {"history": hist, "name": n, "log": log}, key="get_feature:not-a-feature")
                        impl.append({"ok": _describe(torch, f, lib, d, hedger)})
                    except Exception as e:  # noqa
                        impl.append({"err": _canon(e)})
            for kind in builtin_names:
                for log in (None, True):
                    for kw in (None, False):
                        try:
                            inst = saved[kind]() if log is None else saved[kind](log=log)
                        except TypeError:
                            continue
                        queries.append({"q": "get_feature_instance", "kind": kind, "log": log, "kw": kw})
                        try:
                            f = _getter.get_feature(inst) if kw is None else _getter.get_feature(inst, log=kw)
                            if f is not inst:
                                ctx.fail("get_feature(instance) did not hand back the instance itself",
                                         {"history": hist, "kind": kind, "log": log, "kw": kw}, key="get_feature:instance-identity")
                            impl.append({"ok": _describe(torch, f, lib, d, hedger)})
                        except Exception as e:  # noqa
                            impl.append({"err": _canon(e)})
            for other in (3, None, torch.nn.Identity(), lib["Spot"]):
                queries.append({"q": "get_feature_other"})
                try:
                    _getter.get_feature(other)
                    impl.append({"ok": "accepted"})
                except Exception as e:  # noqa
                    impl.append({"err": _canon(e)})
            names = [n for n in fac.names()]
            out = {"names": names, "list_names": _getter.list_feature_names(),
                   "named": [[n, c.__name__] for n, c in _getter.list_feature_dict().items()], "answers": impl}
            # property-side predicates on the real registry (C03 "every feature": a name stands for one feature)
            if sorted(names) != out["list_names"] or len(set(names)) != len(names):
                ctx.fail("list_feature_names() is not the sorted list of the registered names, each once",
                         {"history": hist, "names": names, "list": out["list_names"]}, key="registry:list-names")
            case = {"history": hist, "n_queries": len(queries)}
            ctx.case({"op": "feat_reg", "history": hist}, nontrivial=True, tag="feat_reg:" + ("builtin" if not hist else "user"))
            reqs.append({"op": "feat_reg", "history": hist, "queries": queries})
            metas.append((case, queries, out))
    finally:
        fac._features.clear()
        fac._features.update(saved)
    # the library's names reproduce themselves: str(get_feature(n)) == n (ExpiryTime included: the real class names itself)
    for n in builtin_names:
        f = _getter.get_feature(n)
        if str(f) != n:
            ctx.fail("a registered name does not come back from the feature it stands for", {"name": n, "str": str(f)}, key="registry:name-roundtrip")
    outs = ctx.driver(reqs)
    for (case, queries, impl), mo in zip(metas, outs):
        if not isinstance(mo, dict) or "answers" not in mo:
            ctx.disagree("feat_reg", case, "(impl ran)", mo)
            continue
        for k in ("names", "list_names", "named"):
            # the insertion order of the registry is not something a property speaks about: compared as sets
            if (impl[k] != mo[k]) if k == "list_names" else (sorted(impl[k]) != sorted(mo[k])):
                ctx.disagree("feat_reg:" + k, case, impl[k], mo[k])
        for q, a, b in zip(queries, impl["answers"], mo["answers"]):
            if q["q"] in ("get_feature", "get_feature_instance") and "ok" in a and a["ok"] and "ok" in b and b["ok"] and a["ok"]["name"] == "expiry_time":
                a = {"ok": dict(a["ok"], name="time_to_maturity")}     # the deprecated alias: same values, its own name (not modelled)
            if a != b:
                ctx.disagree("feat_reg:" + q["q"], dict(case, query=q), a, b)
