"""C01 — Hedging P&L is the self-financing wealth identity.

correspondence: functional.pl / terminal_value / Hedger.compute_pl / compute_portfolio  vs
                the Lean model `PfVerif.pl` at Rat (exact: dyadic inputs, no rounding anywhere)
property predicate (search): the double sum of the property statement in exact Fractions.
"""
from fractions import Fraction as F
from common import *  # noqa


def wealth(spot, unit, cost, payoff, first):
    """the property statement, one path; spot/unit: H x T lists of Fractions"""
    tot = -(payoff if payoff is not None else 0)
    for h in range(len(spot)):
        s, d = spot[h], unit[h]
        c = cost[h] if cost is not None else 0
        for t in range(len(s) - 1):
            tot += d[t] * (s[t + 1] - s[t]) - c * abs(d[t + 1] - d[t]) * s[t + 1]
        if first and len(s) > 0:
            tot -= c * abs(d[0]) * s[0]
    return tot


def terms_for_guard(spot, unit, cost):
    ts = []
    for h in range(len(spot)):
        s, d = spot[h], unit[h]
        c = cost[h] if cost is not None else 0
        for t in range(len(s) - 1):
            ts.append(d[t] * (s[t + 1] - s[t]))
            ts.append(c * abs(d[t + 1] - d[t]) * s[t + 1])
        if s:
            ts.append(c * abs(d[0]) * s[0])
    return ts


def gen_functional(g, tier):
    dtype = g.weighted([("float64", 3), ("float32", 1)])
    big = tier == "thorough" and g.chance(0.05)
    if dtype == "float64":
        sb, ub, cb = 4, 4, 8
        N, H = g.small(), g.small((1, 1, 2, 2, 3, 4, 6))
        T = 200 if big else g.small((1, 2, 2, 3, 3, 4, 5, 7, 12))
    else:
        sb, ub, cb = 2, 2, 4
        N, H, T = g.small((1, 2, 3)), g.small((1, 2, 3)), g.small((1, 2, 3, 4, 6))
    const_spot = g.chance(0.05)
    s0 = g.dy(1, 8, sb)
    neg_spot = g.chance(0.25)      # real-valued price series (rates, spreads): the cost is c * |dUnit| * S, not |c * dUnit * S|
    smax = 15 if dtype == "float64" else 7
    spot = [[[s0 if const_spot else (g.dy(-smax, smax, sb) if neg_spot else g.dy(F(1, 4), smax, sb))
              for _ in range(T)] for _ in range(H)] for _ in range(N)]
    sign = g.weighted([("mixed", 6), ("pos", 1), ("neg", 1), ("zero", 1)])
    ulim = 4 if dtype == "float64" else 2
    # positions held as whole numbers of shares: `unit` is an INTEGER tensor (prices, cost rates and payoff stay floating point);
    # the identity is the same one, and the result has the dtype of the prices
    udtype = g.weighted([("same", 5), ("int64", 1), ("int32", 0.5)])
    if udtype != "same":
        ub = 0

    def u():
        if sign == "zero":
            return F(0)
        x = g.dy(-ulim, ulim, ub)
        if sign == "pos":
            x = abs(x)
        if sign == "neg":
            x = -abs(x)
        return x
    unit = []
    for _ in range(N):
        rows = []
        for _ in range(H):
            row = []
            for t in range(T):
                row.append(row[-1] if (row and g.chance(0.25)) else u())   # ties: no trade
            rows.append(row)
        unit.append(rows)
    # "any proportional cost rates": the rates are real numbers.  rebate = no positive rate and at least one negative one (maker
    # rebates, alone or next to frictionless instruments); mixedsign = rebates next to ordinary costs; bcast1neg = one negative rate
    # for every instrument; tiny = rates far below a basis point (float64 only: they must stay exact)
    ckind = g.weighted([("none", 2), ("zero", 1), ("pos", 6), ("bcast1", 1), ("badlen", 0.5),
                        ("rebate", 1.5), ("mixedsign", 1), ("bcast1neg", 0.5), ("tiny", 0.7)])
    cmax = 16 if dtype == "float64" else 4
    if ckind == "tiny" and dtype != "float64":
        ckind = "rebate"
    if ckind == "mixedsign" and H == 1:
        ckind = "rebate"
    if ckind == "none":
        cost = None
    elif ckind == "zero":
        cost = [F(0)] * H
    elif ckind == "pos":
        cost = [F(g.randint(0, cmax), 1 << cb) for _ in range(H)]
    elif ckind == "bcast1":
        cost = [F(g.randint(1, cmax), 1 << cb)]
    elif ckind == "rebate":
        cost = [F(-g.randint(1, cmax), 1 << cb) if g.chance(0.6) else F(0) for _ in range(H)]
        if all(x == 0 for x in cost):
            cost[g.randint(0, H - 1)] = F(-g.randint(1, cmax), 1 << cb)
    elif ckind == "mixedsign":
        cost = [F(g.randint(-cmax, cmax), 1 << cb) for _ in range(H)]
        i = g.randint(0, H - 1)
        j = (i + g.randint(1, H - 1)) % H
        cost[i], cost[j] = F(g.randint(1, cmax), 1 << cb), F(-g.randint(1, cmax), 1 << cb)
    elif ckind == "bcast1neg":
        cost = [F(-g.randint(1, cmax), 1 << cb)]
    elif ckind == "tiny":
        tb = g.choice([16, 20, 24])
        sg = g.weighted([("pos", 3), ("neg", 1), ("any", 1)])
        cost = [F(g.randint(0, 16) * (1 if sg == "pos" else -1 if sg == "neg" else g.choice([1, -1])), 1 << tb) for _ in range(H)]
        if all(x == 0 for x in cost):
            cost[g.randint(0, H - 1)] = F(-1 if sg == "neg" else 1, 1 << tb)
    else:
        k = H + g.choice([1, 2])
        if H == 1:
            k = 0   # torch: (1,0,1) broadcast against H=1 gives an empty sum; model: error -> avoid
            ckind, cost = "none", None
        else:
            cost = [F(g.randint(1, cmax), 1 << cb) for _ in range(k)]
    pkind = g.weighted([("given", 6), ("none", 2), ("badlen", 0.5), ("baddim", 0.5)])
    payoff = None
    pdim = 1
    if pkind == "given":
        payoff = [g.dy(0, 8, sb) for _ in range(N)]
    elif pkind == "badlen":
        payoff = [g.dy(0, 8, sb) for _ in range(N + 1)]
    elif pkind == "baddim":
        payoff = [g.dy(0, 8, sb) for _ in range(N)]
        pdim = 2
    first = g.chance(0.6)
    final = g.chance(0.03)
    skind = g.weighted([("same", 12), ("diff", 1)])
    su = [N, H, T]
    if skind == "diff":
        which = g.choice([0, 1, 2])
        su = list(su)
        su[which] += 1
        unit = [[[F(1) if udtype != "same" else F(1, 2)] * su[2] for _ in range(su[1])] for _ in range(su[0])]
    tv = g.chance(0.2) and not final
    # the cost rates travel in a list (as documented) or in a tuple (the same sequence of rates)
    cseq = g.weighted([("list", 5), ("tuple", 1)]) if cost is not None else "list"
    return dict(kind="functional", dtype=dtype, udtype=udtype, ss=[N, H, T], su=su, spot=spot, unit=unit, cost=cost, cseq=cseq,
                payoff=payoff, pdim=pdim, first=first, final=final, tv=tv,
                tags=dict(cost=ckind, payoff=pkind, shape=skind, sign=sign, const_spot=const_spot, neg_spot=neg_spot,
                          udtype=udtype, cseq=cseq))


def to_req(c):
    return {"op": "pl", "ss": c["ss"], "su": c["su"], "spot": enc_rat(c["spot"]),
            "unit": enc_rat(c["unit"]),
            "cost": None if c["cost"] is None else enc_rat(c["cost"]),
            "payoff": None if c["payoff"] is None else {"dim": c["pdim"], "data": enc_rat(c["payoff"])},
            "first": c["first"], "final": c["final"], "tv": c.get("tv", False)}


def run_impl_functional(torch, c):
    from pfhedge.nn.functional import pl, terminal_value
    dt = getattr(torch, c["dtype"])
    spot = torch.tensor([[[float(x) for x in r] for r in p] for p in c["spot"]], dtype=dt).reshape(c["ss"])
    if c.get("udtype", "same") == "same":
        unit = torch.tensor([[[float(x) for x in r] for r in p] for p in c["unit"]], dtype=dt).reshape(c["su"])
    else:
        if any(x.denominator != 1 for p in c["unit"] for r in p for x in r):
            raise InternalError("integer-dtype positions must be integer-valued")
        unit = torch.tensor([[[int(x) for x in r] for r in p] for p in c["unit"]],
                            dtype=getattr(torch, c["udtype"])).reshape(c["su"])
    cost = None if c["cost"] is None else [float(x) for x in c["cost"]]
    if cost is not None and c.get("cseq") == "tuple":
        cost = tuple(cost)
    payoff = None
    if c["payoff"] is not None:
        payoff = torch.tensor([float(x) for x in c["payoff"]], dtype=dt)
        if c["pdim"] == 2:
            payoff = payoff.unsqueeze(-1)
    if c.get("tv"):
        st, v, mut = call_impl(terminal_value, spot, unit, cost=cost, payoff=payoff,
                               deduct_first_cost=c["first"])
    else:
        st, v, mut = call_impl(pl, spot, unit, cost=cost, payoff=payoff,
                               deduct_first_cost=c["first"], deduct_final_cost=c["final"])
    if st == "ok":
        if tuple(v.shape) != (c["ss"][0],) or v.dtype != dt:
            return ("badshape", [list(v.shape), str(v.dtype)]), mut
        return ("ok", tensor_to_fracs(v)), mut
    return ("err", v), mut


def model_result(m):
    if "ok" in m:
        return ("ok", dec_rat(m["ok"]))
    if "err" in m:
        return ("err", m["err"])
    return ("bad", m)


# ---- hedger level -----------------------------------------------------------------------------

# deterministic corpus (every tier, every seed) of the class "user-defined derivative with two or more underliers, default hedge":
# (multi, model, number of underliers); everything else of such a scenario is drawn as usual
MULTI_CORPUS = [("option", "linear", 2), ("spread", "linear", 2), ("option", "prev", 2), ("spread", "prev", 3),
                ("option", "naked", 3), ("spread", "relu", 2), ("option", "relu", 3), ("spread", "naked", 2)]


# how the caller hands the hedging instruments over (`hedge=`): the library only measures, indexes and iterates the collection (several
# times), so every sequence of instruments is the same hedge as the list of them: a tuple, an instance of a sub-class of list, a
# user-defined sequence (collections.UserList).  (A generator is NOT such a collection: it can be neither indexed nor iterated twice.)
SEQ_KINDS = ["tuple", "list_subclass", "userlist"]
# deterministic corpus (every tier, every seed) of the class "hedging instruments handed over in a sequence that is not a list":
# (sequence kind, model, number of hedging instruments); everything else of such a scenario is drawn as usual
SEQ_CORPUS = [("tuple", "linear", 2), ("tuple", "prev", 1), ("tuple", "relu", 3), ("tuple", "naked", 1), ("list_subclass", "linear", 2),
              ("userlist", "prev", 2), ("tuple", "prev", 2), ("userlist", "linear", 1)]


def as_sequence(kind, instruments):
    """the hedging instruments in the kind of collection the caller uses"""
    if kind == "tuple":
        return tuple(instruments)
    if kind == "list_subclass":
        class Book(list):
            """user-defined: a list of instruments"""
        return Book(instruments)
    if kind == "userlist":
        import collections
        return collections.UserList(instruments)
    return list(instruments)


def gen_hedger(g, tier, force=None, force_seq=None):
    N = g.small((1, 2, 3, 5))
    T = g.small((2, 2, 3, 4, 5, 6))
    nh = g.small((1, 1, 2, 2, 3, 4, 6)) if tier == "thorough" else g.small((1, 1, 2, 3))
    model = g.weighted([("linear", 4), ("naked", 1), ("relu", 2), ("prev", 3)])
    # a USER-DEFINED derivative with two or more underliers (BaseDerivative's registry: register_underlier / attribute assignment):
    #   "option": a sub-class of the built-in option on the first asset that registers further traded assets (proxy hedges) as underliers
    #   "spread": a sub-class of BaseDerivative paying max(S_a - S_b - K, 0) at maturity (no OptionMixin: price features of the first asset)
    # hedged with the DEFAULT hedge (hedge=None: "use derivative.underliers"): the hedging instruments are ALL its underliers, each with
    # its own prices and its own cost rate
    multi = None
    if force is not None:
        multi, model, nh = force
    elif force_seq is not None:
        _, model, nh = force_seq
    elif g.chance(0.2):
        multi, nh = g.choice(["option", "spread"]), g.choice([2, 2, 3])
    hedges = []
    for i in range(nh):
        kind = "primary" if (i == 0 or multi) else g.weighted([("primary", 2), ("listed", 2), ("self", 1)])
        spot = [[g.dy(F(1, 2), 4, 3) for _ in range(T)] for _ in range(N)]
        # cost rates of the traded instruments: frictionless, ordinary, rebates (negative) and tiny ones
        cost = F(g.choice([0, 0, 1, 2, 4, 8, 16, -1, -4, -16]), 256)
        if g.chance(0.08):
            cost = F(g.choice([1, 3, -1]), 1 << 16)
        hedges.append(dict(kind=kind, spot=spot, cost=cost, a=g.choice([1, 2, F(1, 2)]), b=g.choice([0, 1, F(-1, 2)])))
    und = [[g.dy(F(1, 2), 4, 3) for _ in range(T)] for _ in range(N)]
    hedges[0]["spot"] = und
    strike = g.choice([F(1, 2), 1, 2, 4])
    w = [[g.choice([F(-1), F(-1, 2), F(0), F(1, 2), F(1), F(1, 4)]) for _ in range(3)] for _ in range(nh)]
    b = [g.choice([F(0), F(1, 2), F(-1, 4)]) for _ in range(nh)]
    deriv = g.choice(["european", "lookback", "european_put"])
    clause = g.chance(0.2)
    # pass-through hedging rule: the hedger's ONLY input is a feature that exposes an instrument's price buffer itself
    # ('underlier_spot'; 'spot' of a derivative listed at its underlier's price) and the module returns its input object
    # (Identity / an empty Sequential): "hold as many shares as the price".  One feature -> one hedging instrument.
    view, passthru = None, None
    if not multi and force_seq is None and g.chance(0.12):
        model = "identity"
        view = g.choice(["underlier_spot", "underlier_spot", "spot"])
        passthru = g.choice(["Identity", "Sequential()"])
        hedges, w, b, nh = hedges[:1], w[:1], b[:1], 1
    # call sequence: the hedge is asked for before the P&L (as ever), or the P&L is the first thing asked of the fresh market
    order = g.weighted([("hedge_first", 3), ("pl_first", 1)])
    # a book whose only frictions are rebates: no instrument has a positive rate, at least one has a negative one
    if g.chance(0.15):
        for h in hedges:
            h["cost"] = -abs(h["cost"])
        if all(h["cost"] == 0 for h in hedges):
            hedges[g.randint(0, len(hedges) - 1)]["cost"] = F(-g.choice([1, 4, 16]), 256)
    # how the hedging instruments reach the hedger: the explicit list, or hedge=None (the derivative's underliers).  The default is
    # meaningful where the traded instruments ARE the derivative's underliers: a built-in option hedged with its stock alone, and
    # the user-defined derivatives above (a few of those keep the explicit list as a control)
    call, reg = "explicit", None
    if multi:
        call = g.weighted([("default", 5), ("explicit", 1)]) if force is None else "default"
        reg = g.choice(["register_underlier", "attribute"])
        if len({h["cost"] for h in hedges}) == 1 and g.chance(0.7):      # the underliers' own rates: make them differ
            hedges[g.randint(1, nh - 1)]["cost"] = F(g.choice([2, 8, -4, 32]), 256) + hedges[0]["cost"]
        if multi == "spread":
            deriv, strike = "spread", g.choice([F(0), F(1, 2), F(-1, 2), F(1)])
    elif nh == 1 and force_seq is None and g.chance(0.3):
        call = "default"
    # the kind of collection an explicit hedge is handed over in (see SEQ_KINDS)
    seq = "list"
    if call == "explicit":
        seq = force_seq[0] if force_seq is not None else g.weighted([("list", 6), ("tuple", 3), ("list_subclass", 1), ("userlist", 1)])
    csign = "none" if all(h["cost"] == 0 for h in hedges) else "pos" if all(h["cost"] >= 0 for h in hedges) else \
        "rebate" if all(h["cost"] <= 0 for h in hedges) else "mixedsign"
    return dict(kind="hedger", N=N, T=T, hedges=hedges, model=model, strike=strike, w=w, b=b,
                deriv=deriv, clause=clause, first=True, view=view, passthru=passthru, order=order, multi=multi, call=call, reg=reg, seq=seq,
                feat0="underlier_spot" if multi == "spread" else "moneyness",
                tags=dict(model=model, nh=nh, deriv=deriv, order=order, view=view, cost=csign, multi=multi, call=call, seq=seq))


def build_hedger_case(torch, c):
    import pfhedge
    from pfhedge.instruments import BrownianStock, EuropeanOption, LookbackOption
    from pfhedge.nn import Hedger, Naked
    dt = torch.float64
    N, T, nh = c["N"], c["T"], len(c["hedges"])

    def tens(rows):
        return torch.tensor([[float(x) for x in r] for r in rows], dtype=dt)
    stock = BrownianStock(cost=float(c["hedges"][0]["cost"]), dtype=dt)
    stock.register_buffer("spot", tens(c["hedges"][0]["spot"]))
    multi, others = c.get("multi"), []
    if multi:
        from pfhedge.instruments import BaseDerivative
        for h in c["hedges"][1:]:
            s = BrownianStock(cost=float(h["cost"]), dtype=dt)
            s.register_buffer("spot", tens(h["spot"]))
            others.append(s)

        def more_underliers(d):
            for i, s in enumerate(others):
                if c["reg"] == "attribute":
                    setattr(d, f"asset{i + 1}", s)
                else:
                    d.register_underlier(f"asset{i + 1}", s)

        class ProxyHedgedOption(LookbackOption if c["deriv"] == "lookback" else EuropeanOption):
            """user-defined: the built-in option on the first asset; the further assets its holder trades are underliers too"""

            def __init__(self, *a, **k):
                super().__init__(*a, **k)
                more_underliers(self)

        class SpreadOption(BaseDerivative):
            """user-defined: pays max(S_a - S_b - K, 0) at maturity (a third underlier is traded only)"""

            def __init__(self, first, strike, maturity):
                super().__init__()
                if c["reg"] == "attribute":
                    self.asset0 = first
                else:
                    self.register_underlier("asset0", first)
                more_underliers(self)
                self.strike, self.maturity = strike, maturity

            def payoff_fn(self):
                return (self.ul(0).spot[..., -1] - self.ul(1).spot[..., -1] - self.strike).clamp(min=0.0)
    if multi == "spread":
        deriv = SpreadOption(stock, float(c["strike"]), (T - 1) * stock.dt)
    elif c["deriv"] == "lookback":
        deriv = (ProxyHedgedOption if multi else LookbackOption)(stock, strike=float(c["strike"]), maturity=(T - 1) * stock.dt)
    else:
        deriv = (ProxyHedgedOption if multi else EuropeanOption)(stock, call=(c["deriv"] == "european"), strike=float(c["strike"]),
                                                                 maturity=(T - 1) * stock.dt)
    if multi and [id(x) for x in deriv.underliers()] != [id(stock)] + [id(x) for x in others]:
        raise InternalError("the user-defined derivative does not list its underliers in registration order")
    if c["clause"]:
        deriv.add_clause("cap", lambda d, p: p.clamp(max=1.0))
    hedge = [stock] + others
    for h in ([] if multi else c["hedges"][1:]):
        if h["kind"] == "primary":
            s = BrownianStock(cost=float(h["cost"]), dtype=dt)
            s.register_buffer("spot", tens(h["spot"]))
            hedge.append(s)
        elif h["kind"] == "listed":
            s = BrownianStock(dtype=dt)
            s.register_buffer("spot", tens(h["spot"]))
            o = EuropeanOption(s, maturity=(T - 1) * s.dt)
            a, b = float(h["a"]), float(h["b"])
            o.list(lambda d, a=a, b=b: d.ul().spot * a + b, cost=float(h["cost"]))
            hedge.append(o)
        else:   # the derivative's own underlier listed through an affine pricer
            o = EuropeanOption(stock, maturity=(T - 1) * stock.dt)
            a, b = float(h["a"]), float(h["b"])
            o.list(lambda d, a=a, b=b: d.ul().spot * a + b, cost=float(h["cost"]))
            hedge.append(o)
    f0 = c.get("feat0", "moneyness")
    inputs = [f0, "time_to_maturity"]
    nin = 3
    if c["model"] == "naked":
        model = Naked(nh)
        inputs = [f0]
    elif c["model"] == "identity":
        inputs = [c["view"]]
        if c["view"] == "spot":
            deriv.list(lambda d: d.ul().spot)   # quoted at its underlier's price: the feature 'spot' is then that buffer
        model = torch.nn.Identity() if c["passthru"] == "Identity" else torch.nn.Sequential()
    else:
        if c["model"] == "prev":
            inputs = [f0, "prev_hedge"]
            nin = 1 + nh
        else:
            from pfhedge.features.features import Ones
            inputs = [f0, "zeros", Ones()]
            nin = 3
        lin = torch.nn.Linear(nin, nh, dtype=dt)
        with torch.no_grad():
            W = [[float(c["w"][i][j % 3]) for j in range(nin)] for i in range(nh)]
            lin.weight.copy_(torch.tensor(W, dtype=dt))
            lin.bias.copy_(torch.tensor([float(x) for x in c["b"]], dtype=dt))
        model = torch.nn.Sequential(lin, torch.nn.ReLU()) if c["model"] == "relu" else lin
    hedger = Hedger(model, inputs)
    return hedger, deriv, hedge


def oracle_spots(c, shift):
    """hedge prices [N][H][T] from the harness's own data (never read back from instrument.spot, which an implementation could
    cache): primaries = the injected rows, listed = a * (their underlier's rows) + b; `shift` rolls the time axis (second round)"""
    roll = lambda rows: [list(r[shift:]) + list(r[:shift]) for r in rows]
    und = roll(c["hedges"][0]["spot"])
    per_h = []
    for i, h in enumerate(c["hedges"]):
        if i == 0 or h["kind"] == "primary":
            per_h.append(roll(h["spot"]))
        elif h["kind"] == "listed":
            per_h.append([[h["a"] * x + h["b"] for x in r] for r in roll(h["spot"])])
        else:
            per_h.append([[h["a"] * x + h["b"] for x in r] for r in und])
    N = c["N"]
    return [[per_h[k][n] for k in range(len(per_h))] for n in range(N)]


def hedger_pl_req(c, shift, first=True):
    """the whole hedger scenario for the Lean op "hedger_pl" (model `hedgerPL` / `hedgerPortfolio`: market -> features -> module ->
    hedge -> transpose -> pl, with listed prices = pricer on the underlier's current row, `h.cost` and payoff_fn + clauses), built
    from the harness's OWN data only: injected rows (rolled by `shift` in the second round), weights, strike, clause, cost rates.
    Nothing is read back from the implementation."""
    roll = lambda r: list(r[shift:]) + list(r[:shift])
    nh = len(c["hedges"])
    f0 = [c.get("feat0", "moneyness"), False]
    if c["model"] == "naked":
        feats, model = [f0], {"kind": "naked", "h": nh}
    elif c["model"] == "identity":
        feats, model = [[c["view"], False]], {"kind": "identity"}
    else:
        if c["model"] == "prev":
            feats, nin = [f0, ["prev_hedge"]], 1 + nh
        else:
            feats, nin = [f0, ["zeros"], ["ones"]], 3
        W = [[c["w"][i][j % 3] for j in range(nin)] for i in range(nh)]
        model = {"kind": "linear", "w": enc_rat(W), "b": enc_rat(c["b"]), "relu": c["model"] == "relu"}
    paths = []
    for n in range(c["N"]):
        und = roll(c["hedges"][0]["spot"][n])
        hedges = []
        for i, h in enumerate(c["hedges"]):
            if i == 0 or h["kind"] == "primary":
                hedges.append({"kind": "primary", "row": enc_rat(roll(h["spot"][n])), "cost": rat_str(h["cost"])})
            else:   # listed: the affine pricer on ITS underlier's current row ("self": the derivative's own underlier)
                row = roll(h["spot"][n]) if h["kind"] == "listed" else und
                hedges.append({"kind": "listed", "a": rat_str(F(h["a"])), "b": rat_str(F(h["b"])), "row": enc_rat(row),
                               "cost": rat_str(h["cost"])})
        market = {"spot": enc_rat(und), "variance": [], "volatility": [],
                  "listed": enc_rat(und) if c.get("view") == "spot" else [],     # derivative quoted at its underlier's price
                  "dt": rat_str(F(1 / 250)), "strike": rat_str(F(c["strike"])), "oracle": []}
        paths.append({"market": market, "hedges": hedges})
    # (the user-defined spread option has no payoff kind in the model: only its hedge / prices / portfolio value are compared, and the
    # payoff travels to the op "pl" as a number; the user-defined options on the first asset are the built-in kinds)
    payoff = {"kind": "lookback" if c["deriv"] == "lookback" else "european", "call": c["deriv"] != "european_put",
              "strike": rat_str(F(c["strike"]))}
    return {"op": "hedger_pl", "features": feats, "model": model, "payoff": payoff,
            "adds": [["cap", ["cap", "1"]]] if c["clause"] else [], "first": first, "paths": paths}


def hedger_pl_model(c, which, reply):
    """(result, exact) of the model for one scenario: result as `run_hedger_case` reports the implementation's, `exact` = float64
    commits no rounding anywhere (same guard as everywhere in this file, evaluated on the MODEL's prices / hedge / payoff)"""
    if not isinstance(reply, dict) or "paths" not in reply:
        return ("bad", reply), False
    key = "pl" if which == "pl" else "portfolio"
    vals, exact = [], True
    cost = [h["cost"] for h in c["hedges"]]
    for p in reply["paths"]:
        r = p[key]
        if "err" in r:
            return ("err", r["err"]), True
        if "ok" not in r:
            return ("bad", r), False
        vals.append(F(r["ok"]))
        sp, un = dec_rat(p["spot_unit"]["ok"])
        z = [F(p["payoff"]["ok"])] if which == "pl" else []
        exact = exact and exact_sum_ok(terms_for_guard(sp, un, cost) + z, 53) and \
            all(is_dyadic_fit(x, 40) for r_ in un for x in r_)
    return ("ok", vals), exact


class DefaultHedgeShape(Exception):
    """the hedge of the default call has not one row per underlier (already reported): nothing to put into the identity"""


def run_hedger_case(torch, ctx, c, which):
    """two rounds on the SAME hedger / instruments: the injected market, then the same market rolled by one time step and
    re-injected into the same objects (a second simulation followed by a second P&L call)"""
    try:
        hedger, deriv, hedge = build_hedger_case(torch, c)
    except Exception as e:  # noqa  (constructing the scenario is harness code)
        raise InternalError("cannot build hedger scenario: " + repr(e))
    watch = [("derivative", deriv)] + [(f"hedge{i}", h) for i, h in enumerate(hedge)]
    dt = torch.float64
    N, T, nh = c["N"], c["T"], len(hedge)
    out = []
    for rnd, shift in enumerate((0, 1)):
        if rnd == 1:
            roll = lambda rows: [list(r[shift:]) + list(r[:shift]) for r in rows]
            for i, h in enumerate(c["hedges"]):
                t_ = torch.tensor([[float(x) for x in r] for r in roll(h["spot"])], dtype=dt)
                if i == 0 or h["kind"] == "primary":
                    hedge[i].register_buffer("spot", t_)
                elif h["kind"] == "listed":
                    hedge[i].ul().register_buffer("spot", t_)
        # hedge=None ("use derivative.underliers"): nothing but the derivative is handed over
        # an explicit hedge travels in the kind of collection of the scenario (list / tuple / sub-class of list / user-defined sequence)
        seq = c.get("seq", "list")
        args = (deriv,) if c.get("call") == "default" else (deriv, as_sequence(seq, hedge))

        def the_hedge():
            if seq == "list" or c.get("call") == "default":
                return hedger.compute_hedge(*args)
            # the same instruments in another kind of sequence: the hedge must exist and be the hedge of the list of them
            stq, uq, _ = call_impl(hedger.compute_hedge, *args)
            ul = hedger.compute_hedge(deriv, list(hedge))
            if stq != "ok" or tuple(uq.shape) != tuple(ul.shape) or not torch.equal(uq, ul):
                ctx.fail(f"Hedger.compute_hedge(derivative, hedge) with the hedging instruments handed over as a {seq} is not the hedge of the list of the same "
                         "instruments (one row per instrument)", _small_h(c, which) | {"round": rnd}, key="hedger.compute_hedge:hedge-as-" + seq,
                         detail={"sequence": uq.tolist() if stq == "ok" else uq, "list": ul.tolist()})
            return ul
        with torch.no_grad():
            fn = hedger.compute_pl if which == "pl" else hedger.compute_portfolio
            if c.get("order", "hedge_first") == "hedge_first":
                unit = the_hedge()
                seen = torch.stack([h.spot for h in hedge], dim=1)
                payoff = deriv.payoff()
                st, v, mut = call_impl(fn, *args, watch=watch)
            else:
                payoff = deriv.payoff()
                st, v, mut = call_impl(fn, *args, watch=watch)
                unit = the_hedge()
                seen = torch.stack([h.spot for h in hedge], dim=1)
        if mut:
            ctx.mutated(f"Hedger.compute_{which}", mut, c)
        if c.get("call") == "default":
            # the hedge of the default call: one row per underlier of the derivative, and the hedge of the explicit list of them
            with torch.no_grad():
                ste, ue, _ = call_impl(hedger.compute_hedge, deriv, list(deriv.underliers()))
            if tuple(unit.shape) != (N, nh, T) or ste != "ok" or not torch.equal(unit, ue):
                ctx.fail("Hedger.compute_hedge(derivative) with the default hedge (hedge=None: the derivative's underliers) is not the hedge over ALL "
                         "underliers of the derivative: one row per underlier, equal to compute_hedge(derivative, list(derivative.underliers()))",
                         _small_h(c, which) | {"round": rnd}, key="hedger.compute_hedge:default-hedge" + (":multi-underlier" if nh > 1 else ""),
                         detail={"shape": list(unit.shape), "expected_shape": [N, nh, T], "explicit": ue.tolist() if ste == "ok" else ue,
                                 "default": unit.tolist()})
                if tuple(unit.shape) != (N, nh, T):
                    raise DefaultHedgeShape(tuple(unit.shape))
        if c.get("multi") == "spread":
            # the payoff of the user-defined spread option from the generated rows (clauses are the inherited machinery)
            zs = [max(p[0][-1] - p[1][-1] - F(c["strike"]), F(0)) for p in oracle_spots(c, shift)]
            zs = [min(z, F(1)) for z in zs] if c["clause"] else zs
            if tensor_to_fracs(payoff) != zs:
                ctx.fail("derivative.payoff() of a user-defined derivative with several underliers is not its payoff_fn on the current prices with the registered clauses applied",
                         _small_h(c, which) | {"round": rnd}, key="hedger.payoff:user-derivative", detail={"payoff": enc_rat(tensor_to_fracs(payoff)), "expected": enc_rat(zs)})
        cost = [F(float(torch.tensor(h.cost))) for h in hedge]
        sp, un = oracle_spots(c, shift), tensor_to_fracs(unit)
        if tensor_to_fracs(seen) != sp:
            ctx.fail("the price reported by a hedging instrument (listed derivative: its pricer on the underlier's CURRENT buffers) is not the current one",
                     _small_h(c, which) | {"round": rnd}, key="hedger.hedge-spot:stale", detail={"reported": enc_rat(tensor_to_fracs(seen)), "current": enc_rat(sp)})
        pf = (zs if c.get("multi") == "spread" else tensor_to_fracs(payoff)) if which == "pl" else None
        out.append((rnd, st, (tensor_to_fracs(v) if st == "ok" else v), sp, un, cost, pf))
    return out


def nondyadic_cost_rates(ctx, torch, g):
    """float64 prices and positions (dyadic, so every product but the one with the rate is exact) with cost rates that are NOT
    float32 numbers (0.01, 0.003, 1/3 ...): the P&L must be the wealth identity at the rate the caller passed, evaluated in exact
    Fractions of the float64 data - tolerance 1e-13 of the sum of the absolute terms (float64 summation), far below the 2e-8
    relative error a float32 detour of the rate leaves on the cost term.  (That detour was a defect of pl, repaired by
    "fix: pl builds the cost rates in the dtype of the prices".)"""
    from pfhedge.nn.functional import pl, terminal_value
    from pfhedge.instruments import BrownianStock, EuropeanOption
    from pfhedge.nn import Hedger
    RATES = [0.01, 0.003, 1e-3, 0.1, 1 / 3, 0.0007, 0.05]
    corpus = [(1, 1, 3, [0.01]), (2, 2, 4, [0.003, 0.1]), (3, 1, 5, [1 / 3])]
    n_random = 40 if ctx.tier == "quick" else 400
    for i in range(len(corpus) + n_random):
        if i < len(corpus):
            N, H, T, rates = corpus[i]
        else:
            N, H, T = g.small((1, 2, 3)), g.small((1, 2, 3)), g.small((2, 3, 5, 8))
            rates = [g.choice(RATES)] if g.chance(0.3) else [g.choice(RATES) for _ in range(H)]
        spot = [[[g.dy(F(1, 2), 4, 4) for _ in range(T)] for _ in range(H)] for _ in range(N)]
        unit = [[[g.dy(F(-2), 2, 4) for _ in range(T)] for _ in range(H)] for _ in range(N)]
        payoff = [g.dy(F(0), 2, 4) for _ in range(N)] if g.chance(0.6) else None
        first = g.chance(0.7)
        fn_name = g.choice(["pl", "pl", "terminal_value"])
        t64 = lambda x: torch.tensor([[[float(v) for v in r] for r in p_] for p_ in x], dtype=torch.float64)
        kw = dict(cost=list(rates), deduct_first_cost=first)
        if payoff is not None:
            kw["payoff"] = torch.tensor([float(v) for v in payoff], dtype=torch.float64)
        case = {"fn": fn_name, "shape": [N, H, T], "cost": list(rates), "first": first, "payoff": payoff is not None,
                "spot": enc_rat(spot), "unit": enc_rat(unit)}
        ctx.case(case, True, tag="nondyadic_cost")
        st, v, _ = call_impl(pl if fn_name == "pl" else terminal_value, t64(spot), t64(unit), **kw)
        if st != "ok":
            ctx.fail("pl raised on well-shaped float64 data with a decimal cost rate", case, key="functional.pl:error:non-dyadic-cost-rate", detail=v)
            continue
        full = [F(r) for r in (rates if len(rates) == H else rates * H)]
        for n in range(N):
            exp = wealth(spot[n], unit[n], full, payoff[n] if payoff is not None else None, first)
            scale = sum(abs(t_) for t_ in terms_for_guard(spot[n], unit[n], full)) + (abs(payoff[n]) if payoff is not None else 0) + 1
            if abs(F(float(v[n])) - exp) > F(1, 10 ** 13) * scale:
                ctx.fail("pl with a decimal cost rate on float64 data differs from the wealth identity at that rate (the rate is applied in another precision)",
                         case | {"path": n}, key="functional.pl:value:non-dyadic-cost-rate",
                         detail={"impl": float(v[n]), "expected": float(exp), "rel_of_terms": float(abs(F(float(v[n])) - exp) / scale)})
                break
    # the hedger level: BrownianStock(cost=rate) in float64
    for i in range(6 if ctx.tier == "quick" else 40):
        rate = RATES[i % len(RATES)]
        N, T = g.small((1, 2, 3)), g.small((3, 4, 6))
        rows = [[g.dy(F(1, 2), 4, 4) for _ in range(T)] for _ in range(N)]
        stock = BrownianStock(cost=rate, dtype=torch.float64)
        stock.register_buffer("spot", torch.tensor([[float(x) for x in r] for r in rows], dtype=torch.float64))
        deriv = EuropeanOption(stock, strike=1.0, maturity=(T - 1) * stock.dt)
        lin = torch.nn.Linear(1, 1, dtype=torch.float64)
        with torch.no_grad():
            lin.weight.fill_(0.5)
            lin.bias.fill_(0.25)
        hedger = Hedger(lin, ["moneyness"])
        case = {"hedger": "Linear(moneyness)", "cost": rate, "spot": enc_rat(rows)}
        ctx.case(case, True, tag="nondyadic_cost")
        with torch.no_grad():
            unit = hedger.compute_hedge(deriv)
            st, v, _ = call_impl(hedger.compute_pl, deriv)
            payoff_t = deriv.payoff()
        if st != "ok":
            ctx.fail("Hedger.compute_pl raised", case, key="hedger.compute_pl:error:non-dyadic-cost-rate", detail=v)
            continue
        un = tensor_to_fracs(unit)
        for n in range(N):
            exp = wealth([rows[n]], un[n], [F(rate)], F(float(payoff_t[n])), True)
            scale = sum(abs(t_) for t_ in terms_for_guard([rows[n]], un[n], [F(rate)])) + 1
            if abs(F(float(v[n])) - exp) > F(1, 10 ** 13) * scale:
                ctx.fail("Hedger.compute_pl on a float64 market with a decimal cost rate differs from the wealth identity at the instrument's rate",
                         case | {"path": n}, key="hedger.compute_pl:value:non-dyadic-cost-rate", detail={"impl": float(v[n]), "expected": float(exp)})
                break


def hedge_sequence_entry_points(ctx, torch, g):
    """Every entry point of the Hedger that takes `hedge=` (compute_hedge, compute_portfolio, compute_pl, compute_pnl, compute_loss, price,
    fit), on a SIMULATED market (the docstring set-up: the derivative's stock and options on it listed through a closed formula), with the
    hedging instruments handed over as a tuple / an instance of a sub-class of list / a user-defined sequence.  Predicates: the call
    succeeds; compute_pl / compute_portfolio / compute_pnl are the wealth identity (exact Fractions of the float64 prices, the hedge of
    the LIST of the instruments, their cost rates, the payoff; 1e-13 of the sum of the absolute terms for the float64 summation); every
    entry point returns bit for bit what it returns for the list of the same instruments from the same torch seed and the same
    parameters (the library only measures, indexes and iterates the collection, so the computation is the same one)."""
    import copy
    from pfhedge.instruments import BrownianStock, EuropeanOption, LookbackOption
    from pfhedge.nn import Hedger
    ENTRY = ["compute_hedge", "compute_portfolio", "compute_pl", "compute_pnl", "compute_loss", "price", "fit"]
    corpus = [("tuple", 2, "linear"), ("tuple", 1, "prev"), ("list_subclass", 2, "prev"), ("userlist", 3, "linear"), ("tuple", 3, "prev"),
              ("userlist", 1, "linear")]
    n_random = 4 if ctx.tier == "quick" else 40
    for it in range(len(corpus) + n_random):
        seq, nh, mkind = corpus[it] if it < len(corpus) else (g.choice(SEQ_KINDS + ["tuple"]), g.choice([1, 2, 3]), g.choice(["linear", "prev"]))
        N, steps = g.choice([2, 3, 5]), g.choice([2, 3, 5])
        costs = [F(g.choice([0, 1, 2, 8, -4]), 256) for _ in range(nh)]
        quotes = [(g.choice([F(1, 2), F(1), F(2)]), g.choice([F(0), F(1, 4), F(-1, 4)]), g.choice([F(0), F(1, 2)])) for _ in range(nh - 1)]
        dkind = g.choice(["european", "lookback"])
        nin = 2 + (nh if mkind == "prev" else 0)
        w = [[g.choice([F(-1), F(-1, 2), F(1, 2), F(1), F(1, 4)]) for _ in range(nin)] for _ in range(nh)]
        b = [g.choice([F(0), F(1, 2), F(-1, 4)]) for _ in range(nh)]
        seed = g.randint(0, 10 ** 6)
        stock = BrownianStock(cost=float(costs[0]), dtype=torch.float64)
        deriv = (EuropeanOption if dkind == "european" else LookbackOption)(stock, maturity=steps * stock.dt)
        instruments = [stock]
        for (a, b0, q), cst in zip(quotes, costs[1:]):
            o = EuropeanOption(stock, strike=1.0, maturity=steps * stock.dt)
            # listed through a closed formula of the stock's current price
            o.list(lambda d, a=float(a), b0=float(b0), q=float(q): d.ul().spot * a + b0 + q * (d.ul().spot - 1.0) ** 2, cost=float(cst))
            instruments.append(o)
        lin = torch.nn.Linear(nin, nh, dtype=torch.float64)
        with torch.no_grad():
            lin.weight.copy_(torch.tensor([[float(x) for x in r] for r in w], dtype=torch.float64))
            lin.bias.copy_(torch.tensor([float(x) for x in b], dtype=torch.float64))
        hedger = Hedger(lin, ["moneyness", "time_to_maturity"] + (["prev_hedge"] if mkind == "prev" else []))
        state0 = copy.deepcopy(hedger.state_dict())
        case = {"hedge_argument": seq + " of the instruments", "instruments": ["the derivative's stock"] + [f"option on it listed at {rat_str(a)} S + {rat_str(b0)} + {rat_str(q)} (S - 1)^2" for a, b0, q in quotes],
                "cost": enc_rat(costs), "derivative": dkind, "n_paths": N, "steps": steps, "inputs": str(hedger.inputs), "w": enc_rat(w), "b": enc_rat(b), "torch_seed": seed}
        ctx.case(case, True, tag="hedge_sequence_entry_points")
        ctx.stats[f"h:entry-points seq={seq}"] += 1

        def run(entry, hedge):
            """one entry point from the same torch seed and the same parameters"""
            hedger.load_state_dict(state0)
            torch.manual_seed(seed)
            if entry in ("compute_hedge", "compute_portfolio", "compute_pl"):
                deriv.simulate(n_paths=N)
                with torch.no_grad():
                    return call_impl(getattr(hedger, entry), deriv, hedge)[:2]
            if entry == "compute_pnl":
                with torch.no_grad():
                    return call_impl(hedger.compute_pnl, deriv, hedge, n_paths=N)[:2]
            if entry == "fit":
                st, v, _ = call_impl(hedger.fit, deriv, hedge, n_epochs=2, n_paths=N, n_times=1, verbose=False)
                if st == "ok":
                    v = torch.tensor(list(v) + [x for p_ in hedger.parameters() for x in p_.detach().reshape(-1).tolist()], dtype=torch.float64)
                return st, v
            return call_impl(getattr(hedger, entry), deriv, hedge, n_paths=N, n_times=2, enable_grad=False)[:2]
        for entry in ENTRY:
            st_l, v_l = run(entry, list(instruments))
            if st_l != "ok":
                ctx.fail(f"Hedger.{entry} raised on a simulated market hedged with the derivative's stock and listed options on it", case | {"entry": entry, "hedge_argument": "list"},
                         key=f"hedger.{entry}:error:simulated-market", detail=v_l)
                continue
            st_s, v_s = run(entry, as_sequence(seq, instruments))
            if st_s != "ok":
                ctx.fail(f"Hedger.{entry} raises when the hedging instruments are handed over as a {seq} (it works for the list of the same instruments)", case | {"entry": entry},
                         key=f"hedger.{entry}:error:hedge-as-{seq}", detail=v_s)
                continue
            if entry in ("compute_portfolio", "compute_pl", "compute_pnl"):
                # the market left by the call (same seed: the market of the list run as well); the hedge of the LIST of the instruments
                with torch.no_grad():
                    hedger.load_state_dict(state0)
                    un = tensor_to_fracs(hedger.compute_hedge(deriv, list(instruments)))
                    sp = tensor_to_fracs(torch.stack([h.spot for h in instruments], dim=1))
                    pf = None if entry == "compute_portfolio" else tensor_to_fracs(deriv.payoff())
                got = tensor_to_fracs(v_s) if tuple(v_s.shape) == (N,) else None
                for n in range(N if got is not None else 0):
                    exp = wealth(sp[n], un[n], costs, pf[n] if pf is not None else None, True)
                    scale = sum(abs(t_) for t_ in terms_for_guard(sp[n], un[n], costs)) + (abs(pf[n]) if pf is not None else 0) + 1
                    if not isinstance(got[n], F) or abs(got[n] - exp) > F(1, 10 ** 13) * scale:
                        got = None
                        break
                if got is None:
                    ctx.fail(f"Hedger.{entry} with the hedging instruments handed over as a {seq} differs from the wealth identity on those instruments' current prices, "
                             "the hedge computed for them, their cost rates and the payoff", case | {"entry": entry}, key=f"hedger.{entry}:value:hedge-as-{seq}",
                             detail={"impl": v_s.tolist(), "prices": enc_rat(sp), "hedge": enc_rat(un)})
                    continue
            if tuple(v_s.shape) != tuple(v_l.shape) or not (torch.equal(v_s, v_l) or bool(((v_s == v_l) | (v_s.isnan() & v_l.isnan())).all())):
                ctx.fail(f"Hedger.{entry} returns something else for a {seq} of hedging instruments than for the list of the same instruments (same torch seed, same parameters"
                         + (": the validation history and the fitted parameters" if entry == "fit" else "") + ")", case | {"entry": entry},
                         key=f"hedger.{entry}:hedge-as-{seq}:differs-from-list", detail={"sequence": v_s.tolist(), "list": v_l.tolist()})


def container_state(cont):
    """what the caller can observe of a container of Python objects: its type, its length, and each element (numbers: type and value;
    anything else, e.g. an instrument: the object itself)"""
    return (type(cont).__name__, [(type(x).__name__, x) if isinstance(x, (int, float)) else ("object", id(x)) for x in cont])


# deterministic corpus (every tier, every seed) of the class "ONE cost container kept by the caller and passed to several pl /
# terminal_value calls": (container kind, dtype, functions used in turn, shapes (N, H, T) of the successive hedging problems).
# "single-*": one rate for every instrument (the number of instruments changes from call to call); "full-*": one rate per instrument
REUSE_CORPUS = [
    ("single-list", "float64", ("pl",), [(3, 2, 4), (4, 1, 5), (2, 3, 2), (1, 1, 2)]),
    ("single-list", "float64", ("terminal_value",), [(2, 3, 3), (2, 1, 4), (3, 2, 2)]),
    ("single-list", "float32", ("pl", "terminal_value"), [(2, 2, 3), (3, 1, 3), (1, 3, 2)]),
    ("single-list", "float64", ("terminal_value", "pl"), [(2, 1, 3), (2, 4, 3), (3, 2, 2), (1, 1, 4)]),
    ("single-int-list", "float64", ("pl", "terminal_value"), [(2, 2, 3), (2, 1, 2), (1, 3, 3)]),
    ("single-tuple", "float64", ("pl", "terminal_value"), [(2, 2, 3), (2, 1, 3), (1, 3, 2)]),
    ("full-list", "float64", ("pl", "terminal_value"), [(3, 2, 4), (1, 2, 2), (4, 2, 6)]),
    ("full-list", "float64", ("terminal_value", "pl"), [(2, 1, 3), (5, 1, 2), (1, 1, 7)]),
    ("full-list", "float32", ("pl",), [(2, 3, 2), (1, 3, 4), (3, 3, 3)]),
    ("full-tuple", "float64", ("pl", "terminal_value"), [(2, 3, 3), (1, 3, 5)]),
]


def reused_cost_containers(ctx, torch, g):
    """The caller keeps ONE container of cost rates (a list or a tuple; one rate for every instrument, or one rate per instrument; rates
    written as floats or as Python ints) and hands the SAME object to several pl / terminal_value calls: hedging problems with other
    numbers of paths and time steps and - for the single rate - other numbers of hedging instruments.  Predicates, per call: the call
    succeeds; its value is the wealth identity at the rates the caller wrote into the container (exact Fractions: dyadic grids of
    gen_functional, under the same exactness guard); afterwards the container still is what the caller wrote (type, length, elements).
    Every call is also sent to the Lean op "pl"."""
    from pfhedge.nn.functional import pl, terminal_value
    n_random = 40 if ctx.tier == "quick" else 600
    reqs, metas = [], []
    for it in range(len(REUSE_CORPUS) + n_random):
        if it < len(REUSE_CORPUS):
            kind, dtype, fns, shapes = REUSE_CORPUS[it]
        else:
            kind = g.weighted([("single-list", 4), ("single-tuple", 1), ("single-int-list", 1), ("full-list", 3), ("full-tuple", 1), ("full-int-list", 0.5)])
            dtype = g.weighted([("float64", 3), ("float32", 1)])
            fns = tuple(g.choice(["pl", "terminal_value"]) for _ in range(g.randint(1, 3)))
            dims = (1, 2, 3) if dtype == "float32" else (1, 2, 3, 4, 5)
            H0 = g.choice(dims[:4])
            shapes = [(g.choice(dims), g.choice(dims[:4]) if kind.startswith("single") else H0, g.choice(dims[1:] + (6,))) for _ in range(g.randint(2, 4))]
        sb, ub, cb, smax, ulim, cmax = (4, 4, 8, 15, 4, 16) if dtype == "float64" else (2, 2, 4, 7, 2, 4)
        dt = getattr(torch, dtype)
        n_rates = 1 if kind.startswith("single") else shapes[0][1]
        if "int" in kind:
            rates = [g.choice([0, 1, 1, 2]) for _ in range(n_rates)]          # Python ints
            if kind.startswith("single"):
                rates = [g.choice([1, 2])]
        else:
            rates = [float(F(g.randint(-cmax // 2, cmax), 1 << cb)) for _ in range(n_rates)]
            if kind.startswith("single") and rates[0] == 0:
                rates = [float(F(1, 1 << cb))]
        cont = tuple(rates) if kind.endswith("tuple") else list(rates)          # the caller's container: the SAME object in every call
        written = container_state(cont)
        changed_reported = False
        ctx.stats[f"reuse:cost={kind}"] += 1
        for k, (N, H, T) in enumerate(shapes):
            fn_name = fns[k % len(fns)]
            neg_spot = g.chance(0.2)
            spot = [[[g.dy(-smax, smax, sb) if neg_spot else g.dy(F(1, 4), smax, sb) for _ in range(T)] for _ in range(H)] for _ in range(N)]
            unit = []
            for _ in range(N):
                rows = []
                for _ in range(H):
                    row = []
                    for t in range(T):
                        row.append(row[-1] if (row and g.chance(0.2)) else g.dy(-ulim, ulim, ub))
                    rows.append(row)
                unit.append(rows)
            payoff = [g.dy(0, 8, sb) for _ in range(N)] if g.chance(0.7) else None
            first = g.chance(0.6)
            full = [F(r) for r in rates] * (H if n_rates == 1 else 1)          # the rates the caller wrote, one per instrument
            req = {"op": "pl", "ss": [N, H, T], "su": [N, H, T], "spot": enc_rat(spot), "unit": enc_rat(unit), "cost": enc_rat([F(r) for r in rates]),
                   "payoff": None if payoff is None else {"dim": 1, "data": enc_rat(payoff)}, "first": first, "final": False, "tv": fn_name == "terminal_value"}
            case = {"fn": fn_name, "dtype": dtype, "cost_argument": f"the caller's {type(cont).__name__} {rates!r}, the same object as in the {k} earlier call(s) of this sequence",
                    "earlier_calls": [[fns[j % len(fns)], list(shapes[j])] for j in range(k)],
                    "ss": [N, H, T], "spot": req["spot"], "unit": req["unit"], "cost": req["cost"], "payoff": req["payoff"], "first": first}
            ok = all(exact_sum_ok(terms_for_guard(s, u, full) + ([z] if z is not None else []), MANT[dtype])
                     for s, u, z in zip(spot, unit, payoff or [None] * N))
            ctx.case(case, ok and any(r != 0 for r in rates), tag="reused_cost_container")
            ctx.traces += 1
            kw = dict(cost=cont, deduct_first_cost=first)
            if payoff is not None:
                kw["payoff"] = torch.tensor([float(x) for x in payoff], dtype=dt)
            t3 = lambda x: torch.tensor([[[float(v_) for v_ in r] for r in p_] for p_ in x], dtype=dt)
            st, v, mut = call_impl(pl if fn_name == "pl" else terminal_value, t3(spot), t3(unit), **kw)
            if mut:
                ctx.mutated("functional." + fn_name, mut, case)
            now = container_state(cont)
            if now != written and not changed_reported:
                changed_reported = True
                ctx.fail(f"functional.{fn_name} changes the caller's container of cost rates (the argument `cost`): after the call it no longer holds the rates the "
                         "caller wrote (type, length, elements), so the next hedging problem the caller evaluates with it is charged other rates",
                         case, key=f"functional.{fn_name}:cost-container-changed",
                         detail={"written": repr(written), "after_the_call": repr(now)})
            if st != "ok":
                ctx.fail(f"functional.{fn_name} raises on a well-shaped input when the cost rates come in a container the caller has passed to earlier calls", case,
                         key=f"functional.{fn_name}:error:reused-cost-container", detail={"error": v, "container_now": repr(now), "written": repr(written)})
                continue
            if tuple(v.shape) != (N,) or v.dtype != dt:
                ctx.fail(f"functional.{fn_name} with a cost container used before: the result has not one value per path in the dtype of the prices", case,
                         key=f"functional.{fn_name}:shape:reused-cost-container", detail={"shape": list(v.shape), "dtype": str(v.dtype)})
                continue
            if not ok:
                ctx.stats["skipped_inexact"] += 1
                continue
            got = tensor_to_fracs(v)
            exp = [wealth(s, u, full, z, first) for s, u, z in zip(spot, unit, payoff or [None] * N)]
            if got != exp:
                ctx.fail(f"functional.{fn_name} differs from the self-financing wealth identity at the rates the caller wrote into the cost container, when the same "
                         "container object has been passed to earlier calls (other numbers of paths / instruments / time steps)", case,
                         key=f"functional.{fn_name}:value:reused-cost-container",
                         detail={"impl": enc_rat(got), "wealth": enc_rat(exp), "container_now": repr(now), "written": repr(written)})
            reqs.append(req)
            metas.append((case, got))
    try:
        outs = [model_result(m) for m in ctx.driver(reqs)]
    except DriverBroken as e:
        ctx.ties_broken.append({"kind": "driver", "detail": str(e)[:1500]})
        outs = []
    for (case, got), rm in zip(metas, outs):
        if ("ok", got) != rm:
            ctx.disagree("pl", case, ("ok", enc_rat(got)), (rm[0], enc_rat(rm[1]) if rm[0] == "ok" else rm[1]), note="cost container reused across calls")


# deterministic corpus (every tier, every seed) of the class "ONE cost list kept by the caller, passed to several pl / terminal_value calls
# and UPDATED IN PLACE by the caller between the calls": (dtype, functions used in turn, number of rates at the start (0: a single rate for
# every instrument, the number of instruments is free), the caller's update before each further call).  Updates:
#   same (none) / set (cost[i] = r) / augmented (cost[i] += d) / int (cost[i] = a Python int) / swap (cost[i], cost[j] = cost[j], cost[i]) /
#   reverse (cost.reverse()) / slice (cost[:] = as many new rates) / extend (append / insert / += : one more instrument) /
#   shorten (pop / del: one instrument fewer) / resize (cost[:] = ... or clear() + extend(...): another number of instruments)
MUTATE_CORPUS = [
    ("float64", ("pl",), 2, ["set", "set", "same", "set"]),
    ("float64", ("terminal_value",), 2, ["set", "swap", "augmented"]),
    ("float64", ("pl", "terminal_value"), 3, ["swap", "reverse", "set"]),
    ("float32", ("pl", "terminal_value"), 2, ["set", "swap", "slice"]),
    ("float64", ("pl", "terminal_value"), 1, ["extend", "extend", "shorten", "set"]),
    ("float64", ("terminal_value", "pl"), 3, ["shorten", "slice", "resize", "set"]),
    ("float64", ("pl",), 0, ["set", "slice", "augmented"]),
    ("float32", ("terminal_value", "pl"), 0, ["set", "set", "int"]),
    ("float64", ("pl", "terminal_value"), 2, ["int", "set", "resize", "swap"]),
    ("float32", ("pl",), 1, ["set", "extend", "swap", "shorten"]),
    ("float64", ("terminal_value",), 1, ["set", "same", "slice"]),
    ("float32", ("terminal_value",), 3, ["slice", "reverse", "augmented"]),
]


def updated_cost_containers(ctx, torch, g):
    """The caller keeps ONE list of cost rates, hands the SAME object to several pl / terminal_value calls and UPDATES it in place between
    the calls (a sweep over rates: `cost[0] = rate; pl(..., cost=cost)`; an element re-assigned or incremented, two elements swapped, the
    list reversed, `cost[:] = ...`, the list extended / shortened together with the number of hedging instruments of the next problem).
    Predicates, per call: the call succeeds; its value is the wealth identity at the rates the list holds AT THAT CALL (the harness's own
    record of what the caller wrote; exact Fractions on the dyadic grids of gen_functional, under the same exactness guard); afterwards
    the list still is what the caller wrote.  Every call is also sent to the Lean op "pl" with the rates of that call."""
    from pfhedge.nn.functional import pl, terminal_value
    n_random = 30 if ctx.tier == "quick" else 500
    OPS_FULL = ["set", "set", "augmented", "int", "swap", "reverse", "slice", "extend", "shorten", "resize", "same"]
    OPS_SINGLE = ["set", "set", "augmented", "int", "slice", "same"]
    reqs, metas = [], []
    for it in range(len(MUTATE_CORPUS) + n_random):
        if it < len(MUTATE_CORPUS):
            dtype, fns, n0, ops = MUTATE_CORPUS[it]
        else:
            dtype = g.weighted([("float64", 3), ("float32", 1)])
            fns = tuple(g.choice(["pl", "terminal_value"]) for _ in range(g.randint(1, 3)))
            n0 = g.choice([0, 1, 2, 2, 3, 4])
            ops = [g.choice(OPS_FULL if n0 else OPS_SINGLE) for _ in range(g.randint(1, 4))]
        sb, ub, cb, smax, ulim, cmax = (4, 4, 8, 15, 4, 16) if dtype == "float64" else (2, 2, 4, 7, 2, 4)
        dt = getattr(torch, dtype)
        dims = (1, 2, 3) if dtype == "float32" else (1, 2, 3, 4, 5)
        hmax = 3 if dtype == "float32" else 5

        def rate(avoid=()):
            """a rate of the grid (ordinary costs, some rebates) other than those in `avoid`"""
            while True:
                r = float(F(g.randint(-cmax // 2, cmax), 1 << cb))
                if r not in avoid:
                    return r
        rates = [rate((0.0,)) for _ in range(max(n0, 1))]       # the harness's own record of what the caller wrote
        cont = list(rates)                                       # the caller's list: the SAME object in every call
        history, changed_reported = [], False
        ctx.stats[f"update:cost={'single' if n0 == 0 else 'full'}"] += 1
        for k in range(len(ops) + 1):
            if k > 0:
                op = ops[k - 1]
                n = len(rates)
                if op in ("swap", "reverse") and (n < 2 or rates == rates[::-1] or len(set(rates)) < 2):
                    op = "set"
                if op == "shorten" and n < 2:
                    op = "extend"
                if op == "extend" and n >= hmax:
                    op = "shorten"
                ctx.stats[f"update:op={op}"] += 1
                if op == "set":
                    i = g.randint(0, n - 1)
                    r = rate((rates[i],))
                    rates[i] = r
                    cont[i] = r
                    history.append(f"cost[{i}] = {r!r}")
                elif op == "augmented":
                    i = g.randint(0, n - 1)
                    r = rate((rates[i],))
                    d = r - rates[i]                               # (dyadic: exact)
                    rates[i] = r
                    cont[i] += d
                    history.append(f"cost[{i}] += {d!r}")
                elif op == "int":
                    i = g.randint(0, n - 1)
                    r = g.choice([x for x in (0, 1, 2) if x != rates[i]])
                    rates[i] = r
                    cont[i] = r
                    history.append(f"cost[{i}] = {r!r}  (a Python int)")
                elif op == "swap":
                    i = g.randint(0, n - 1)
                    j = g.choice([j_ for j_ in range(n) if rates[j_] != rates[i]])
                    rates[i], rates[j] = rates[j], rates[i]
                    cont[i], cont[j] = cont[j], cont[i]
                    history.append(f"cost[{i}], cost[{j}] = cost[{j}], cost[{i}]")
                elif op == "reverse":
                    rates = rates[::-1]
                    cont.reverse()
                    history.append("cost.reverse()")
                elif op == "slice":
                    new = [rate((r_,)) for r_ in rates]
                    rates = list(new)
                    cont[:] = new
                    history.append(f"cost[:] = {new!r}")
                elif op == "extend":
                    r, how = rate(), g.choice(["append", "insert", "iadd"])
                    if how == "append":
                        rates = rates + [r]
                        cont.append(r)
                        history.append(f"cost.append({r!r})")
                    elif how == "insert":
                        rates = [r] + rates
                        cont.insert(0, r)
                        history.append(f"cost.insert(0, {r!r})")
                    else:
                        rates = rates + [r]
                        cont += [r]
                        history.append(f"cost += [{r!r}]")
                elif op == "shorten":
                    if g.chance(0.5):
                        rates = rates[:-1]
                        cont.pop()
                        history.append("cost.pop()")
                    else:
                        rates = rates[1:]
                        del cont[0]
                        history.append("del cost[0]")
                elif op == "resize":
                    new = [rate() for _ in range(g.choice([m_ for m_ in range(1, hmax + 1) if m_ != n]))]
                    rates = list(new)
                    if g.chance(0.5):
                        cont[:] = new
                        history.append(f"cost[:] = {new!r}")
                    else:
                        cont.clear()
                        cont.extend(new)
                        history.append(f"cost.clear(); cost.extend({new!r})")
                else:
                    history.append("(no update)")
                if container_state(cont) != container_state(list(rates)):
                    cont[:] = list(rates)    # only after the library changed the list in an earlier call (reported there)
            fn_name = fns[k % len(fns)]
            N, T = g.choice(dims), g.choice(dims[1:] + (6,))
            H = g.choice(dims[:4]) if n0 == 0 else len(rates)
            neg_spot = g.chance(0.2)
            spot = [[[g.dy(-smax, smax, sb) if neg_spot else g.dy(F(1, 4), smax, sb) for _ in range(T)] for _ in range(H)] for _ in range(N)]
            unit = [[[g.dy(-ulim, ulim, ub) for _ in range(T)] for _ in range(H)] for _ in range(N)]
            payoff = [g.dy(0, 8, sb) for _ in range(N)] if g.chance(0.7) else None
            first = g.chance(0.6)
            written = container_state(list(rates))
            full = [F(r) for r in rates] * (H if n0 == 0 else 1)          # the rates the list holds at this call, one per instrument
            req = {"op": "pl", "ss": [N, H, T], "su": [N, H, T], "spot": enc_rat(spot), "unit": enc_rat(unit), "cost": enc_rat([F(r) for r in rates]),
                   "payoff": None if payoff is None else {"dim": 1, "data": enc_rat(payoff)}, "first": first, "final": False, "tv": fn_name == "terminal_value"}
            case = {"fn": fn_name, "dtype": dtype,
                    "cost_argument": f"the caller's list, now {rates!r}: the same object as in the {k} earlier call(s) of this sequence, updated in place by the caller between the calls",
                    "caller_updates_between_calls": list(history), "ss": [N, H, T], "spot": req["spot"], "unit": req["unit"], "cost": req["cost"],
                    "payoff": req["payoff"], "first": first}
            ok = all(exact_sum_ok(terms_for_guard(s, u, full) + ([z] if z is not None else []), MANT[dtype])
                     for s, u, z in zip(spot, unit, payoff or [None] * N))
            ctx.case(case, ok and k > 0 and history[-1] != "(no update)" and any(r != 0 for r in rates), tag="updated_cost_container")
            ctx.traces += 1
            kw = dict(cost=cont, deduct_first_cost=first)
            if payoff is not None:
                kw["payoff"] = torch.tensor([float(x) for x in payoff], dtype=dt)
            t3 = lambda x: torch.tensor([[[float(v_) for v_ in r] for r in p_] for p_ in x], dtype=dt)
            st, v, mut = call_impl(pl if fn_name == "pl" else terminal_value, t3(spot), t3(unit), **kw)
            if mut:
                ctx.mutated("functional." + fn_name, mut, case)
            now = container_state(cont)
            if now != written:
                if not changed_reported:
                    changed_reported = True
                    ctx.fail(f"functional.{fn_name} changes the caller's list of cost rates (the argument `cost`, which the caller updates between the calls): after the call it no "
                             "longer holds the rates the caller wrote (type, length, elements)", case, key=f"functional.{fn_name}:cost-container-changed:updated-cost-container",
                             detail={"written": repr(written), "after_the_call": repr(now)})
                cont[:] = list(rates)        # the caller's list again, so that the rest of the sequence stays meaningful
            if st != "ok":
                ctx.fail(f"functional.{fn_name} raises on a well-shaped input when the cost rates come in a list the caller has passed to earlier calls and updated in place since "
                         "(as many rates as hedging instruments, or a single one)", case, key=f"functional.{fn_name}:error:updated-cost-container",
                         detail={"error": v, "container_now": repr(now), "written": repr(written)})
                continue
            if tuple(v.shape) != (N,) or v.dtype != dt:
                ctx.fail(f"functional.{fn_name} with a cost list updated in place since an earlier call: the result has not one value per path in the dtype of the prices", case,
                         key=f"functional.{fn_name}:shape:updated-cost-container", detail={"shape": list(v.shape), "dtype": str(v.dtype)})
                continue
            if not ok:
                ctx.stats["skipped_inexact"] += 1
                continue
            got = tensor_to_fracs(v)
            exp = [wealth(s, u, full, z, first) for s, u, z in zip(spot, unit, payoff or [None] * N)]
            if got != exp:
                ctx.fail(f"functional.{fn_name} differs from the self-financing wealth identity at the rates the caller's cost list holds AT THIS CALL: the same list object was "
                         "passed to earlier calls and has been updated in place by the caller since (element re-assigned / swapped / list extended, shortened or refilled)", case,
                         key=f"functional.{fn_name}:value:updated-cost-container",
                         detail={"impl": enc_rat(got), "wealth_at_the_current_rates": enc_rat(exp), "container_now": repr(now), "last_update": history[-1] if history else None})
            reqs.append(req)
            metas.append((case, got))
    try:
        outs = [model_result(m) for m in ctx.driver(reqs)]
    except DriverBroken as e:
        ctx.ties_broken.append({"kind": "driver", "detail": str(e)[:1500]})
        outs = []
    for (case, got), rm in zip(metas, outs):
        if ("ok", got) != rm:
            ctx.disagree("pl", case, ("ok", enc_rat(got)), (rm[0], enc_rat(rm[1]) if rm[0] == "ok" else rm[1]), note="cost list updated in place by the caller between calls")


def reused_hedge_containers(ctx, torch, g):
    """The caller keeps ONE collection of hedging instruments (a list, an instance of a sub-class of list, a user-defined sequence, a
    tuple) and hands the SAME object to every entry point of the Hedger taking `hedge=` (compute_hedge, compute_portfolio, compute_pl,
    compute_pnl, compute_loss, price, fit), of two hedgers, for two derivatives on the stock (other maturities, other numbers of paths).
    Predicates, per call: the call succeeds; compute_pl / compute_portfolio / compute_pnl are the wealth identity on the instruments'
    current prices, the hedge computed for (a fresh list of) them, their cost rates and the payoff (exact Fractions of the float64 data;
    1e-13 of the sum of the absolute terms for the float64 summation); afterwards the collection still holds exactly the instruments the
    caller put into it, in order."""
    from pfhedge.instruments import BrownianStock, EuropeanOption, LookbackOption
    from pfhedge.nn import Hedger
    ENTRY = ["compute_hedge", "compute_portfolio", "compute_pl", "compute_pnl", "compute_loss", "price", "fit"]
    corpus = [("list", 2), ("list", 1), ("list", 3), ("list_subclass", 2), ("userlist", 2), ("tuple", 2)]
    n_random = 2 if ctx.tier == "quick" else 30
    for it in range(len(corpus) + n_random):
        seq, nh = corpus[it] if it < len(corpus) else (g.choice(["list", "list", "list_subclass", "userlist", "tuple"]), g.choice([1, 2, 3]))
        costs = [F(g.choice([0, 1, 2, 8, -4]), 256) for _ in range(nh)]
        quotes = [(g.choice([F(1, 2), F(1), F(2)]), g.choice([F(0), F(1, 4), F(-1, 4)])) for _ in range(nh - 1)]
        stock = BrownianStock(cost=float(costs[0]), dtype=torch.float64)
        steps = [g.choice([2, 3]), g.choice([4, 5])]
        derivs = [EuropeanOption(stock, maturity=steps[0] * stock.dt), LookbackOption(stock, maturity=steps[1] * stock.dt)]
        instruments = [stock]
        for (a, b0), cst in zip(quotes, costs[1:]):
            o = EuropeanOption(stock, strike=1.0, maturity=steps[1] * stock.dt)
            o.list(lambda d, a=float(a), b0=float(b0): d.ul().spot * a + b0, cost=float(cst))      # listed through a closed formula of the stock's current price
            instruments.append(o)
        hedgers, weights = [], []
        for mkind in ("linear", "prev"):
            nin = 2 + (nh if mkind == "prev" else 0)
            w = [[g.choice([F(-1), F(-1, 2), F(1, 2), F(1), F(1, 4)]) for _ in range(nin)] for _ in range(nh)]
            b = [g.choice([F(0), F(1, 2), F(-1, 4)]) for _ in range(nh)]
            lin = torch.nn.Linear(nin, nh, dtype=torch.float64)
            with torch.no_grad():
                lin.weight.copy_(torch.tensor([[float(x) for x in r] for r in w], dtype=torch.float64))
                lin.bias.copy_(torch.tensor([float(x) for x in b], dtype=torch.float64))
            hedgers.append(Hedger(lin, ["moneyness", "time_to_maturity"] + (["prev_hedge"] if mkind == "prev" else [])))
            weights.append({"inputs": str(hedgers[-1].inputs), "w": enc_rat(w), "b": enc_rat(b)})
        book = as_sequence(seq, instruments)            # the caller's collection: the SAME object in every call
        entries = list(ENTRY)
        g.r.shuffle(entries)
        calls = [(e, g.randint(0, 1), g.randint(0, 1), g.choice([1, 2, 3, 5]), g.randint(0, 10 ** 6), g.chance(0.4)) for e in entries + [g.choice(ENTRY[:4]) for _ in range(2)]]
        base = {"hedge_argument": f"the caller's {seq} of the instruments, the same object in every call of the sequence",
                "instruments": ["the derivatives' stock"] + [f"option on it listed at {rat_str(a)} S + {rat_str(b0)}" for a, b0 in quotes], "cost": enc_rat(costs),
                "derivatives": [f"EuropeanOption, {steps[0]} steps", f"LookbackOption, {steps[1]} steps"], "hedgers": weights,
                "calls": [{"entry": e, "hedger": hi, "derivative": di, "n_paths": N, "torch_seed": sd, "hedge_by_keyword": kwd} for e, hi, di, N, sd, kwd in calls]}
        ctx.stats[f"reuse:hedge={seq}"] += 1
        changed_reported = False
        for k, (entry, hi, di, N, sd, kwd) in enumerate(calls):
            hedger, deriv = hedgers[hi], derivs[di]
            case = base | {"call": k}
            ctx.case(case, True, tag="reused_hedge_container")
            ctx.traces += 1
            torch.manual_seed(sd)
            a, kw = ((deriv,), {"hedge": book}) if kwd else ((deriv, book), {})
            if entry in ("compute_hedge", "compute_portfolio", "compute_pl"):
                deriv.simulate(n_paths=N)
                with torch.no_grad():
                    st, v, _ = call_impl(getattr(hedger, entry), *a, **kw)
            elif entry == "compute_pnl":
                with torch.no_grad():
                    st, v, _ = call_impl(hedger.compute_pnl, *a, n_paths=N, **kw)
            elif entry == "fit":
                st, v, _ = call_impl(hedger.fit, *a, n_epochs=2, n_paths=N, n_times=1, verbose=False, **kw)
            else:
                st, v, _ = call_impl(getattr(hedger, entry), *a, n_paths=N, n_times=2, enable_grad=False, **kw)
            held = list(book)
            if (len(held) != nh or any(x is not y for x, y in zip(held, instruments))) and not changed_reported:
                changed_reported = True
                ctx.fail(f"Hedger.{entry} changes the caller's collection of hedging instruments (the argument `hedge`): after the call it no longer holds exactly the "
                         "instruments the caller put into it, in order", case, key=f"hedger.{entry}:hedge-container-changed",
                         detail={"length_before": nh, "length_after": len(held), "same_objects": [any(x is y for y in instruments) for x in held]})
            if st != "ok":
                ctx.fail(f"Hedger.{entry} raises when the hedging instruments come in a {seq} the caller has passed to earlier calls (other entry points, hedgers, derivatives, "
                         "numbers of paths)", case, key=f"hedger.{entry}:error:reused-hedge-{seq}", detail=v)
                continue
            if entry in ("compute_portfolio", "compute_pl", "compute_pnl"):
                # the market left by the call; the hedge of a FRESH list of the instruments the caller put into the collection
                with torch.no_grad():
                    un = tensor_to_fracs(hedger.compute_hedge(deriv, list(instruments)))
                    sp = tensor_to_fracs(torch.stack([h.spot for h in instruments], dim=1))
                    pf = None if entry == "compute_portfolio" else tensor_to_fracs(deriv.payoff())
                got = tensor_to_fracs(v) if tuple(v.shape) == (N,) else None
                for n in range(N if got is not None else 0):
                    exp = wealth(sp[n], un[n], costs, pf[n] if pf is not None else None, True)
                    scale = sum(abs(t_) for t_ in terms_for_guard(sp[n], un[n], costs)) + (abs(pf[n]) if pf is not None else 0) + 1
                    if not isinstance(got[n], F) or abs(got[n] - exp) > F(1, 10 ** 13) * scale:
                        got = None
                        break
                if got is None:
                    ctx.fail(f"Hedger.{entry} differs from the wealth identity on the current prices of the instruments the caller put into the collection, the hedge computed "
                             f"for them, their cost rates and the payoff, when the same {seq} object has been passed to earlier calls", case,
                             key=f"hedger.{entry}:value:reused-hedge-{seq}", detail={"impl": v.tolist(), "prices": enc_rat(sp), "hedge": enc_rat(un)})


# deterministic corpus (every tier, every seed) of the class "ONE collection of hedging instruments kept by the caller, handed to several
# Hedger entry points and UPDATED IN PLACE by the caller between the calls": (kind of collection, number of instruments at the start, the
# caller's update before each further call).  Updates: set (book[i] = another instrument) / swap / reverse / slice (book[:] = as many) /
# extend (append / insert) / shorten (pop / del) / resize (book[:] = another number) / recost (instrument.cost = another rate: the rates the
# hedger charges are the public attribute `cost` of the instruments the collection holds) / same
UPDATE_HEDGE_CORPUS = [
    ("list", 2, ["swap", "set", "recost", "extend"]),
    ("list", 1, ["set", "extend", "swap", "shorten"]),
    ("list", 3, ["reverse", "shorten", "slice", "recost"]),
    ("list_subclass", 2, ["set", "swap", "resize"]),
    ("userlist", 2, ["swap", "recost", "slice"]),
]


def updated_hedge_containers(ctx, torch, g):
    """The caller keeps ONE mutable collection of hedging instruments (a list, an instance of a sub-class of list, a user-defined sequence),
    hands the SAME object to the entry points of the Hedger taking `hedge=` and UPDATES it in place between the calls: an element replaced
    by another instrument (other prices, other cost rate), two elements swapped, the collection reversed / refilled (`book[:] = ...`),
    extended or shortened (the hedger of the call has as many outputs as the collection then holds), or the cost rate of an instrument it
    holds re-assigned (`instrument.cost = rate`).  Predicates, per call: the call succeeds; compute_hedge is the hedge of a fresh list of
    the instruments the collection holds AT THAT CALL; compute_pl / compute_portfolio / compute_pnl are the wealth identity on those
    instruments' current prices, that hedge, the cost rates they carry at that call and the payoff (exact Fractions of the float64 data;
    1e-13 of the sum of the absolute terms for the float64 summation); afterwards the collection holds what the caller put into it."""
    from pfhedge.instruments import BrownianStock, EuropeanOption, LookbackOption
    from pfhedge.nn import Hedger
    ENTRY = ["compute_hedge", "compute_portfolio", "compute_pl", "compute_pnl", "compute_loss", "price", "fit"]
    OPS = ["set", "swap", "reverse", "slice", "extend", "shorten", "resize", "recost", "recost", "same"]
    RATES = [F(0), F(1, 256), F(2, 256), F(8, 256), F(-4, 256), F(16, 256), F(3, 256)]
    n_random = 2 if ctx.tier == "quick" else 40
    for it in range(len(UPDATE_HEDGE_CORPUS) + n_random):
        seq, nh0, ops = UPDATE_HEDGE_CORPUS[it] if it < len(UPDATE_HEDGE_CORPUS) else \
            (g.choice(["list", "list", "list_subclass", "userlist"]), g.choice([1, 2, 3]), [g.choice(OPS) for _ in range(g.randint(2, 4))])
        steps = g.choice([2, 3, 4])
        stock = BrownianStock(cost=float(g.choice(RATES)), dtype=torch.float64)
        deriv = (EuropeanOption if g.chance(0.6) else LookbackOption)(stock, maturity=steps * stock.dt)
        # the instruments the caller chooses from: the derivative's stock and four options on it, each listed through its own closed formula
        # of the stock's current price at its own cost rate
        pool, names = [stock], ["the derivative's stock"]
        quotes = [(F(1, 2), F(1, 4)), (F(2), F(0)), (F(1), F(-1, 4)), (F(3, 2), F(1, 2))]
        for a, b0 in quotes:
            o = EuropeanOption(stock, strike=1.0, maturity=steps * stock.dt)
            o.list(lambda d, a=float(a), b0=float(b0): d.ul().spot * a + b0, cost=float(g.choice(RATES)))
            pool.append(o)
            names.append(f"option on it listed at {rat_str(a)} S + {rat_str(b0)}")
        cost_of = {id(x): F(float(x.cost)) for x in pool}          # the harness's own record of the rates the caller wrote
        name_of = {id(x): nm for x, nm in zip(pool, names)}
        hedgers, weights = {}, {}
        for nh in (1, 2, 3):
            mkind = g.choice(["linear", "prev"])
            nin = 2 + (nh if mkind == "prev" else 0)
            w = [[g.choice([F(-1), F(-1, 2), F(1, 2), F(1), F(1, 4)]) for _ in range(nin)] for _ in range(nh)]
            b = [g.choice([F(0), F(1, 2), F(-1, 4)]) for _ in range(nh)]
            lin = torch.nn.Linear(nin, nh, dtype=torch.float64)
            with torch.no_grad():
                lin.weight.copy_(torch.tensor([[float(x) for x in r] for r in w], dtype=torch.float64))
                lin.bias.copy_(torch.tensor([float(x) for x in b], dtype=torch.float64))
            hedgers[nh] = Hedger(lin, ["moneyness", "time_to_maturity"] + (["prev_hedge"] if mkind == "prev" else []))
            weights[nh] = {"inputs": str(hedgers[nh].inputs), "w": enc_rat(w), "b": enc_rat(b)}
        held = [stock] + g.r.sample(pool[1:], nh0 - 1)               # the harness's own record of what the collection holds
        if g.chance(0.3):
            g.r.shuffle(held)
        book = as_sequence(seq, held)                                 # the caller's collection: the SAME object in every call
        history, changed_reported = [], False
        ctx.stats[f"update:hedge={seq}"] += 1
        entries = [g.choice(ENTRY[:4]) for _ in range(len(ops) + 1)]
        entries[g.randint(0, len(ops))] = g.choice(ENTRY[4:])
        for k in range(len(ops) + 1):
            if k > 0:
                op, n = ops[k - 1], len(held)
                if op in ("swap", "reverse") and n < 2:
                    op = "set"
                if op == "reverse" and n == 3 and g.chance(0.5):
                    op = "swap"
                if op == "shorten" and n < 2:
                    op = "extend"
                if op == "extend" and n >= 3:
                    op = "shorten"
                ctx.stats[f"update:hedge-op={op}"] += 1
                free = [x for x in pool if all(x is not y for y in held)]
                if op == "set":
                    i, x = g.randint(0, n - 1), g.choice(free)
                    held[i] = x
                    book[i] = x
                    history.append(f"book[{i}] = {name_of[id(x)]}")
                elif op == "swap":
                    i = g.randint(0, n - 1)
                    j = (i + g.randint(1, n - 1)) % n
                    held[i], held[j] = held[j], held[i]
                    book[i], book[j] = book[j], book[i]
                    history.append(f"book[{i}], book[{j}] = book[{j}], book[{i}]")
                elif op == "reverse":
                    held.reverse()
                    book.reverse()
                    history.append("book.reverse()")
                elif op in ("slice", "resize"):
                    m = n if op == "slice" else g.choice([m_ for m_ in (1, 2, 3) if m_ != n])
                    new = g.r.sample(pool, m)
                    while m == n and all(x is y for x, y in zip(new, held)):
                        new = g.r.sample(pool, m)
                    held = list(new)
                    book[:] = new
                    history.append("book[:] = [" + ", ".join(name_of[id(x)] for x in new) + "]")
                elif op == "extend":
                    x = g.choice(free)
                    if g.chance(0.5):
                        held.append(x)
                        book.append(x)
                        history.append(f"book.append({name_of[id(x)]})")
                    else:
                        held.insert(0, x)
                        book.insert(0, x)
                        history.append(f"book.insert(0, {name_of[id(x)]})")
                elif op == "shorten":
                    if g.chance(0.5):
                        held.pop()
                        book.pop()
                        history.append("book.pop()")
                    else:
                        del held[0]
                        del book[0]
                        history.append("del book[0]")
                elif op == "recost":
                    i = g.randint(0, n - 1)
                    r = g.choice([r_ for r_ in RATES if r_ != cost_of[id(held[i])]])
                    cost_of[id(held[i])] = r
                    book[i].cost = float(r)
                    history.append(f"book[{i}].cost = {float(r)!r}")
                else:
                    history.append("(no update)")
                if len(book) != len(held) or any(x is not y for x, y in zip(book, held)):
                    book[:] = list(held)     # only after the library changed the collection in an earlier call (reported there)
            nh, entry = len(held), entries[k]
            hedger, costs = hedgers[nh], [cost_of[id(x)] for x in held]
            N, sd, kwd = g.choice([1, 2, 3, 5]), g.randint(0, 10 ** 6), g.chance(0.4)
            case = {"entry": entry, "hedge_argument": f"the caller's {seq} of instruments: the same object as in the {k} earlier call(s) of this sequence, updated in place by the "
                    "caller between the calls", "holds_now": [name_of[id(x)] for x in held], "cost_now": enc_rat(costs), "caller_updates_between_calls": list(history),
                    "earlier_entries": entries[:k], "derivative": type(deriv).__name__, "steps": steps, "hedger": weights[nh], "n_paths": N, "torch_seed": sd,
                    "hedge_by_keyword": kwd}
            ctx.case(case, k > 0 and history[-1] != "(no update)", tag="updated_hedge_container")
            ctx.traces += 1
            torch.manual_seed(sd)
            a, kw = ((deriv,), {"hedge": book}) if kwd else ((deriv, book), {})
            if entry in ("compute_hedge", "compute_portfolio", "compute_pl"):
                deriv.simulate(n_paths=N)
                with torch.no_grad():
                    st, v, _ = call_impl(getattr(hedger, entry), *a, **kw)
            elif entry == "compute_pnl":
                with torch.no_grad():
                    st, v, _ = call_impl(hedger.compute_pnl, *a, n_paths=N, **kw)
            elif entry == "fit":
                st, v, _ = call_impl(hedger.fit, *a, n_epochs=1, n_paths=N, n_times=1, verbose=False, **kw)
            else:
                st, v, _ = call_impl(getattr(hedger, entry), *a, n_paths=N, n_times=2, enable_grad=False, **kw)
            after = list(book)
            if (len(after) != nh or any(x is not y for x, y in zip(after, held)) or [F(float(x.cost)) for x in held] != costs) and not changed_reported:
                changed_reported = True
                ctx.fail(f"Hedger.{entry} changes the caller's collection of hedging instruments (the argument `hedge`, which the caller updates between the calls) or the cost "
                         "rates of the instruments in it: after the call it no longer holds what the caller wrote", case, key=f"hedger.{entry}:hedge-container-changed:updated-hedge-container",
                         detail={"length_before": nh, "length_after": len(after), "cost_after": [float(x.cost) for x in held]})
            if st != "ok":
                ctx.fail(f"Hedger.{entry} raises when the hedging instruments come in a {seq} the caller has passed to earlier calls and updated in place since (the module has one "
                         "output per instrument the collection holds now)", case, key=f"hedger.{entry}:error:updated-hedge-container", detail=v)
                continue
            if entry in ("compute_hedge", "compute_portfolio", "compute_pl", "compute_pnl"):
                # the market left by the call; the hedge of a FRESH list of the instruments the collection holds at this call
                with torch.no_grad():
                    ut = hedger.compute_hedge(deriv, list(held))
                    un = tensor_to_fracs(ut)
                    sp = tensor_to_fracs(torch.stack([h.spot for h in held], dim=1))
                    pf = tensor_to_fracs(deriv.payoff()) if entry in ("compute_pl", "compute_pnl") else None
                if entry == "compute_hedge":
                    if tuple(v.shape) != tuple(ut.shape) or not torch.equal(v, ut):
                        ctx.fail(f"Hedger.compute_hedge with a {seq} of instruments the caller has updated in place since an earlier call is not the hedge of a fresh list of the "
                                 "instruments the collection holds at this call", case, key="hedger.compute_hedge:value:updated-hedge-container",
                                 detail={"impl": v.tolist(), "fresh_list": ut.tolist()})
                    continue
                got = tensor_to_fracs(v) if tuple(v.shape) == (N,) else None
                for n in range(N if got is not None else 0):
                    exp = wealth(sp[n], un[n], costs, pf[n] if pf is not None else None, True)
                    scale = sum(abs(t_) for t_ in terms_for_guard(sp[n], un[n], costs)) + (abs(pf[n]) if pf is not None else 0) + 1
                    if not isinstance(got[n], F) or abs(got[n] - exp) > F(1, 10 ** 13) * scale:
                        got = None
                        break
                if got is None:
                    ctx.fail(f"Hedger.{entry} differs from the wealth identity on the current prices of the instruments the caller's collection holds AT THIS CALL, the hedge computed "
                             f"for them, the cost rates they carry at this call and the payoff: the same {seq} object was passed to earlier calls and has been updated in place by the "
                             "caller since", case, key=f"hedger.{entry}:value:updated-hedge-container",
                             detail={"impl": v.tolist(), "prices": enc_rat(sp), "hedge": enc_rat(un), "cost": enc_rat(costs), "last_update": history[-1] if history else None})


def check(ctx):
    torch, pfhedge = import_impl()
    g = ctx.gen
    ctx.lean_gate()
    nfun = 1500 if ctx.tier == "quick" else 20000
    nhed = 150 if ctx.tier == "quick" else 1500
    # ---------------- functional level
    cases = [gen_functional(g, ctx.tier) for _ in range(nfun)]
    impl = []
    for c in cases:
        r, mut = run_impl_functional(torch, c)
        if mut:
            ctx.mutated("functional.pl", mut, to_req(c))
        impl.append(r)
    try:
        model = [model_result(m) for m in ctx.driver([to_req(c) for c in cases])]
    except DriverBroken as e:
        ctx.ties_broken.append({"kind": "driver", "detail": str(e)[:1500]})
        model = [("bad", None)] * len(cases)
    for c, ri, rm in zip(cases, impl, model):
        mant = MANT[c["dtype"]]
        wellshaped = (c["ss"] == c["su"] and not c["final"] and c["tags"]["payoff"] in ("given", "none")
                      and c["tags"]["cost"] != "badlen")
        nontrivial = wellshaped and c["cost"] is not None and any(x != 0 for x in c["cost"]) \
            and not c["tags"]["const_spot"] and c["tags"]["sign"] == "mixed" and c["ss"][2] >= 2
        for k, v in c["tags"].items():
            ctx.stats[f"{k}={v}"] += 1
        ctx.stats[f"dtype={c['dtype']}"] += 1
        ctx.stats[f"T={c['ss'][2]}"] += 1
        small = {k: (to_req(c)[k] if k in to_req(c) else c[k]) for k in
                 ("ss", "su", "spot", "unit", "cost", "payoff", "first", "final", "tv")}
        small["dtype"] = c["dtype"]
        if c["cseq"] != "list":
            small["cost_argument"] = c["cseq"] + " of the rates"
        if c["udtype"] != "same":
            small["unit_dtype"] = c["udtype"]
        ctx.case(small, nontrivial, tag="functional")
        ctx.traces += 1
        # exactness guard (never fires by construction of the grids; counted if it does)
        if wellshaped:
            cc = c["cost"]
            if cc is not None and len(cc) == 1:
                cc = cc * c["ss"][1]
            ok = all(exact_sum_ok(terms_for_guard(s, u, cc) + ([z] if z is not None else []), mant)
                     for s, u, z in zip(c["spot"], c["unit"], c["payoff"] or [None] * c["ss"][0]))
            if not ok:
                ctx.stats["skipped_inexact"] += 1
                continue
        if ri != rm:
            ctx.disagree("pl", small, ri, rm)
        # property predicate, independent of the model: the wealth double sum
        if wellshaped and ri[0] == "ok":
            cc = c["cost"]
            if cc is not None and len(cc) == 1:
                cc = cc * c["ss"][1]
            exp = [wealth(s, u, cc, z, c["first"])
                   for s, u, z in zip(c["spot"], c["unit"], c["payoff"] or [None] * c["ss"][0])]
            if ri[1] != exp:
                if cc is not None and any(x < 0 for x in cc):
                    ctx.fail("functional.pl differs from the self-financing wealth identity when a cost rate is negative (a rebate: the rates are "
                             "any real numbers; the cost term of instrument h is c_h * |position change| * price whatever the sign of c_h)",
                             small, key="functional.pl:value:negative-cost-rate",
                             detail={"impl": enc_rat(ri[1]), "wealth": enc_rat(exp), "cost_class": c["tags"]["cost"],
                                     "any_positive_rate": any(x > 0 for x in cc)})
                elif c["tags"]["cost"] == "tiny":
                    ctx.fail("functional.pl differs from the self-financing wealth identity when the cost rates are tiny (2^-24 .. 2^-12)",
                             small, key="functional.pl:value:tiny-cost-rate",
                             detail={"impl": enc_rat(ri[1]), "wealth": enc_rat(exp)})
                elif c["udtype"] != "same":
                    ctx.fail("functional.pl differs from the self-financing wealth identity when the positions are an integer-dtype tensor (whole shares)",
                             small, key="functional.pl:value:int-unit",
                             detail={"impl": enc_rat(ri[1]), "wealth": enc_rat(exp), "unit_dtype": c["udtype"]})
                elif c["cseq"] != "list":
                    ctx.fail("functional.pl differs from the self-financing wealth identity when the cost rates are handed over as a tuple", small,
                             key="functional.pl:value:cost-as-tuple", detail={"impl": enc_rat(ri[1]), "wealth": enc_rat(exp)})
                else:
                    ctx.fail("functional.pl differs from the self-financing wealth identity", small,
                             key="functional.pl:value", detail={"impl": enc_rat(ri[1]), "wealth": enc_rat(exp)})
        elif wellshaped:
            ctx.fail("functional.pl rejects a well-shaped input" + (" (the cost rates handed over as a tuple)" if c["cseq"] != "list" else ""), small,
                     key="functional.pl:error" + (":cost-as-tuple" if c["cseq"] != "list" else ""), detail={"impl": ri})
        elif ri[0] == "ok" and not (c["tags"]["cost"] == "badlen"):
            ctx.fail("functional.pl accepts an input it documents as rejected", small,
                     key="functional.pl:accepts", detail={"impl": enc_rat(ri[1])})
    # ---------------- hedger level
    reqs, metas = [], []
    hreqs, hmetas = [], []     # whole-scenario requests for the composed model ("hedger_pl"), one per (scenario, round)
    for it in range(nhed):
        c = gen_hedger(g, ctx.tier, force=MULTI_CORPUS[it] if it < len(MULTI_CORPUS) else None,
                       force_seq=SEQ_CORPUS[it - len(MULTI_CORPUS)] if len(MULTI_CORPUS) <= it < len(MULTI_CORPUS) + len(SEQ_CORPUS) else None)
        dflt = ":default-hedge" + (":multi-underlier" if c["multi"] else "") if c["call"] == "default" else ""
        seqs = ":hedge-as-" + c["seq"] if c["seq"] != "list" else ""        # (only with an explicit hedge: dflt == "")
        hidx = {}
        for rnd, shift in enumerate((0, 1)):
            hidx[rnd] = len(hreqs)
            hreqs.append(hedger_pl_req(c, shift))
        for which in ("pl", "portfolio"):
            try:
                rounds = run_hedger_case(torch, ctx, c, which)
            except InternalError:
                raise
            except DefaultHedgeShape:
                continue
            except Exception as e:  # noqa
                ctx.stats["hedger_build_error:" + canon_error(e)] += 1
                ctx.fail(f"Hedger.compute_{which} raised on a well-formed market" + (" (hedge=None: the hedging instruments are the derivative's underliers)" if dflt else "")
                         + (f" (the hedging instruments handed over as a {c['seq']})" if seqs else ""),
                         _small_h(c, which), key=f"hedger.compute_{which}:raise" + dflt + seqs, detail=repr(e)[:300])
                continue
            for rnd, st, v, sp, un, cost, pf in rounds:
              hmetas.append((c, which, rnd, st, v, hidx[rnd], un, pf))
              N, H, T = len(sp), len(sp[0]), len(sp[0][0])
              ok = all(exact_sum_ok(terms_for_guard(s, u, cost), 53) for s, u in zip(sp, un)) and \
                  all(is_dyadic_fit(x, 40) for p in un for r in p for x in r)
              for k, vv in c["tags"].items():
                  ctx.stats[f"h:{k}={vv}"] += 1
              moved = any(len(set(r)) > 1 for p in un for r in p)
              ctx.case(_small_h(c, which), ok and moved and any(x != 0 for x in cost), tag="hedger_" + which)
              ctx.traces += 1
              if not ok:
                  ctx.stats["skipped_inexact"] += 1
                  continue
              req = {"op": "pl", "ss": [N, H, T], "su": [N, H, T], "spot": enc_rat(sp), "unit": enc_rat(un),
                     "cost": enc_rat(cost), "payoff": None if pf is None else {"dim": 1, "data": enc_rat(pf)},
                     "first": True, "final": False}
              reqs.append(req)
              metas.append((c, which, st, v, sp, un, cost, pf))
              # property predicate
              if st == "ok":
                  exp = [wealth(s, u, cost, (pf[i] if pf is not None else None), True)
                         for i, (s, u) in enumerate(zip(sp, un))]
                  if v != exp and any(x < 0 for x in cost):
                      ctx.fail(f"Hedger.compute_{which} differs from the wealth identity on the hedge spots, its own hedge, the instruments' costs and the payoff "
                               "when a traded instrument has a negative cost rate (a rebate)",
                               _small_h(c, which), key=f"hedger.compute_{which}:value:negative-cost-rate",
                               detail={"impl": enc_rat(v), "wealth": enc_rat(exp), "cost": enc_rat(cost), "round": rnd,
                                       "hedge": enc_rat(un), "prices": enc_rat(sp), "any_positive_rate": any(x > 0 for x in cost)})
                  elif v != exp and c["model"] == "identity":
                      ctx.fail(f"Hedger.compute_{which} with a pass-through hedging rule on a single price-buffer feature (hold as many shares as the price) "
                               "differs from the wealth identity on the injected hedge prices, its own hedge, the instrument's cost and the payoff",
                               _small_h(c, which), key=f"hedger.compute_{which}:value:passthrough-view-input",
                               detail={"impl": enc_rat(v), "wealth": enc_rat(exp), "cost": enc_rat(cost), "round": rnd,
                                       "hedge": enc_rat(un), "prices": enc_rat(sp)})
                  elif v != exp and seqs:
                      ctx.fail(f"Hedger.compute_{which} with the hedging instruments handed over as a {c['seq']} differs from the wealth identity on those instruments' prices, "
                               "the hedge computed for them, their cost rates and the payoff",
                               _small_h(c, which), key=f"hedger.compute_{which}:value" + seqs,
                               detail={"impl": enc_rat(v), "wealth": enc_rat(exp), "cost": enc_rat(cost), "round": rnd,
                                       "hedge": enc_rat(un), "prices": enc_rat(sp)})
                  elif v != exp and dflt:
                      ctx.fail(f"Hedger.compute_{which}(derivative) with the default hedge (hedge=None) differs from the wealth identity on the prices of ALL "
                               "underliers of the derivative, the hedge it computes, the underliers' own cost rates and the payoff",
                               _small_h(c, which), key=f"hedger.compute_{which}:value" + dflt,
                               detail={"impl": enc_rat(v), "wealth": enc_rat(exp), "cost": enc_rat(cost), "round": rnd,
                                       "hedge": enc_rat(un), "prices": enc_rat(sp)})
                  elif v != exp:
                      ctx.fail(f"Hedger.compute_{which} differs from the wealth identity on the hedge spots, its own hedge, the instruments' costs and the payoff",
                               _small_h(c, which), key=f"hedger.compute_{which}:value",
                               detail={"impl": enc_rat(v), "wealth": enc_rat(exp), "cost": enc_rat(cost)})
              elif dflt:
                  # every hedging instrument is an underlier of the derivative with a price series of the same shape and the module
                  # returns one position per underlier: the identity is defined, the P&L must exist
                  ctx.fail(f"Hedger.compute_{which}(derivative) with the default hedge (hedge=None: ALL underliers of the derivative) raises although the module returns "
                           "one position per underlier", _small_h(c, which), key=f"hedger.compute_{which}:error" + dflt,
                           detail={"error": v, "round": rnd, "hedge_shape": [len(un), len(un[0]), len(un[0][0])], "underliers": H})
              elif seqs:
                  # the list of the same instruments has a hedge with one position per instrument (computed above): the identity is defined
                  ctx.fail(f"Hedger.compute_{which} raises when the hedging instruments are handed over as a {c['seq']} (a sequence of instruments is only measured, "
                           "indexed and iterated: it is the same hedge as the list of them)", _small_h(c, which),
                           key=f"hedger.compute_{which}:error" + seqs, detail={"error": v, "round": rnd, "instruments": H})
              else:
                  ctx.fail(f"Hedger.compute_{which} raises on a well-formed market (one position per hedging instrument)", _small_h(c, which),
                           key=f"hedger.compute_{which}:error", detail={"error": v, "round": rnd})
    try:
        outs = [model_result(m) for m in ctx.driver(reqs)]
    except DriverBroken as e:
        ctx.ties_broken.append({"kind": "driver", "detail": str(e)[:1500]})
        outs = []
    for (c, which, st, v, sp, un, cost, pf), rm in zip(metas, outs):
        if (st, v) != rm:
            ctx.disagree("hedger_" + which, _small_h(c, which), (st, enc_rat(v) if st == "ok" else v),
                         (rm[0], enc_rat(rm[1]) if rm[0] == "ok" else rm[1]))
    # the composed model: market -> features -> module -> hedge -> prices / costs / clause-adjusted payoff -> pl, from the
    # harness's own data, against Hedger.compute_pl / compute_portfolio (exact)
    try:
        hreplies = ctx.driver(hreqs)
    except DriverBroken as e:
        ctx.ties_broken.append({"kind": "driver", "detail": str(e)[:1500]})
        hreplies = None
    if hreplies is not None:
        for c, which, rnd, st, v, hi, un, pf in hmetas:
            if c["multi"] == "spread" and which == "pl":
                ctx.stats["hedger_pl_skipped_user_payoff"] += 1
                continue
            rm, exact = hedger_pl_model(c, which, hreplies[hi])
            ctx.stats["hedger_pl_compared"] += 1
            if rm[0] == "ok" and not exact:
                ctx.stats["hedger_pl_skipped_inexact"] += 1
                continue
            if (st, v) != rm:
                note = ""
                if rm[0] == "ok" and st == "ok":       # where the two first part ways (diagnostic only)
                    mp = hreplies[hi]["paths"]
                    mun = [dec_rat(p["spot_unit"]["ok"])[1] for p in mp]
                    if mun != un:
                        note = "the hedge differs: impl " + json.dumps(enc_rat(un)) + " model " + json.dumps(enc_rat(mun))
                    elif pf is not None and [F(p["payoff"]["ok"]) for p in mp] != pf:
                        note = "the payoff differs: impl " + json.dumps(enc_rat(pf)) + " model " + \
                            json.dumps([p["payoff"]["ok"] for p in mp])
                    else:
                        note = "same hedge and payoff: prices, cost rates or the P&L formula differ"
                ctx.disagree("hedger_pl", _small_h(c, which) | {"round": rnd, "composed_model": True},
                             (st, enc_rat(v) if st == "ok" else v), (rm[0], enc_rat(rm[1]) if rm[0] == "ok" else rm[1]),
                             note=("composed model hedgerPL/hedgerPortfolio from the generated data alone; " + note)[:700])
    nondyadic_cost_rates(ctx, torch, g)
    hedge_sequence_entry_points(ctx, torch, g)
    reused_cost_containers(ctx, torch, g)
    updated_cost_containers(ctx, torch, g)
    reused_hedge_containers(ctx, torch, g)
    updated_hedge_containers(ctx, torch, g)
    return ctx.finish(
        rule="functional: random (N,H,T) shapes with dyadic spot/unit/payoff/cost grids sized so float64/float32 commit no rounding; "
             "non-trivial = well-shaped, some cost rate != 0, non-constant prices, positions of both signs, T>=2. "
             "cost vectors: None / zero / positive / one broadcast rate / rebates (no positive rate, some negative) / mixed signs / one negative broadcast rate / tiny (2^-24..2^-12, float64). "
             "integer-dtype (int64/int32) whole-share positions against floating-point prices included. "
             "hedger: real Hedger (linear/ReLU/prev_hedge/Naked models with dyadic weights, and pass-through modules on a single price-buffer feature) "
             "on injected dyadic buffers; user-defined derivatives with 2-3 underliers (an option on the first asset registering proxy assets; a spread option on "
             "BaseDerivative) and built-in options on one stock hedged with the DEFAULT hedge (hedge=None = all underliers, each with its own cost rate; deterministic corpus of 8 + random), "
             "compute_hedge(default) == compute_hedge(list(underliers)); with primary and listed hedges (cost rates zero / positive / negative / tiny, incl. books whose only frictions are rebates), hedge-then-P&L and P&L-first call orders; "
             "explicit hedges handed over as a list / tuple / instance of a sub-class of list / user-defined sequence (compute_hedge == that of the list; P&L and portfolio value the identity; deterministic corpus of 8 + random), "
             "and all entry points taking hedge= (compute_hedge/portfolio/pl/pnl/loss, price, fit) on a simulated market with such a sequence: succeed, the identity, bit for bit the list's result from the same seed; "
             "caller-owned containers reused across calls: ONE cost list / tuple (a single rate for all instruments with changing H, or one rate per instrument; floats or Python ints) handed to several pl / terminal_value calls "
             "of other shapes, and ONE hedge list / sub-class of list / user-defined sequence / tuple handed to every hedge= entry point of two hedgers for two derivatives: each call succeeds and is the identity at what the "
             "caller wrote, and the container is unchanged afterwards (deterministic corpus of 10 + 6 sequences, plus random ones; the pl calls also go to the Lean op pl); "
             "caller-owned containers UPDATED IN PLACE by the caller between calls: ONE cost list (element re-assigned / incremented / set to a Python int, elements swapped, reversed, cost[:] = ..., "
             "extended / shortened / refilled together with H) handed to several pl / terminal_value calls, and ONE mutable hedge collection (element replaced, swapped, reversed, refilled, extended / "
             "shortened with a hedger of as many outputs, instrument.cost re-assigned) handed to the hedge= entry points: each call succeeds and is the identity at what the container holds AT THAT CALL "
             "(deterministic corpus of 12 + 5 sequences, plus random ones; the pl calls also go to the Lean op pl with the rates of the call); "
             "every hedger scenario and round is also run through the composed model `hedgerPL`/`hedgerPortfolio` (op hedger_pl) from the generated data alone; "
             "non-trivial = hedge moves, some cost rate != 0, exactly representable. distinct = sha1 of the canonical case.")


def _small_h(c, which):
    d = {k: c[k] for k in ("N", "T", "model", "strike", "deriv", "clause")}
    d["which"] = which
    d["order"] = c.get("order", "hedge_first")
    if c["model"] == "identity":
        d["inputs"] = [c["view"]]
        d["module"] = c["passthru"]
    if c.get("multi"):
        d["derivative"] = {"user_defined": c["multi"], "underliers": len(c["hedges"]), "registered_by": c["reg"]}
    if c.get("call") == "default":
        d["hedge_argument"] = None
    elif c.get("seq", "list") != "list":
        d["hedge_argument"] = c["seq"] + " of the instruments"
    d["hedges"] = [dict(kind=h["kind"], cost=rat_str(h["cost"]), a=rat_str(h["a"]), b=rat_str(h["b"]),
                        spot=enc_rat(h["spot"])) for h in c["hedges"]]
    d["w"] = enc_rat(c["w"])
    d["b"] = enc_rat(c["b"])
    return d
