"""entry point:  run.py <Cxx> [--tier quick|thorough] [--replay file]"""
import sys, os, argparse, importlib, traceback, json
sys.path.insert(0, os.path.dirname(os.path.abspath(__file__)))
import common


def main():
    ap = argparse.ArgumentParser()
    ap.add_argument("prop")
    ap.add_argument("--tier", default=os.environ.get("VERIF_TIER", "quick"))
    ap.add_argument("--replay", default=None)
    a = ap.parse_args()
    prop = a.prop.upper()
    tier = a.tier if a.tier in ("quick", "thorough") else "quick"
    try:
        seed = int(os.environ.get("VERIF_SEED", "20260930"))
    except ValueError:
        seed = 20260930
    try:
        mod = importlib.import_module(prop.lower())
        if a.replay:
            payload = json.load(open(a.replay))
            rc = mod.replay(common.Ctx(prop, tier, seed), payload) if hasattr(mod, "replay") \
                else common.generic_replay(mod, prop, tier, payload)
        else:
            ctx = common.Ctx(prop, tier, seed)
            try:
                rc = mod.check(ctx)
            except common.InternalError:
                raise
            except Exception:
                # The harness could not evaluate the implementation's behaviour (unexpected value /
                # shape / exception surfacing in harness code).  On the unchanged tree this never
                # happens; after a change to /repo it means the correspondence can no longer be
                # established: report it as a broken tie (no failing input identified).
                tb = traceback.format_exc()
                print(tb, file=sys.stderr)
                ctx.ties_broken.append({"kind": "harness-exception", "detail": tb[-1500:]})
                rc = ctx.finish(rule="(run aborted by an exception while evaluating the implementation; see ties_broken)")
    except common.InternalError as e:
        print(f"[{prop}] INTERNAL ERROR: {e}", file=sys.stderr)
        sys.exit(2)
    except Exception:
        traceback.print_exc()
        print(f"[{prop}] INTERNAL ERROR (harness exception)", file=sys.stderr)
        sys.exit(2)
    sys.exit(rc)


if __name__ == "__main__":
    main()
