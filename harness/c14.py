"""C14 — Loss gradients through the hedger are the true gradients.

correspondence: torch.autograd.grad of criterion(compute_portfolio(derivative), payoff) w.r.t. every
model parameter vs the ε-part of the SAME Lean model (computeHedge -> plPath -> criterion)
evaluated at dual numbers (`Dual Float`, forward mode, one pass per parameter) on the same dyadic
market and dyadic parameters; both evaluation modes, costs zero and positive, with and without the
recurrent prev_hedge input.
predicate (real code): autograd gradient vs central finite differences of the real loss on the
same paths; price() and compute_loss(enable_grad=False) carry no graph; validation losses inside fit
carry no graph.  The simulated-market part also runs with the hedger in evaluation mode (after eval(), and
after fit(validation=True) which leaves it there) and with user models built from pfhedge's own modules:
a no-transaction-band strategy whose trainable band edges are the tensor-valued bounds of Clamp /
LeakyClamp, and a Black-Scholes delta evaluated at trainable (shifted / marked-up) inputs.
Quantities computed WITH a graph on request (price_gradient, every simulated-market case, all criteria and model kinds / modes): price(n_times, enable_grad=True)
and compute_loss as functions of the parameters AND of the initial spot (init_state a tensor that requires grad: the graph runs through the simulated paths):
the back-propagated gradient of the price vs the derivative of the price from its defining relation loss(c 1) = loss(pl), c = -price (for the cash-invariant
criteria - expected shortfall, entropic risk measure, quadratic CVaR - the gradient of compute_loss on the same paths; implicit function theorem otherwise:
entropic loss, and the search-based cash amounts of OCE / isoelastic / user criteria, one key grad:price:search-cash) and vs finite differences; the loss along
the initial spot vs finite differences.  On the injected markets (check_cash_gradient, main loop and H >= 2): grad of -criterion.cash(portfolio, payoff) vs the
gradient of the loss (ERM, ES) resp. grad loss / (a loss) (entropic loss).
Inside fit (check_fit_steps): the gradient handed to the optimiser at EVERY step (a recording optimiser, instance or class,
owning parameters inside and outside hedger.parameters(), >= 2 epochs, with and without a backward pass made before fit) vs
autograd / finite differences of that epoch's loss on that epoch's recorded paths, and vs the Lean op "grad_h".
Grad mode around the entry points (check_grad_mode, a deterministic corpus on every tier): price / price(enable_grad=True) / compute_loss(enable_grad=False) /
compute_loss / fit (training step, validation) called so that an exception passes through them (seven ways, and not at all), with gradients enabled and inside
the caller's torch.no_grad() block: torch.is_grad_enabled() afterwards is what it was before, and the hedging loss the caller builds next from compute_pl +
criterion carries no graph inside no_grad resp. has the gradient of its finite differences (and of the Lean op "grad_h") with gradients enabled.
"""
import math
from fractions import Fraction as F
from common import *  # noqa
from hedge_common import *  # noqa


def check_cash_gradient(ctx, torch, hedger, d, crit, critk, a, params, hedge, loss, gflat, case, tag):
    """A quantity computed WITH a graph on request: the price of the position, -criterion.cash(compute_portfolio(d, hedge), d.payoff()) -- what
    Hedger.price(enable_grad=True) evaluates on a batch -- for the criteria whose cash amount has a documented closed form.  On the same (injected)
    paths, at the same parameters, its back-propagated gradient is fixed by the gradient of the hedging loss (already compared with finite
    differences and with the model): cash = -loss(pl) for the entropic risk measure and the expected shortfall (the price IS the loss), and
    cash = log(loss(pl)) / (-a) for the entropic loss, i.e. grad price = grad loss / (a loss).  Both sides are reverse-mode derivatives of float64
    computations through the same hedge and P&L: 1e-9 of the scale."""
    if critk not in ("erm", "es", "eloss"):
        return
    kw = {} if hedge is None else {"hedge": hedge}

    def price_fn():
        pf = hedger.compute_portfolio(d, **kw)
        return -crit.cash(pf, d.payoff())
    st, pr, _ = call_impl(price_fn)
    gs = pr
    if st == "ok":
        st, gs, _ = (call_impl(torch.autograd.grad, pr, params, allow_unused=True) if pr.requires_grad else ("ok", [None] * len(params), []))
    if st != "ok":
        ctx.fail("computing / back-propagating the price -criterion.cash(portfolio, payoff) with gradients enabled raised", case, key=f"{tag}:cash:error", detail=gs)
        return
    got = []
    for p_, gr in zip(params, gs):
        got += ([0.0] * p_.numel() if gr is None else [float(x) for x in gr.reshape(-1).tolist()])
    lossv = float(loss.detach())
    want = gflat[:len(got)] if critk != "eloss" else [x / (a * lossv) for x in gflat[:len(got)]]
    ctx.stats[f"{tag}:cash_gradient:{critk}"] += 1
    scale = max([1.0] + [abs(x) for x in got + want])
    badi = [i for i, (a_, b_) in enumerate(zip(got, want)) if not abs(a_ - b_) <= 1e-9 * scale]
    if badi:
        ctx.fail("the back-propagated gradient of the price -criterion.cash(portfolio, payoff) (closed-form cash amount) is not the derivative of that price: "
                 + ("it differs from the gradient of the hedging loss, which this price equals" if critk != "eloss" else
                    "it differs from grad loss / (a loss), the gradient of log(loss) / a"), case, key=f"{tag}:cash:{critk}",
                 detail={"autograd_of_price": got, "derivative": want, "params": badi})


def check_multi(ctx, torch, nn, Hedger):
    """H >= 1 hedging instruments (the derivative's underlier plus listed a*S+b derivatives / further primaries, each with its own cost rate),
    models with H outputs, with and without prev_hedge (width H), and the criteria of `CritH` including the isoelastic loss (on positive wealth:
    a clause shifts the payoff) and OCE with its own trainable w: torch.autograd.grad of criterion(compute_portfolio(d, hedge), d.payoff()) --
    what compute_loss evaluates -- vs (predicate) central finite differences of the real loss and (correspondence) the eps-parts of the Lean
    model `lossOfH` at dual numbers, op "grad_h".  Uses its own generator: the cases of the other parts do not move."""
    from pfhedge.instruments import BrownianStock, EuropeanOption
    from pfhedge.nn.modules.loss import OCE
    g = Gen(f"{ctx.seed}:grad_h")
    dt = torch.float64
    want = 50 if ctx.tier == "quick" else 500
    CRITS = ["erm", "es", "eloss", "mse", "mean", "iso1", "iso", "iso", "oce_exp", "oce_exp", "oce_quad"]
    SHIFT = 64.0
    reqs, metas = [], []
    accepted = attempts = rejected = 0
    while accepted < want and attempts < 6 * want:
        attempts += 1
        mk = gen_market(g, N=g.choice([2, 3, 4, 5]), T=g.choice([2, 3, 4, 5]), primary=g.choice(["BrownianStock", "HestonStock"]))
        mk["cost"] = F(g.choice([0, 4, 16, 32]), 256)
        mk["option"] = g.choice(["EuropeanOption", "LookbackOption"])
        N, T = mk["N"], mk["T"]
        H = g.choice([2, 2, 2, 3, 3])
        stateful = g.chance(0.5)
        names = [g.choice(["moneyness", "time_to_maturity", "volatility", "max_moneyness", "barrier_up", "underlier_spot", "variance"])
                 for _ in range(g.choice([1, 2]))]
        thr = g.choice([x for p in mk["spot"] for x in p])
        width = len(names) + (H if stateful else 0)
        relu = g.chance(0.4)
        ms = gen_mlp(g, width, H) if relu else gen_linear(g, width, H, relu=False)
        critk = CRITS[attempts % len(CRITS)]
        a = g.choice([0.5, 1.0, 2.0])
        k = min(g.choice([1, 2, 4]), N) if critk == "es" else None
        d, u = build_derivative(torch, mk)
        # hedging instruments: the underlier, then listed derivatives priced a*S+b (on another underlier or on the derivative's own) / primaries
        hedge, hspec = [u], [{"kind": "primary", "rows": mk["spot"], "cost": mk["cost"]}]
        for _ in range(1, H):
            kind = g.choice(["listed", "listed", "primary", "self"])
            cj = F(g.choice([0, 2, 8, 24]), 256)
            rows = mk["spot"] if kind == "self" else [[g.dy(F(1, 2), 4, 3) for _ in range(T)] for _ in range(N)]
            if kind == "primary":
                s_ = BrownianStock(cost=float(cj), dt=float(mk["dt"]), dtype=dt)
                s_.register_buffer("spot", tens(torch, rows))
                hedge.append(s_)
                hspec.append({"kind": "primary", "rows": rows, "cost": cj})
            else:
                if kind == "self":
                    s_ = u
                else:
                    s_ = BrownianStock(dt=float(mk["dt"]), dtype=dt)
                    s_.register_buffer("spot", tens(torch, rows))
                o = EuropeanOption(s_, maturity=(T - 1) * float(mk["dt"]))
                pa, pb = g.choice([F(1), F(2), F(1, 2)]), g.choice([F(0), F(1), F(-1, 4)])
                o.list(lambda dd, a_=float(pa), b_=float(pb): dd.ul().spot * a_ + b_, cost=float(cj))
                hedge.append(o)
                hspec.append({"kind": "listed", "a": pa, "b": pb, "rows": rows, "cost": cj})
        feats = [feature_obj(torch, nm, mk, thr) for nm in names] + (["prev_hedge"] if stateful else [])
        model = model_obj(torch, ms)
        adds, w0, util = [], None, None
        if critk == "erm":
            crit, crit_spec = nn.EntropicRiskMeasure(a), ["erm", float_bits(a)]
        elif critk == "eloss":
            crit, crit_spec = nn.EntropicLoss(a), ["eloss", float_bits(a)]
        elif critk == "es":
            crit, crit_spec = nn.ExpectedShortfall(k / N), ["es", k]
        elif critk == "mse":
            crit, crit_spec = torch.nn.MSELoss(), ["mse"]
        elif critk == "mean":
            class NegMean(nn.HedgeLoss):
                def forward(self, input, target=0.0):
                    return -(input - target).mean(0)
            crit, crit_spec = NegMean(), ["mean"]
        elif critk in ("iso1", "iso"):
            a = 1.0 if critk == "iso1" else g.choice([0.25, 0.5, 0.75])
            crit, crit_spec = nn.IsoelasticLoss(a), ["iso", float_bits(a), a == 1.0]
            # positive wealth: the derivative pays SHIFT less (a clause of the derivative; the model applies the same clause to its payoff)
            d.add_clause("shift", lambda dd, p_: p_ - SHIFT)
            adds = [["shift", ["affine", float_bits(1.0), float_bits(-SHIFT)]]]
        else:
            w0 = g.choice([0.0, 0.25, -0.5, 1.0])
            if critk == "oce_exp":
                a = g.choice([0.5, 1.0, 0.25])
                util = ["exp", float_bits(a)]
                crit = OCE(lambda x, a_=a: 1 - (-(a_ * x)).exp())
            else:
                qa, qb = g.choice([-0.125, -0.0625, -0.25]), g.choice([1.0, 0.5])
                util = ["quad", float_bits(qa), float_bits(qb)]
                crit = OCE(lambda x, a_=qa, b_=qb: a_ * x * x + b_ * x)
            with torch.no_grad():
                crit.w.fill_(w0)
            crit_spec = ["oce", util, float_bits(w0)]
        hedger = Hedger(model, feats, criterion=crit)
        case = {"multi": True, "H": H, "hedges": [{"kind": h_["kind"], "cost": rat_str(h_["cost"]), "a": rat_str(h_.get("a", F(1))), "b": rat_str(h_.get("b", F(0))),
                                                   "spot": enc_rat(h_["rows"])} for h_ in hspec],
                "features": names, "stateful": stateful, "model": model_json(ms), "crit": critk, "a": a, "k": k, "w": w0, "utility": util,
                "option": mk["option"], "call": mk["call"], "primary": mk["primary"], "N": N, "T": T, "vol": enc_rat(mk["vol"]),
                "strike": rat_str(mk["strike"]), "dt": rat_str(mk["dt"]), "thr": rat_str(thr)}
        params = list(model.parameters())
        wpar = [crit.w] if w0 is not None else []

        def loss_fn():
            pf = hedger.compute_portfolio(d, hedge=hedge)
            return crit(pf, d.payoff())
        inject(torch, u, mk)
        st, loss, _ = call_impl(loss_fn)
        if st != "ok":
            ctx.case(case, False, tag="grad_h")
            ctx.fail("computing the hedging loss raised", case, key="grad_h:loss-error", detail=loss)
            continue
        st, grads, _ = call_impl(torch.autograd.grad, loss, params + wpar, allow_unused=True)
        if st != "ok":
            ctx.case(case, False, tag="grad_h")
            ctx.fail("back-propagating the hedging loss raised", case, key="grad_h:backward-error", detail=grads)
            continue
        gflat = []
        for p_, gr in zip(params + wpar, grads):
            gflat += ([0.0] * p_.numel() if gr is None else [float(x) for x in gr.reshape(-1).tolist()])
        # generic point?  (kinks of |position change| / |initial position| count for instruments with a non-zero cost rate only)
        with torch.no_grad():
            unit = hedger.compute_hedge(d, hedge=hedge)      # (N, H, T)
            kink = False
            for j_, h_ in enumerate(hspec):
                if h_["cost"] > 0:
                    if T > 2 and bool((unit[:, j_, :].diff(dim=-1).abs()[..., :-1] < 2 ** -20).any()):
                        kink = True
                    if bool((unit[:, j_, 0].abs() < 2 ** -20).any()):
                        kink = True
            if relu:
                pre_min = [float("inf")]

                def hook(mod, inp):
                    pre_min[0] = min(pre_min[0], float(inp[0].abs().min()))
                hs = [m_.register_forward_pre_hook(hook) for m_ in model.modules() if isinstance(m_, torch.nn.ReLU)]
                hedger.compute_hedge(d, hedge=hedge)
                for h_ in hs:
                    h_.remove()
                kink = kink or pre_min[0] < 2 ** -20
            plv = (hedger.compute_portfolio(d, hedge=hedge) - d.payoff()).sort().values
            if critk == "es" and k < N:
                kink = kink or bool((plv[k] - plv[k - 1]).abs() < 2 ** -20)
            if critk in ("iso1", "iso"):
                kink = kink or not bool(plv[0] >= 1.0)      # wealth must stay positive (also under the finite-difference steps)
        for key_ in (f"multi:crit={critk}", f"multi:H={H}", f"multi:stateful={stateful}", f"multi:relu={relu}",
                     f"multi:kinds={'+'.join(sorted(set(h_['kind'] for h_ in hspec)))}"):
            ctx.stats[key_] += 1
        if kink or not all(math.isfinite(x) for x in gflat + [float(loss.detach())]):
            rejected += 1
            ctx.stats["multi:rejected_near_kink"] += 1
            continue
        accepted += 1
        ctx.case(case, True, tag="grad_h")
        ctx.traces += 1
        # ---- predicate: central finite differences of the REAL loss on the same paths
        #      (OCE's w is a float32 parameter: steps that are exact in float32)
        def fd_all(hd, hs_):
            out = []
            with torch.no_grad():
                for p_ in params + wpar:
                    flat = p_.view(-1)
                    h = hd if p_.dtype == torch.float64 else hs_
                    for i in range(flat.numel()):
                        old = float(flat[i])
                        flat[i] = old + h
                        lp = float(loss_fn())
                        flat[i] = old - h
                        lm = float(loss_fn())
                        flat[i] = old
                        out.append((lp - lm) / (2 * h))
            return out
        fd = fd_all(2.0 ** -20, 2.0 ** -12)
        scale = max(1.0, max(abs(x) for x in fd), abs(float(loss.detach())))
        badi = [i for i, (a_, b_) in enumerate(zip(gflat, fd)) if not abs(a_ - b_) <= 2e-5 * scale]
        if badi:
            fd2 = fd_all(2.0 ** -30, 2.0 ** -18)
            badi = [i for i in badi if not abs(gflat[i] - fd2[i]) <= 1e-3 * scale]
        if badi:
            ctx.fail("the back-propagated gradient of the hedging loss (several hedging instruments) differs from the derivative of the loss "
                     "(finite differences on the same paths)", case,
                     key=f"grad_h:{'stateful' if stateful else 'batched'}:{critk}", detail={"autograd": gflat, "finite_difference": fd, "params": badi})
        check_cash_gradient(ctx, torch, hedger, d, crit, critk, a, params, hedge, loss, gflat, case, "grad_h")
        # ---- model (dual numbers), op "grad_h"
        layers = [{"w": enc_flt([[float(x) for x in r] for r in l["w"]]), "b": enc_flt([float(x) for x in l["b"]])}
                  for l in (ms["layers"] if ms["kind"] == "mlp" else [ms])]

        def instr(h_, p):
            row = enc_flt([float(x) for x in h_["rows"][p]])
            if h_["kind"] == "primary":
                return {"kind": "primary", "row": row, "cost": float_bits(float(h_["cost"]))}
            return {"kind": "listed", "a": float_bits(float(h_["a"])), "b": float_bits(float(h_["b"])), "row": row, "cost": float_bits(float(h_["cost"]))}
        reqs.append({"op": "grad_h", "features": [feature_json(nm, thr) for nm in names] + ([["prev_hedge"]] if stateful else []),
                     "layers": layers, "payoff": {"kind": "european" if mk["option"] == "EuropeanOption" else "lookback", "call": mk["call"],
                                                  "strike": float_bits(float(mk["strike"]))},
                     "adds": adds, "first": True, "crit": crit_spec,
                     "paths": [{"market": market_json(mk, p), "hedges": [instr(h_, p) for h_ in hspec]} for p in range(N)]})
        metas.append((case, float(loss.detach()), gflat, len(wpar)))
    ctx.extra["multi_cases"] = accepted
    ctx.extra["multi_rejected_near_kink"] = rejected
    try:
        outs = ctx.driver(reqs)
    except DriverBroken as e:
        ctx.ties_broken.append({"kind": "driver", "detail": str(e)[:1500]})
        outs = []
    for (case, loss, gflat, nw), mo in zip(metas, outs):
        if "ok" not in mo:
            ctx.disagree("grad_h", case, gflat, mo)
            continue
        ml, mg = float_of_bits(mo["ok"]["loss"]), dec_flt(mo["ok"]["grad"])
        tol = [1e-9] * len(mg)
        if nw:      # the criterion's own parameter (OCE's w; float32 in the implementation whatever the market's dtype)
            mg, tol = mg + [float_of_bits(mo["ok"]["grad_w"])], tol + [1e-5]
        scale = max(1.0, abs(loss), max([abs(x) for x in gflat] + [0.0]))
        if not abs(ml - loss) <= 1e-10 * scale:
            ctx.disagree("grad_h_loss_value", case, loss, ml)
        elif len(mg) != len(gflat) or any(not abs(a_ - b_) <= t_ * scale for a_, b_, t_ in zip(gflat, mg, tol)):
            ctx.disagree("grad_h", case, gflat, mg)


def check_fit_steps(ctx, torch, nn, Hedger):
    """The gradient the OPTIMISER is handed at every step of `fit` (the .grad of each parameter it owns at the moment its step() is called) is the
    gradient of THAT epoch's training loss at the parameter point of that epoch, on that epoch's simulated paths -- for every epoch (>= 2 epochs:
    nothing of an earlier epoch, or of a backward pass made before fit, is left in it) and for every parameter the optimiser owns, whether it is
    registered under the hedger module or not:
      * embed-instance : an optimiser INSTANCE over the model, the criterion and the network of a ModuleOutput feature (an input of the hedger,
                         NOT a sub-module of it unless it also lives in the model);
      * hedger-instance: an optimiser instance over hedger.parameters() (model + the criterion's own parameter, OCE's w);
      * class          : an optimiser CLASS (fit builds it over the model's parameters; a feature network is then constant).
    The optimiser is a recording subclass of SGD / Adam (lr zero and positive): step() stores the parameter point, the gradients present and the
    simulated buffers of the underlier, then performs the genuine step.  Afterwards every recorded epoch is rebuilt (parameters and buffers put
    back) and criterion(compute_portfolio(d), d.payoff()) -- what compute_loss evaluates -- is differentiated by autograd (every epoch) and by
    central finite differences (last epoch).  Scenarios within the feature / model language of the Lean op "grad_h" (no feature network) are
    also sent to it: the gradient recorded INSIDE fit vs the eps-parts of `lossOfH` on the recorded paths."""
    from pfhedge.instruments import BrownianStock, HestonStock, EuropeanOption, LookbackOption
    from pfhedge.features import ModuleOutput
    from pfhedge.nn.modules.loss import OCE
    g = Gen(f"{ctx.seed}:fit_steps")
    dt = torch.float64
    n = 20 if ctx.tier == "quick" else 240
    OWN = ["embed-instance", "embed-instance", "hedger-instance", "class", "embed-class"]
    CRITS = ["erm", "es", "eloss", "oce_exp", "mse", "oce_quad", "qcvar"]
    LEAN_CRITS = ("erm", "es", "eloss", "oce_exp", "oce_quad", "mse")
    reqs, metas = [], []
    for it in range(n):
        own = OWN[it % len(OWN)]
        critk = CRITS[(it // 2) % len(CRITS)]
        has_embed = own.startswith("embed")
        prim = g.choice(["BrownianStock", "BrownianStock", "HestonStock"])
        cost = g.choice([0.0, 2.0 ** -10, 2.0 ** -7])      # (dyadic: pl() passes the cost rates through a float32 tensor; the model keeps them as given)
        step = g.choice([1 / 250, 1 / 256])
        stock = BrownianStock(sigma=g.choice([0.2, 0.3]), cost=cost, dt=step, dtype=dt) if prim == "BrownianStock" else HestonStock(cost=cost, dt=step, dtype=dt)
        opt = g.choice([EuropeanOption, LookbackOption])
        strike = g.choice([1.0, 1.0, 0.98, 1.03])
        d = opt(stock, strike=strike, maturity=g.choice([3, 5]) * step)
        stateful = g.chance(0.6)
        names = ["moneyness", "time_to_maturity"] + g.choice([[], ["volatility"], ["log_moneyness"]])
        npaths = g.choice([4, 5, 8])
        n_epochs = g.choice([2, 3, 3, 4])
        a = g.choice([0.5, 1.0, 2.0])
        k = g.choice([1, 2, 3])
        w0, util = None, None
        if critk == "erm":
            crit, crit_spec = nn.EntropicRiskMeasure(a), ["erm", float_bits(a)]
        elif critk == "eloss":
            crit, crit_spec = nn.EntropicLoss(a), ["eloss", float_bits(a)]
        elif critk == "es":
            crit, crit_spec = nn.ExpectedShortfall(k / npaths), ["es", k]
        elif critk == "mse":
            crit, crit_spec = torch.nn.MSELoss(), ["mse"]
        elif critk == "qcvar":
            crit, crit_spec = nn.QuadraticCVaR(2.0), None
        else:
            w0 = g.choice([0.0, 0.25, -0.5])
            if critk == "oce_exp":
                util = ["exp", float_bits(a)]
                crit = OCE(lambda x, a_=a: 1 - (-(a_ * x)).exp())
            else:
                qa, qb = g.choice([-0.125, -0.0625, -0.25]), g.choice([1.0, 0.5])
                util = ["quad", float_bits(qa), float_bits(qb)]
                crit = OCE(lambda x, a_=qa, b_=qb: a_ * x * x + b_ * x)
            with torch.no_grad():
                crit.w.fill_(w0)
            crit_spec = None      # (w moves during fit: the specification is written per recorded epoch)
        torch.manual_seed(g.randint(0, 10 ** 6))
        base = names + (["prev_hedge"] if stateful else [])
        embed = None
        if has_embed:
            embed = torch.nn.Sequential(torch.nn.Linear(len(base), 2, dtype=dt), torch.nn.Tanh())
            feats = [ModuleOutput(embed, base), g.choice(["volatility", "moneyness"])] + (["prev_hedge"] if stateful and g.chance(0.5) else [])
        else:
            feats = base
        hidden = g.chance(0.4)
        width = len(feats) + (1 if has_embed else 0)      # (the feature network has two outputs)
        if hidden:
            model = torch.nn.Sequential(torch.nn.Linear(width, 2, dtype=dt), torch.nn.ReLU() if not has_embed else torch.nn.Tanh(), torch.nn.Linear(2, 1, dtype=dt))
        else:
            model = torch.nn.Linear(width, 1, dtype=dt)
        hedger = Hedger(model, feats, criterion=crit)
        allp = list(model.parameters()) + list(crit.parameters()) + (list(embed.parameters()) if embed is not None else [])
        okind, lr = g.choice([("SGD", 0.0), ("SGD", 0.05), ("Adam", 0.01)])
        validation = g.chance(0.4)
        stale = g.chance(0.4)          # a backward pass made by the user before fit leaves .grad on every parameter
        explicit_hedge = g.chance(0.3)
        log = []

        class Rec(getattr(torch.optim, okind)):
            def __init__(self, params, lr=lr):
                super().__init__(params, lr=lr)

            def step(self, closure=None):
                owned_ = [p_ for gr_ in self.param_groups for p_ in gr_["params"]]
                log.append({"point": [p_.detach().clone() for p_ in allp],
                            "grads": [torch.zeros_like(p_) if p_.grad is None else p_.grad.detach().clone() for p_ in owned_],
                            "buffers": {nm_: b_.detach().clone() for nm_, b_ in stock.named_buffers()}})
                return super().step(closure)
        if own == "embed-instance":
            optimizer = Rec(allp)
        elif own == "hedger-instance":
            optimizer = Rec(hedger.parameters())
        else:
            optimizer = Rec
        case = {"fit_steps": it, "optimizer": f"{okind}(lr={lr})", "owns": own, "criterion": critk, "a": a, "k": k, "w": w0, "features": [f_ if isinstance(f_, str) else "module_output(embed)" for f_ in feats],
                "embed_inputs": base if has_embed else None, "hidden": hidden, "n_paths": npaths, "n_epochs": n_epochs, "validation": validation,
                "stale_grad_before_fit": stale, "explicit_hedge": explicit_hedge, "primary": prim, "option": opt.__name__, "cost": cost, "strike": strike,
                "dt": step, "maturity": d.maturity}
        ctx.case(case, True, tag="fit_steps")
        ctx.stats[f"fit_steps:owns={own}"] += 1
        ctx.stats[f"fit_steps:crit={critk}"] += 1
        if stale:
            st, res, _ = call_impl(lambda: hedger.compute_loss(d, n_paths=npaths).backward())
            if st != "ok":
                ctx.fail("compute_loss().backward() raised", case, key="fit-step:error", detail=res)
                continue
        seed = g.randint(0, 10 ** 6)
        torch.manual_seed(seed)
        kw = {"hedge": [stock]} if explicit_hedge else {}
        st, res, _ = call_impl(hedger.fit, d, n_epochs=n_epochs, n_paths=npaths, n_times=g.choice([1, 2]), optimizer=optimizer, verbose=False,
                               validation=validation, **kw)
        if st != "ok":
            ctx.fail("fit raised", case | {"seed": seed}, key="fit-step:error", detail=res)
            continue
        if len(log) != n_epochs:
            ctx.fail("fit did not call the optimiser's step() once per epoch", case | {"seed": seed}, key="fit-step:steps", detail=len(log))
            continue
        owned = list(hedger.parameters()) if own == "hedger-instance" else allp if own == "embed-instance" else list(model.parameters())
        ptol = []
        for p_ in owned:      # OCE's own parameter w is float32 whatever the market's dtype
            ptol += [1e-9 if p_.dtype == torch.float64 else 1e-5] * p_.numel()

        def flat(gs):
            out = []
            for p_, gr in zip(owned, gs):
                out += ([0.0] * p_.numel() if gr is None else [float(x) for x in gr.reshape(-1).tolist()])
            return out

        def loss_fn():
            pf = hedger.compute_portfolio(d, **kw)
            return crit(pf, d.payoff())
        hedger.train()
        ctx.traces += 1
        for ep, rec in enumerate(log):
            with torch.no_grad():
                for p_, v_ in zip(allp, rec["point"]):
                    p_.copy_(v_)
            for nm_, b_ in rec["buffers"].items():
                stock.register_buffer(nm_, b_.clone())
            got = flat(rec["grads"])
            st, loss, _ = call_impl(loss_fn)
            gs = loss
            if st == "ok":      # (a loss without graph moves no parameter: zero gradient)
                st, gs, _ = (call_impl(torch.autograd.grad, loss, owned, allow_unused=True) if loss.requires_grad else ("ok", [None] * len(owned), []))
            if st != "ok":
                ctx.fail("recomputing the training loss of an epoch of fit on its recorded paths raised", case | {"seed": seed, "epoch": ep}, key="fit-step:error",
                         detail=gs)
                break
            want = flat(gs)
            lossv = float(loss.detach())
            scale = max(1.0, abs(lossv), max(abs(x) for x in want))
            badi = [i for i, (a_, b_, t_) in enumerate(zip(got, want, ptol)) if not abs(a_ - b_) <= t_ * scale]
            if badi:
                ctx.fail("the gradient present at an optimiser step of fit is not the gradient of that epoch's training loss (autograd of "
                         "criterion(compute_portfolio, payoff) at the epoch's parameter point on the epoch's recorded paths)",
                         case | {"seed": seed, "epoch": ep}, key=f"fit-step:autograd:{own}", detail={"in_fit": got, "of_the_loss": want, "params": badi})
                break
            if ep + 1 < len(log):
                continue
            # ---- last epoch: central finite differences of the loss on the recorded paths
            for h, hs_ in ((2.0 ** -20, 2.0 ** -12), (2.0 ** -28, 2.0 ** -16)):
                fd = []
                with torch.no_grad():
                    for p_ in owned:
                        fl = p_.view(-1)
                        hh = h if p_.dtype == torch.float64 else hs_      # (steps that are exact in float32 for OCE's w)
                        for i in range(fl.numel()):
                            old = fl[i].clone()
                            fl[i] = old + hh
                            up, lp = float(fl[i]), float(loss_fn())
                            fl[i] = old - hh
                            dn, lm = float(fl[i]), float(loss_fn())
                            fl[i] = old
                            fd.append((lp - lm) / (up - dn))      # (the step actually made: w has moved off the float32 grid of hh)
                scale = max(1.0, max(abs(x) for x in fd), abs(lossv))
                tol = 2e-5 if h > 1e-7 else 1e-3
                badi = [i for i, (a_, b_) in enumerate(zip(got, fd)) if not abs(a_ - b_) <= tol * scale]
                if not badi or not all(math.isfinite(x) for x in got):
                    break
            if badi:
                ctx.fail("the gradient present at the last optimiser step of fit differs from the derivative of that epoch's training loss (finite differences "
                         "at the epoch's parameter point on the epoch's recorded paths)", case | {"seed": seed, "epoch": ep}, key=f"fit-step:fd:{own}",
                         detail={"in_fit": got, "finite_difference": fd, "params": badi})
                break
            # ---- model (dual numbers), op "grad_h", on the recorded paths of the last epoch: no feature network, a criterion of `CritH`
            if has_embed or critk not in LEAN_CRITS:
                continue
            spot = rec["buffers"]["spot"]
            N, T = spot.shape
            if "variance" in rec["buffers"]:
                var = rec["buffers"]["variance"]
                vol = var.clamp(min=0.0).sqrt()
            else:
                vol = torch.full_like(spot, float(stock.sigma))
                var = vol * vol
            mk = {"T": T, "spot": spot.tolist(), "var": var.tolist(), "vol": vol.tolist(), "listed": (1.0, 0.0), "dt": step, "strike": strike}
            lins = [m_ for m_ in model.modules() if isinstance(m_, torch.nn.Linear)]
            layers = [{"w": enc_flt(l_.weight.detach().tolist()), "b": enc_flt(l_.bias.detach().tolist())} for l_ in lins]
            cspec = crit_spec if w0 is None else ["oce", util, float_bits(float(crit.w.detach()))]
            reqs.append({"op": "grad_h", "features": [feature_json(nm) for nm in base], "layers": layers,
                         "payoff": {"kind": "european" if opt is EuropeanOption else "lookback", "call": True, "strike": float_bits(strike)},
                         "adds": [], "first": True, "crit": cspec,
                         "paths": [{"market": market_json(mk, p), "hedges": [{"kind": "primary", "row": enc_flt(mk["spot"][p]), "cost": float_bits(cost)}]}
                                   for p in range(N)]})
            by_id = {id(p_): gr for p_, gr in zip(owned, rec["grads"])}
            gm = [float(x) for p_ in model.parameters() for x in by_id[id(p_)].reshape(-1).tolist()]
            gw = float(by_id[id(crit.w)]) if w0 is not None and id(crit.w) in by_id else None
            metas.append((case | {"seed": seed, "epoch": ep}, lossv, gm, gw))
    ctx.extra["fit_step_scenarios"] = n
    ctx.extra["fit_step_scenarios_sent_to_grad_h"] = len(reqs)
    try:
        outs = ctx.driver(reqs) if reqs else []
    except DriverBroken as e:
        ctx.ties_broken.append({"kind": "driver", "detail": str(e)[:1500]})
        outs = []
    for (case, loss, gm, gw), mo in zip(metas, outs):
        if "ok" not in mo:
            ctx.disagree("grad_h_fit_step", case, gm, mo)
            continue
        ml, mg = float_of_bits(mo["ok"]["loss"]), dec_flt(mo["ok"]["grad"])
        scale = max(1.0, abs(loss), max([abs(x) for x in gm] + [0.0]))
        if not abs(ml - loss) <= 1e-10 * scale:
            ctx.disagree("grad_h_fit_step_loss_value", case, loss, ml)
        elif len(mg) != len(gm) or any(not abs(a_ - b_) <= 1e-9 * scale for a_, b_ in zip(gm, mg)):
            ctx.disagree("grad_h_fit_step", case, gm, mg)
        elif gw is not None and not abs(gw - float_of_bits(mo["ok"]["grad_w"])) <= 1e-5 * scale:
            ctx.disagree("grad_h_fit_step", case, gw, float_of_bits(mo["ok"]["grad_w"]))


def check_grad_mode(ctx, torch, nn, Hedger):
    """Every entry point of the hedger that evaluates under a grad mode of its own -- price() (evaluation-only by default), price(enable_grad=True),
    compute_loss(enable_grad=False), compute_loss(), fit (training steps; validation losses) -- called so that an EXCEPTION passes through it, caught by
    the caller (several ways: hedging instruments of different sizes, an invalid init_state, a criterion without cash amount, a user criterion that
    rejects its first / a later evaluation (an aborted search for the cash amount, a later member of an ensemble, a later epoch), a user model that
    raises at a later time step / member, an interrupt (a BaseException) -- and, as a control, not at all), under both ambient modes (gradients enabled /
    inside the caller's torch.no_grad() block).  A deterministic corpus: every entry point x way x ambient mode, on every tier; market, features,
    model, criterion drawn from an own generator.  Predicates, in the ambient block right after the call:
      * torch.is_grad_enabled() equals the mode before the call;
      * the hedging loss the caller then builds on an (injected) market from compute_pl + criterion carries no graph inside the caller's no_grad block
        ("losses with gradients disabled carry no graph"), and with gradients enabled has the back-propagated gradient of its finite differences on
        the same paths (a loss without graph moves no parameter: zero gradient) -- and of the Lean op "grad_h" (one primary instrument).
    The global grad mode is put back in a finally block of the harness after every scenario: a detected failure does not reach the rest of the run."""
    from pfhedge.instruments import BrownianStock
    g = Gen(f"{ctx.seed}:grad_mode")      # (own generator: the cases of the other parts do not move)
    dt = torch.float64
    outer = torch.is_grad_enabled()

    class Rejected(RuntimeError):
        pass

    class Interrupt(BaseException):
        """(stands for a KeyboardInterrupt in an interactive session; an own class, so that a genuine one is never swallowed here)"""

    class Fuse:
        """raises at the `after`-th evaluation of the module that owns it (counted in evaluation mode only when `eval_only`); None: never"""
        def __init__(self):
            self.after, self.count, self.eval_only, self.exc = None, 0, False, Rejected

        def tick(self, training):
            if self.after is None or (self.eval_only and training):
                return
            self.count += 1
            if self.count >= self.after:
                raise self.exc("the user's module rejects this evaluation")

    class FusedModel(torch.nn.Module):
        def __init__(self, inner, fuse):
            super().__init__()
            self.inner, self.fuse = inner, fuse

        def forward(self, input):
            self.fuse.tick(self.training)
            return self.inner(input)

    class FusedCriterion(nn.HedgeLoss):
        """user criterion wrapping a built-in one (cash amount: HedgeLoss's default search)"""
        def __init__(self, inner, fuse):
            super().__init__()
            self.inner, self.fuse = inner, fuse

        def forward(self, input, target=0.0):
            self.fuse.tick(self.training)
            return self.inner(input, target)
    FUSED = ("criterion-first", "criterion-later", "model-later", "interrupt")
    WAYS = ("none", "hedge-mismatch", "init-state", "no-cash") + FUSED
    ENTRIES = ("price", "price-enable", "compute_loss-noenable", "compute_loss", "fit-training", "fit-validation")
    corpus = [(e_, w_, amb) for e_ in ENTRIES for w_ in WAYS for amb in (True, False)
              if not (w_ == "no-cash" and not e_.startswith("price")) and not (e_ == "fit-validation" and w_ not in FUSED)]
    reqs, metas = [], []
    for idx, (entry, way, ambient) in enumerate(corpus):
        mk = gen_market(g, N=g.choice([3, 4, 5]), T=g.choice([2, 3, 4, 5]), primary=g.choice(["BrownianStock", "HestonStock"]))
        mk["cost"] = F(g.choice([0, 4, 16, 32]), 256)
        mk["option"] = g.choice(["EuropeanOption", "LookbackOption"])
        N, T = mk["N"], mk["T"]
        stateful = g.chance(0.5)
        names = [g.choice(["moneyness", "time_to_maturity", "volatility", "max_moneyness", "underlier_spot", "variance"]) for _ in range(g.choice([1, 2]))]
        thr = g.choice([x for p in mk["spot"] for x in p])
        ms = gen_linear(g, len(names) + (1 if stateful else 0), 1, relu=False)
        critk = "mse" if way == "no-cash" else g.choice(["erm", "es", "eloss"])
        a = g.choice([0.5, 1.0, 2.0])
        k = min(g.choice([1, 2, 4]), N) if critk == "es" else None
        d, u = build_derivative(torch, mk)
        feats = [feature_obj(torch, nm, mk, thr) for nm in names] + (["prev_hedge"] if stateful else [])
        inner = model_obj(torch, ms)
        if critk == "erm":
            crit0, crit_spec = nn.EntropicRiskMeasure(a), ["erm", float_bits(a)]
        elif critk == "eloss":
            crit0, crit_spec = nn.EntropicLoss(a), ["eloss", float_bits(a)]
        elif critk == "es":
            crit0, crit_spec = nn.ExpectedShortfall(k / N), ["es", k]
        else:
            crit0, crit_spec = torch.nn.MSELoss(), ["mse"]
        fuse = Fuse()
        model = FusedModel(inner, fuse) if way in ("model-later", "interrupt") else inner
        crit = FusedCriterion(crit0, fuse) if way in ("criterion-first", "criterion-later") else crit0
        hedger = Hedger(model, feats, criterion=crit)
        params = list(inner.parameters())
        npaths, later = g.choice([4, 6, 7]), g.choice([2, 3])
        kw = {"n_paths": npaths, "n_times": 3}
        arg = None
        if way == "hedge-mismatch":
            other = BrownianStock(dt=float(mk["dt"]), dtype=dt)
            other.simulate(n_paths=npaths + g.choice([1, 3]), time_horizon=(T - 1) * float(mk["dt"]))
            kw["hedge"] = [u, other]
            arg = f"hedge=[underlier, a primary with {other.spot.size(0)} paths]"
        elif way == "init-state":
            arg, bad = g.choice([("('a',)", ("a",)), ("()", ()), ("(None,)", (None,)), ("(a tensor of n_paths + 1 entries,)", (torch.ones(npaths + 1, dtype=dt),))])
            kw["init_state"] = bad
        if way in FUSED:
            fuse.after = 1 if way in ("criterion-first", "interrupt") else later
            fuse.eval_only = entry == "fit-validation"
            fuse.exc = Interrupt if way == "interrupt" else Rejected
        if entry.startswith("fit"):
            del kw["n_times"]
            kw |= {"n_epochs": 3, "verbose": False, "validation": entry == "fit-validation" or way == "none", "n_times": 3}
        case = {"grad_mode": idx, "entry_point": entry, "exception": way, "argument": arg, "raises_at_evaluation": fuse.after,
                "ambient": "gradients enabled" if ambient else "inside torch.no_grad()", "call": {k_: v_ for k_, v_ in kw.items() if k_ not in ("hedge", "init_state")},
                "features": names, "stateful": stateful, "model": model_json(ms), "crit": critk, "a": a, "k": k, "option": mk["option"],
                "primary": mk["primary"], "N": N, "T": T, "spot": enc_rat(mk["spot"]), "vol": enc_rat(mk["vol"]), "cost": rat_str(mk["cost"]),
                "strike": rat_str(mk["strike"]), "dt": rat_str(mk["dt"]), "thr": rat_str(thr)}
        ctx.case(case, True, tag="grad_mode")
        ctx.stats[f"grad_mode:entry={entry}"] += 1
        ctx.stats[f"grad_mode:exception={way}"] += 1

        def call():
            if entry == "price":
                return hedger.price(d, **kw)
            if entry == "price-enable":
                return hedger.price(d, enable_grad=True, **kw)
            if entry == "compute_loss-noenable":
                return hedger.compute_loss(d, enable_grad=False, **kw)
            if entry == "compute_loss":
                return hedger.compute_loss(d, **kw)
            return hedger.fit(d, **kw)

        def loss_fn():
            if critk == "mse":      # (a torch loss: the two-argument form)
                return crit(hedger.compute_portfolio(d), d.payoff())
            return crit(hedger.compute_pl(d))
        torch.manual_seed(g.randint(0, 10 ** 6))
        loss = grads = None
        try:
            with torch.set_grad_enabled(ambient):
                before = torch.is_grad_enabled()
                try:
                    call()
                    raised = None
                except (Exception, Interrupt) as e:  # noqa   (what the caller does: catch, go on)
                    raised = type(e).__name__
                after = torch.is_grad_enabled()
                # ---- the hedging loss the caller builds next, in the state the call left behind
                fuse.after = None
                hedger.train()
                inject(torch, u, mk)
                st, loss, _ = call_impl(loss_fn)
                if st == "ok" and ambient:
                    st, grads, _ = (call_impl(torch.autograd.grad, loss, params, allow_unused=True) if loss.requires_grad else ("ok", [None] * len(params), []))
        finally:
            torch.set_grad_enabled(outer)
        ctx.stats[f"grad_mode:raised={raised is not None}"] += 1
        ctx.traces += 1
        case = case | {"raised": raised}
        if after != before:
            ctx.fail(f"after {'an exception passed through' if raised else 'a call of'} {entry.split('-')[0]}"
                     + ("(enable_grad=True)" if entry == "price-enable" else "(enable_grad=False)" if entry == "compute_loss-noenable" else "()")
                     + (f" [{entry}]" if entry.startswith("fit") else "") + f" the caller's grad mode is not restored: torch.is_grad_enabled() was {before} before the "
                     f"call and is {after} after it", case, key=f"gradmode:{'after-exception' if raised else 'after-call'}:{entry}",
                     detail={"before": before, "after": after, "exception": raised})
        if st != "ok":
            ctx.fail("computing / back-propagating the hedging loss criterion(compute_pl(derivative)) after the call raised", case, key=f"gradmode:loss-error:{entry}",
                     detail=loss if grads is None else grads)
            continue
        if not ambient:
            if loss.requires_grad or loss.grad_fn is not None:
                ctx.fail(f"a hedging loss built inside the caller's torch.no_grad() block (compute_pl + criterion) carries a graph after "
                         f"{'an exception passed through' if raised else 'a call of'} {entry}", case, key=f"graph:after-exception:{entry}", detail={"exception": raised})
            continue
        gflat = []
        for p_, gr in zip(params, grads):
            gflat += ([0.0] * p_.numel() if gr is None else [float(x) for x in gr.reshape(-1).tolist()])
        # generic point?  (as in the main loop)
        with torch.no_grad():
            unit = hedger.compute_hedge(d)
            kink = bool((unit.diff(dim=-1).abs()[..., :-1] < 2 ** -20).any()) if mk["cost"] > 0 and T > 2 else False
            kink = kink or (mk["cost"] > 0 and bool((unit[..., 0].abs() < 2 ** -20).any()))
            if critk == "es" and k < N:
                plv = hedger.compute_pl(d).sort().values
                kink = kink or bool((plv[k] - plv[k - 1]).abs() < 2 ** -20)
        if kink:
            ctx.stats["grad_mode:rejected_near_kink"] += 1
            continue
        lossv = float(loss.detach())
        for h, tol in ((2.0 ** -20, 2e-5), (2.0 ** -30, 1e-3)):
            fd = []
            with torch.no_grad():
                for p_ in params:
                    fl = p_.view(-1)
                    for i in range(fl.numel()):
                        old = float(fl[i])
                        fl[i] = old + h
                        lp = float(loss_fn())
                        fl[i] = old - h
                        lm = float(loss_fn())
                        fl[i] = old
                        fd.append((lp - lm) / (2 * h))
            scale = max(1.0, max(abs(x) for x in fd), abs(lossv))
            badi = [i for i, (a_, b_) in enumerate(zip(gflat, fd)) if not abs(a_ - b_) <= tol * scale]
            if not badi:
                break
        if badi:
            ctx.fail(f"the hedging loss built from compute_pl + criterion after {'an exception passed through' if raised else 'a call of'} {entry} "
                     + ("carries no graph although gradients were enabled before that call (its finite differences on the same paths are not zero)"
                        if not loss.requires_grad else "has a back-propagated gradient that differs from its finite differences on the same paths"),
                     case, key=f"grad:after-exception:{entry}", detail={"autograd": gflat, "finite_difference": fd, "params": badi, "requires_grad": bool(loss.requires_grad)})
        # ---- model (dual numbers), op "grad_h": one primary hedging instrument, the model computes the payoff
        reqs.append({"op": "grad_h", "features": [feature_json(nm, thr) for nm in names] + ([["prev_hedge"]] if stateful else []),
                     "layers": [{"w": enc_flt(l_.weight.detach().tolist()), "b": enc_flt(l_.bias.detach().tolist())}      # (fit has moved the parameters)
                                for l_ in inner.modules() if isinstance(l_, torch.nn.Linear)],
                     "payoff": {"kind": "european" if mk["option"] == "EuropeanOption" else "lookback", "call": mk["call"], "strike": float_bits(float(mk["strike"]))},
                     "adds": [], "first": True, "crit": crit_spec,
                     "paths": [{"market": market_json(mk, p), "hedges": [{"kind": "primary", "row": enc_flt([float(x) for x in mk["spot"][p]]),
                                                                          "cost": float_bits(float(mk["cost"]))}]} for p in range(N)]})
        metas.append((case, lossv, gflat))
    ctx.extra["grad_mode_scenarios"] = len(corpus)
    ctx.extra["grad_mode_scenarios_sent_to_grad_h"] = len(reqs)
    try:
        outs = ctx.driver(reqs) if reqs else []
    except DriverBroken as e:
        ctx.ties_broken.append({"kind": "driver", "detail": str(e)[:1500]})
        outs = []
    for (case, loss, gflat), mo in zip(metas, outs):
        if "ok" not in mo:
            ctx.disagree("grad_h_after_exception", case, gflat, mo)
            continue
        ml, mg = float_of_bits(mo["ok"]["loss"]), dec_flt(mo["ok"]["grad"])
        scale = max(1.0, abs(loss), max([abs(x) for x in gflat] + [0.0]))
        if not abs(ml - loss) <= 1e-10 * scale:
            ctx.disagree("grad_h_after_exception_loss_value", case, loss, ml)
        elif len(mg) != len(gflat) or any(not abs(a_ - b_) <= 1e-9 * scale for a_, b_ in zip(gflat, mg)):
            ctx.disagree("grad_h_after_exception", case, gflat, mg)


def check(ctx):
    torch, pfhedge = import_impl()
    import pfhedge.nn as nn
    from pfhedge.nn import Hedger
    g = ctx.gen
    ctx.lean_gate()
    dt = torch.float64
    n = 300 if ctx.tier == "quick" else 3000
    reqs, metas, reqs_h = [], [], []
    rejected = 0
    for it in range(n):
        mk = gen_market(g, N=g.choice([2, 3, 4, 5]), T=g.choice([2, 3, 4, 5]), primary=g.choice(["BrownianStock", "HestonStock"]))
        mk["cost"] = F(g.choice([0, 0, 4, 16, 32]), 256)
        mk["option"] = g.choice(["EuropeanOption", "LookbackOption"])
        stateful = g.chance(0.5)
        names = [g.choice(["moneyness", "time_to_maturity", "volatility", "max_moneyness", "barrier_up", "underlier_spot", "variance"])
                 for _ in range(g.choice([1, 2]))]
        thr = g.choice([x for p in mk["spot"] for x in p])
        width = len(names) + (1 if stateful else 0)
        relu = g.chance(0.4)
        if relu:
            ms = gen_mlp(g, width, 1)
        else:
            ms = gen_linear(g, width, 1, relu=False)
        critk = g.choice(["erm", "es", "eloss", "mse", "mean"])
        N, T = mk["N"], mk["T"]
        a = g.choice([0.5, 1.0, 2.0])
        k = g.choice([1, 2, 4]) if critk == "es" else None
        if critk == "es":
            k = min(k, N)
        d, u = build_derivative(torch, mk)
        feats = [feature_obj(torch, nm, mk, thr) for nm in names] + (["prev_hedge"] if stateful else [])
        model = model_obj(torch, ms)
        if critk == "erm":
            crit = nn.EntropicRiskMeasure(a)
        elif critk == "eloss":
            crit = nn.EntropicLoss(a)
        elif critk == "es":
            crit = nn.ExpectedShortfall(k / N)
        elif critk == "mse":
            crit = torch.nn.MSELoss()
        else:
            class NegMean(nn.HedgeLoss):
                def forward(self, input, target=0.0):
                    return -(input - target).mean(0)
            crit = NegMean()
        hedger = Hedger(model, feats, criterion=crit)
        case = {"features": names, "stateful": stateful, "model": model_json(ms), "crit": critk, "a": a, "k": k, "option": mk["option"],
                "primary": mk["primary"], "N": N, "T": T, "spot": enc_rat(mk["spot"]), "vol": enc_rat(mk["vol"]), "cost": rat_str(mk["cost"]),
                "strike": rat_str(mk["strike"]), "dt": rat_str(mk["dt"]), "thr": rat_str(thr)}
        params = list(model.parameters())

        def loss_fn():
            pf = hedger.compute_portfolio(d)
            return crit(pf, d.payoff())
        inject(torch, u, mk)
        st, loss, _ = call_impl(loss_fn)
        if st != "ok":
            ctx.case(case, False, tag="grad")
            ctx.fail("computing the hedging loss raised", case, key="grad:loss-error", detail=loss)
            continue
        st, grads, _ = call_impl(torch.autograd.grad, loss, params, allow_unused=True)
        if st != "ok":
            ctx.case(case, False, tag="grad")
            ctx.fail("back-propagating the hedging loss raised", case, key="grad:backward-error", detail=grads)
            continue
        gflat = []
        for p, gr in zip(params, grads):
            gflat += ([0.0] * p.numel() if gr is None else [float(x) for x in gr.reshape(-1).tolist()])
        # generic point?  reject cases within 2^-20 of a kink (|position change|, ReLU, ES tie, max/relu in payoff don't involve params)
        with torch.no_grad():
            unit = hedger.compute_hedge(d)
            dchg = unit.diff(dim=-1).abs()
            kink = bool((dchg[..., :-1] < 2 ** -20).any()) if mk["cost"] > 0 and T > 2 else False
            kink = kink or (mk["cost"] > 0 and bool((unit[..., 0].abs() < 2 ** -20).any()))
            if relu:
                pre_min = [float("inf")]

                def hook(mod, inp):
                    pre_min[0] = min(pre_min[0], float(inp[0].abs().min()))
                hs = [m_.register_forward_pre_hook(hook) for m_ in model.modules() if isinstance(m_, torch.nn.ReLU)]
                hedger.compute_hedge(d)
                for h_ in hs:
                    h_.remove()
                kink = kink or pre_min[0] < 2 ** -20
            if critk == "es" and k < N:
                plv = (hedger.compute_portfolio(d) - d.payoff()).sort().values
                kink = kink or bool((plv[k] - plv[k - 1]).abs() < 2 ** -20)
        ctx.stats[f"crit={critk}"] += 1
        ctx.stats[f"stateful={stateful}"] += 1
        ctx.stats[f"cost>0={mk['cost'] > 0}"] += 1
        ctx.stats[f"relu={relu}"] += 1
        if kink:
            rejected += 1
            ctx.stats["rejected_near_kink"] += 1
            continue
        ctx.case(case, nontrivial=(mk["cost"] > 0 or stateful), tag="grad")
        ctx.traces += 1
        # ---- predicate: central finite differences of the REAL loss on the same paths (h = 2^-20)
        h = 2.0 ** -20
        fd = []
        with torch.no_grad():
            for p in params:
                flat = p.view(-1)
                for i in range(flat.numel()):
                    old = float(flat[i])
                    flat[i] = old + h
                    lp = float(loss_fn())
                    flat[i] = old - h
                    lm = float(loss_fn())
                    flat[i] = old
                    fd.append((lp - lm) / (2 * h))
        scale = max(1.0, max(abs(x) for x in fd), abs(float(loss.detach())))
        badi = [i for i, (a_, b_) in enumerate(zip(gflat, fd)) if abs(a_ - b_) > 2e-5 * scale]
        if badi:
            # a ReLU / |.| kink between theta-h and theta+h makes the difference quotient unreliable: retry with a smaller step
            h2 = 2.0 ** -30
            fd2 = []
            with torch.no_grad():
                for p in params:
                    flat = p.view(-1)
                    for i in range(flat.numel()):
                        old = float(flat[i])
                        flat[i] = old + h2
                        lp = float(loss_fn())
                        flat[i] = old - h2
                        lm = float(loss_fn())
                        flat[i] = old
                        fd2.append((lp - lm) / (2 * h2))
            badi = [i for i in badi if abs(gflat[i] - fd2[i]) > 1e-3 * scale]
        if badi:
            ctx.fail("the back-propagated gradient of the hedging loss differs from the derivative of the loss (finite differences on the same paths)",
                     case, key=f"grad:{'stateful' if stateful else 'batched'}:{critk}", detail={"autograd": gflat, "finite_difference": fd, "params": badi})
        check_cash_gradient(ctx, torch, hedger, d, crit, critk, a, params, None, loss, gflat, case, "grad")
        # ---- model (dual numbers)
        crit_spec = {"erm": ["erm", float_bits(a)], "eloss": ["eloss", float_bits(a)], "es": ["es", k], "mse": ["mse"], "mean": ["mean"]}[critk]
        layers = [{"w": enc_flt([[float(x) for x in r] for r in l["w"]]), "b": enc_flt([float(x) for x in l["b"]])}
                  for l in (ms["layers"] if ms["kind"] == "mlp" else [ms])]
        with torch.no_grad():
            pay = [float(x) for x in d.payoff().tolist()]
        reqs.append({"op": "grad", "paths": [market_json(mk, p) for p in range(N)],
                     "features": [feature_json(nm, thr) for nm in names] + ([["prev_hedge"]] if stateful else []),
                     "layers": layers, "cost": float_bits(float(mk["cost"])), "payoffs": enc_flt(pay), "crit": crit_spec, "n": T})
        metas.append((case, float(loss.detach()), gflat))
        # the same scenario for the op "grad_h" (`lossOfH` = `hedgerPL` on every path + criterion, the definitions the H >= 1 theorems are about):
        # one primary hedging instrument (the derivative's own underlier); here the MODEL computes the payoff from the option's specification
        reqs_h.append({"op": "grad_h", "features": reqs[-1]["features"], "layers": layers,
                       "payoff": {"kind": "european" if mk["option"] == "EuropeanOption" else "lookback", "call": mk["call"],
                                  "strike": float_bits(float(mk["strike"]))},
                       "adds": [], "first": True, "crit": crit_spec,
                       "paths": [{"market": market_json(mk, p), "hedges": [{"kind": "primary", "row": enc_flt([float(x) for x in mk["spot"][p]]),
                                                                            "cost": float_bits(float(mk["cost"]))}]} for p in range(N)]})
    ctx.extra["rejected_near_kink"] = rejected
    try:
        outs = ctx.driver(reqs)
        outs_h = ctx.driver(reqs_h)
    except DriverBroken as e:
        ctx.ties_broken.append({"kind": "driver", "detail": str(e)[:1500]})
        outs, outs_h = [], []
    for (case, loss, gflat), mo, mh in zip(metas, outs, outs_h):
        if "ok" not in mo:
            ctx.disagree("grad", case, gflat, mo)
            continue
        ml, mg = float_of_bits(mo["ok"]["loss"]), dec_flt(mo["ok"]["grad"])
        scale = max(1.0, abs(loss), max([abs(x) for x in gflat] + [0.0]))
        if abs(ml - loss) > 1e-10 * scale:
            ctx.disagree("grad_loss_value", case, loss, ml)
        elif len(mg) != len(gflat) or any(abs(a_ - b_) > 1e-9 * scale for a_, b_ in zip(gflat, mg)):
            ctx.disagree("grad", case, gflat, mg)
        # "grad_h" on the same scenario: against the implementation (same tolerances) and against "grad"
        ctx.stats["grad_h:H=1"] += 1
        if "ok" not in mh:
            ctx.disagree("grad_h", case, gflat, mh)
            continue
        hl, hg = float_of_bits(mh["ok"]["loss"]), dec_flt(mh["ok"]["grad"])
        if not abs(hl - loss) <= 1e-10 * scale:
            ctx.disagree("grad_h_loss_value", case, loss, hl)
        elif len(hg) != len(gflat) or any(not abs(a_ - b_) <= 1e-9 * scale for a_, b_ in zip(gflat, hg)):
            ctx.disagree("grad_h", case, gflat, hg)
        elif len(hg) != len(mg) or not abs(hl - ml) <= 1e-10 * scale or any(not abs(a_ - b_) <= 1e-9 * scale for a_, b_ in zip(mg, hg)):
            ctx.disagree("grad_vs_grad_h", case, [ml] + mg, [hl] + hg)
    check_multi(ctx, torch, nn, Hedger)
    check_fit_steps(ctx, torch, nn, Hedger)
    check_grad_mode(ctx, torch, nn, Hedger)
    import ext_gradmode
    ext_gradmode.run(ctx, ctx.gen.__class__(f"{ctx.seed}:ext_gradmode"))     # the switch over histories of calls (Model/GradMode, op grad_mode)
    # ---------------- evaluation-only quantities carry no graph; ensembles (n_times >= 2) have the gradient of their mean
    from pfhedge.instruments import BrownianStock, HestonStock, EuropeanOption, LookbackOption
    from pfhedge.nn.modules.loss import OCE

    def exp_utility(x):
        return 1 - (-x).exp()

    class Shifted(nn.HedgeLoss):
        """user criterion wrapping a built-in one (keeps the isoelastic utility on positive wealth)"""
        def __init__(self, inner, shift):
            super().__init__()
            self.inner, self.shift = inner, shift

        def forward(self, input, target=0.0):
            return self.inner(input + self.shift, target)
    CRITS = [("erm", lambda: nn.EntropicRiskMeasure(1.0)), ("es", lambda: nn.ExpectedShortfall(0.5)), ("eloss", lambda: nn.EntropicLoss(2.0)),
             ("qcvar", lambda: nn.QuadraticCVaR(2.0)), ("oce", lambda: OCE(exp_utility)), ("iso", lambda: Shifted(nn.IsoelasticLoss(0.5), 10.0)),
             ("isolog", lambda: Shifted(nn.IsoelasticLoss(1.0), 10.0))]

    class BandNet(torch.nn.Module):
        """no-transaction-band strategy: the previous position clamped by pfhedge's Clamp / LeakyClamp into
        [delta - act(f(x)), delta + act(g(x))] around the Black-Scholes delta.  The trainable parameters of (f, g) reach the loss ONLY through
        the tensor-valued bounds of the clamp (and the recurrent input).  `margin` records the distance to the nearest kink (a position on a band
        edge, an empty/inverted band edge-on-edge, a zero pre-activation of a piecewise-linear activation) over the forward calls since reset"""
        def __init__(self, derivative, clamp, act, hidden):
            super().__init__()
            self.delta = nn.BlackScholes(derivative)
            w = len(self.delta.inputs())
            if hidden:
                self.net = torch.nn.Sequential(torch.nn.Linear(w, 2, dtype=dt), torch.nn.Tanh(), torch.nn.Linear(2, 2, dtype=dt))
            else:
                self.net = torch.nn.Sequential(torch.nn.Linear(w, 2, dtype=dt))
            self.clamp, self.act, self.margin = clamp, act, float("inf")

        def inputs(self):
            return self.delta.inputs() + ["prev_hedge"]

        def forward(self, input):
            prev, x = input[..., [-1]], input[..., :-1]
            delta = self.delta(x)
            pre = self.net(x)
            if self.act == "softplus":
                wd = torch.nn.functional.softplus(pre)
            elif self.act == "leaky_relu":
                wd = torch.nn.functional.leaky_relu(pre, 0.01)
            else:
                wd = torch.relu(pre)
            lower, upper = delta - wd[..., [0]], delta + wd[..., [1]]
            with torch.no_grad():
                ds = [(prev - lower).abs().min(), (prev - upper).abs().min(), (upper - lower).abs().min()]
                if self.act != "softplus":
                    ds.append(pre.abs().min())
                self.margin = min([self.margin] + [float(x_) for x_ in ds])
            return self.clamp(prev, min=lower, max=upper)

    class MarkedUpBS(torch.nn.Module):
        """Black-Scholes delta at a trainable strike shift and volatility mark-up (Leland-type): the parameters reach the loss ONLY through the
        inputs of pfhedge's BlackScholes module; with prev_hedge among the inputs, a trainable partial adjustment towards that delta"""
        def __init__(self, derivative, recurrent, shift, log_markup, mix):
            super().__init__()
            self.bs = nn.BlackScholes(derivative)
            self.names, self.recurrent = list(self.bs.inputs()), recurrent
            self.shift = torch.nn.Parameter(torch.tensor(shift, dtype=dt))
            self.log_markup = torch.nn.Parameter(torch.tensor(log_markup, dtype=dt))
            if recurrent:
                self.mix = torch.nn.Parameter(torch.tensor(mix, dtype=dt))

        def inputs(self):
            return self.names + (["prev_hedge"] if self.recurrent else [])

        def forward(self, input):
            cols = []
            for i, nm in enumerate(self.names):
                c = input[..., [i]]
                if nm.endswith("log_moneyness"):       # log_moneyness and (lookback) max_log_moneyness: the same shift of the strike
                    c = c + self.shift
                elif nm == "volatility":
                    c = c * self.log_markup.exp()
                cols.append(c)
            out = self.bs(torch.cat(cols, dim=-1))
            if self.recurrent:
                prev = input[..., [len(self.names)]]
                out = prev + torch.sigmoid(self.mix) * (out - prev)
            return out
    # ---------------- quantities computed WITH a graph on request: price(enable_grad=True), and the loss, as functions of the parameters AND of the
    # initial spot (the graph then runs through the simulated paths)
    CASH_INVARIANT = ("erm", "es", "qcvar")      # documented closed form cash = -loss(pl): the price is the loss of the hedged position
    CLOSED_FORM = CASH_INVARIANT + ("eloss",)    # (entropic loss: closed form too); every other criterion: HedgeLoss.cash's default binary search
    gp = Gen(f"{ctx.seed}:price_grad")           # (own generator: the cases of the other parts do not move)

    def price_gradient(hedger, d, stock, model, crit, embed, cname, kind, sfx, one_key, case, k, npaths):
        """price(n_times=k, enable_grad=True) under a seed, with the initial spot a tensor that requires grad: its back-propagated gradient with
        respect to every parameter (model, criterion, feature network) and to the initial spot vs the derivative of the SAME quantity:
          (a) exactly: the price p of one batch is defined by loss(constant sample -p) = loss(pl) (the documented meaning of `cash`), so by the
              implicit function theorem d p / d x = -(d_x loss(pl) - d_x loss(c 1)) / d_c loss(c 1) at c = -p, for every x; for the cash-invariant
              criteria (expected shortfall, entropic risk measure, quadratic CVaR) that is d p / d x = d loss(pl) / d x: the gradient of
              compute_loss on the same paths.  The right-hand sides are gradients of the hedging loss (compared with finite differences here and
              below) and of the criterion at a constant sample; an ensemble is the mean of its members.  Closed-form cash amounts: 1e-9 of the scale;
              search-based ones (c known to the search precision 1e-6): 1e-5; float32 parameters (OCE's w): 1e-5.
          (b) central finite differences on the same paths: of the loss (every criterion) along the initial spot (along every parameter: further
              below), and of the price along the initial spot and along a direction through all float64 parameters (closed-form cash amounts only; a
              search-based price is defined up to 1e-6 and a step of the usual size moves it by less, a step large against 1e-6 crosses the kinks
              of |position change| and of the tail of 4 .. 7 paths: for those (a) is the predicate).  Steps 2^-20 (2e-5 of the scale), then 2^-28
              (1e-3), as everywhere in this file.
        A backward pass that raises with the initial spot a tensor that requires grad is reported under one key per primary class; the case is then
        evaluated again with the initial spot a constant (derivatives with respect to the parameters only)."""
        xs_par = list(model.parameters()) + list(crit.parameters()) + (list(embed.parameters()) if embed is not None else [])
        spot0 = gp.choice([0.96875, 0.9375, 1.0625, 1.125])      # (not the strike: a lookback payoff max(S) - K has its kink there)
        seed = gp.randint(0, 10 ** 6)
        dirs_par = [torch.tensor([gp.choice([-1.0, -0.5, 0.5, 1.0]) if p_.dtype == dt else 0.0 for _ in range(p_.numel())], dtype=p_.dtype).reshape(p_.shape)
                    for p_ in xs_par]
        rest = tuple(stock.default_init_state)[1:]      # (Heston: the initial variance stays the default)
        search = cname not in CLOSED_FORM
        case = case | {"price_gradient": True, "initial_spot": spot0, "seed": seed, "cash": "binary search" if search else "closed form"}
        # one key for the whole class of search-based cash amounts; one per criterion (and model kind / mode) otherwise
        key = "grad:price:search-cash" if search else (one_key or f"grad:price:{cname}{sfx}")
        ctx.case(case, True, tag="price_grad")
        ctx.stats[f"price_grad:crit={cname}"] += 1
        # a failing backward pass through the SIMULATION (initial spot -> paths) is a matter of the primary, whatever the criterion / model / mode: one
        # key per primary class; the derivatives with respect to the parameters are then checked with the initial spot a constant
        if not price_gradient_at(True, xs_par, spot0, seed, dirs_par, rest, search, key, hedger, d, stock, model, crit, cname, kind, sfx, one_key, case, k, npaths):
            ctx.stats["price_grad:initial_spot_constant_after_error"] += 1
            price_gradient_at(False, xs_par, spot0, seed, dirs_par, rest, search, key, hedger, d, stock, model, crit, cname, kind, sfx, one_key, case, k, npaths)

    def price_gradient_at(with_spot, xs_par, spot0, seed, dirs_par, rest, search, key, hedger, d, stock, model, crit, cname, kind, sfx, one_key, case, k, npaths):
        s0 = torch.tensor(spot0, dtype=dt, requires_grad=with_spot)
        xs = xs_par + ([s0] if with_spot else [])
        sim_key = f"grad:initial-spot:{type(stock).__name__}:error"

        def flat(gs):
            out = []
            for x_, gr in zip(xs, gs):
                out += ([0.0] * x_.numel() if gr is None else [float(v) for v in gr.reshape(-1).tolist()])
            return out

        def grad_of(t_, wrt=None):
            """(a quantity that carries no graph moves with nothing: zero gradient; its absence is reported by the graph predicates)"""
            if not t_.requires_grad:
                return "ok", [0.0] * sum(x_.numel() for x_ in (wrt or xs))
            st_, gs_, _ = call_impl(torch.autograd.grad, t_, wrt or xs, allow_unused=True)
            return st_, (flat(gs_) if st_ == "ok" and wrt is None else gs_)

        def run(fn, n_times, graph, spot):
            return call_impl(fn, d, n_paths=npaths, n_times=n_times, init_state=(spot,) + rest, enable_grad=graph)
        torch.manual_seed(seed)
        st, pk, _ = run(hedger.price, k, True, s0)
        gpk = pk
        if st == "ok":
            st, gpk = grad_of(pk)
        if st != "ok":
            ctx.fail("price(enable_grad=True)" + (" with the initial spot a tensor that requires grad" if with_spot else "") + ", or its backward pass, raised", case,
                     key=sim_key if with_spot else key + ":error", detail=gpk)
            return False
        torch.manual_seed(seed)
        st, lk, _ = run(hedger.compute_loss, k, True, s0)
        glk = lk
        if st == "ok":
            st, glk = grad_of(lk)
        members = []
        torch.manual_seed(seed)
        for _ in range(k if st == "ok" else 0):
            st, l_, _ = run(hedger.compute_loss, 1, True, s0)
            gl_ = l_
            if st == "ok":
                st, gl_ = grad_of(l_)
            if st != "ok":
                glk = gl_
                break
            members.append(gl_)
        if st != "ok":
            ctx.fail("compute_loss" + (" with the initial spot a tensor that requires grad" if with_spot else "") + ", or its backward pass, raised", case,
                     key=sim_key if with_spot else f"grad:simulated:{cname}{sfx}:backward-error", detail=glk)
            return False
        torch.manual_seed(seed)
        cs = [-float(hedger.price(d, n_paths=npaths, n_times=1, init_state=(s0.detach(),) + rest)) for _ in range(k)]
        pv, lv = float(pk.detach()), float(lk.detach())
        if not all(math.isfinite(x) for x in [pv, lv] + cs + glk + [y for m_ in members for y in m_]):
            ctx.stats["price_grad:loss_or_its_gradient_non_finite"] += 1      # (reported by the predicates on the loss below)
            return True
        ctx.traces += 1
        if not all(math.isfinite(x) for x in gpk):
            ctx.fail("the back-propagated gradient of price(enable_grad=True) has NaN / infinite entries although the price, the loss and the gradient of "
                     "the loss on the same paths are finite", case, key=key + ":non-finite", detail={"autograd_of_price": gpk, "autograd_of_loss": glk})
            return True
        # ---- (a) the derivative of the price from its defining relation
        exp = []
        for gl_, c_ in zip(members, cs):
            if cname in CASH_INVARIANT:
                exp.append(gl_)
                continue
            c = torch.tensor(c_, dtype=dt, requires_grad=True)
            lc = crit(c * torch.ones(npaths, dtype=dt))
            gc = torch.autograd.grad(lc, [c] + xs, allow_unused=True)
            dc, gcf = float(gc[0]), flat(gc[1:])
            exp.append([-(a_ - b_) / dc for a_, b_ in zip(gl_, gcf)])
        want = [sum(col) / k for col in zip(*exp)]
        ptol = []
        for x_ in xs:
            ptol += [(1e-5 if search else 1e-9) if x_.dtype == dt else 1e-5] * x_.numel()
        scale = max([1.0] + [abs(x) for x in gpk + want])
        badi = [i for i, (a_, b_, t_) in enumerate(zip(gpk, want, ptol)) if not abs(a_ - b_) <= t_ * scale]
        if badi:
            ctx.fail("the back-propagated gradient of price(enable_grad=True) with respect to the parameters" + (" / the initial spot (last entry)" if with_spot else "")
                     + " is not the derivative "
                     "of the price: " + ("the price of a cash-invariant criterion is the hedging loss of the position, and its gradient differs from the gradient of "
                                         "compute_loss on the same paths" if cname in CASH_INVARIANT else
                                         "it differs from -(d loss(pl) - d loss(c 1)) / d_c loss(c 1), the derivative of the solution c = -price of loss(c 1) = loss(pl)"),
                     case, key=key, detail={"autograd_of_price": gpk, "derivative": want, "entries": badi, "price": pv, "loss": lv})
        # ---- (b) central finite differences on the same paths: initial spot / all float64 parameters
        if kind in ("ntb-clamp", "ntb-leaky"):      # generic point?  (as below)
            model.margin = float("inf")
            torch.manual_seed(seed)
            run(hedger.compute_loss, k, False, s0.detach())
            if not model.margin >= 2.0 ** -16:
                ctx.stats["price_grad:rejected_near_kink"] += 1
                return True
        saved = [p_.detach().clone() for p_ in xs_par]

        def value_at(fn, t, dp, dspot):
            with torch.no_grad():
                for p_, v_, d_ in zip(xs_par, saved, dp):
                    p_.copy_(v_ + t * d_)
            try:
                torch.manual_seed(seed)
                return float(fn(d, n_paths=npaths, n_times=k, init_state=(torch.tensor(spot0 + t * dspot, dtype=dt),) + rest, enable_grad=False))
            finally:
                with torch.no_grad():
                    for p_, v_ in zip(xs_par, saved):
                        p_.copy_(v_)
        zero = [torch.zeros_like(p_) for p_ in xs_par]
        for what, fn, gvec, val in (("loss", hedger.compute_loss, glk, lv), ("price", hedger.price, gpk, pv)):
            if what == "price" and search:
                continue
            for dname, dp, dspot in (("initial-spot", zero, 1.0), ("parameters", dirs_par, 0.0)):
                if (dspot and not with_spot) or (what == "loss" and not dspot):      # (the loss along every single parameter: below)
                    continue
                ana = sum(g_ * e_ for g_, e_ in zip(gvec, [float(v) for t_ in dp for v in t_.reshape(-1).tolist()] + [dspot]))
                for h, tol in ((2.0 ** -20, 2e-5), (2.0 ** -28, 1e-3)):
                    fd = (value_at(fn, h, dp, dspot) - value_at(fn, -h, dp, dspot)) / (2 * h)
                    scale = max(1.0, abs(fd), abs(val))
                    ok = abs(ana - fd) <= tol * scale
                    if ok:
                        break
                if not ok:
                    fkey = (key + ":fd") if what == "price" else (one_key or f"grad:simulated:{cname}{sfx}" + (":initial-spot" if dspot else ""))
                    ctx.fail(f"the back-propagated gradient of the {'hedging loss' if what == 'loss' else 'price (enable_grad=True)'} along "
                             + ("the initial spot" if dspot else "a direction through all float64 parameters")
                             + " differs from the derivative of the same quantity (central finite differences on the same simulated paths)", case | {"direction": dname},
                             key=fkey, detail={"autograd": ana, "finite_difference": fd, "value": val})
        return True
    n_lin = 60 if ctx.tier == "quick" else 450
    NEW_KINDS = ["ntb-clamp", "ntb-leaky", "bs-wrapped", "bs-wrapped-batched"]
    n_new = 20 if ctx.tier == "quick" else 196
    for it in range(n_lin + n_new):
        kind = "linear" if it < n_lin else NEW_KINDS[(it - n_lin) % len(NEW_KINDS)]
        cname, mk_crit = CRITS[it % len(CRITS)]
        crit = mk_crit()
        stateful = g.chance(0.5) if kind == "linear" else kind != "bs-wrapped-batched"
        stock = g.choice([lambda: BrownianStock(cost=g.choice([0.0, 1e-3, 1e-2]), dtype=dt), lambda: HestonStock(cost=1e-3, dtype=dt)])()
        opt = g.choice([EuropeanOption, LookbackOption])
        if kind in ("bs-wrapped", "bs-wrapped-batched"):
            # two rounds in three on the European option; the lookback module is its own input class (key grad:bs-wrapped:lookback below)
            opt = LookbackOption if ((it - n_lin) // len(NEW_KINDS)) % 3 == 2 else EuropeanOption
        elif kind != "linear" and g.chance(0.6):
            opt = EuropeanOption      # (the lookback delta, an autograd call per time step, is ten times dearer)
        d = opt(stock, maturity=g.choice([3, 5]) / 250)
        torch.manual_seed(g.randint(0, 10 ** 6))
        embed = None
        spec = {}
        if kind == "linear":
            feats = ["moneyness", "time_to_maturity"] + (["prev_hedge"] if stateful else [])
            if g.chance(0.35):
                # a trainable embedding as a ModuleOutput feature (its parameters belong to what is trained; with prev_hedge among its
                # inputs the recurrent path runs through it)
                from pfhedge.features import ModuleOutput
                embed = torch.nn.Sequential(torch.nn.Linear(len(feats), 2, dtype=dt), torch.nn.Tanh())
                feats = [ModuleOutput(embed, feats), "volatility"]
            model = torch.nn.Linear(3 if embed is not None else len(feats), 1, dtype=dt)
        elif kind in ("ntb-clamp", "ntb-leaky"):
            spec = {"act": g.choice(["relu", "leaky_relu", "softplus"]), "hidden": g.chance(0.25),
                    "half_widths": [g.choice([0.03, 0.06, 0.125, 0.25]) for _ in range(2)]}
            if kind == "ntb-clamp":
                cl = nn.Clamp()
            else:
                spec |= {"clamped_slope": g.choice([0.01, 0.1]), "inverted_output": g.choice(["mean", "max"])}
                cl = nn.LeakyClamp(spec["clamped_slope"], inverted_output=spec["inverted_output"])
            model = BandNet(d, cl, spec["act"], spec["hidden"])
            with torch.no_grad():      # band half-widths of a realistic size: positions below, inside and above the band all occur
                model.net[-1].bias.copy_(torch.tensor(spec["half_widths"], dtype=dt))
            feats = model.inputs()
        else:
            spec = {"shift": g.choice([-0.02, -0.01, 0.01, 0.02]), "log_markup": g.choice([-0.2, 0.1, 0.3]), "mix": g.choice([-1.0, 0.0, 1.5])}
            model = MarkedUpBS(d, stateful, spec["shift"], spec["log_markup"], spec["mix"])
            feats = model.inputs()
        # the mode of the hedger module when a differentiable loss is requested: fresh (training), after eval(), after fit(validation=True)
        # (which leaves the module in evaluation mode).  bs-wrapped-batched is kept out of fit: see the key grad:bs-wrapped:batched-nan below
        mode = g.choice(["train", "train", "eval", "after-fit"]) if kind != "bs-wrapped-batched" else g.choice(["train", "eval"])
        sfx = ("" if kind == "linear" else ":" + kind) + ("" if mode == "train" else ":" + mode)
        # input classes with one key each, whatever the criterion / mode / predicate (missing graph or wrong gradient value):
        #  * a Black-Scholes module of a LOOKBACK option fed with parameter-dependent inputs (BSLookbackOption.forward -> delta() obtains the
        #    delta by automatic differentiation of the price with create_graph=False: its output carries no graph)
        one_key = "grad:bs-wrapped:lookback" if kind in ("bs-wrapped", "bs-wrapped-batched") and opt is LookbackOption else None
        hedger = Hedger(model, feats, criterion=crit)
        k = g.choice([1, 2, 3])
        npaths = g.choice([4, 7])
        case = {"graph_check": it, "criterion": cname, "stateful": stateful, "n_times": k, "n_paths": npaths, "primary": type(stock).__name__,
                "option": type(d).__name__, "module_output_feature": embed is not None}
        if kind != "linear" or mode != "train":
            case |= {"model_kind": kind, "hedger_mode": mode} | spec
        ctx.case(case, True, tag="graph")
        ctx.stats[f"graph:crit={cname}"] += 1
        ctx.stats[f"graph:model={kind}"] += 1
        ctx.stats[f"graph:mode={mode}"] += 1
        if mode == "eval":
            hedger.eval()
        elif mode == "after-fit":
            st, res, _ = call_impl(hedger.fit, d, n_epochs=1, n_paths=npaths, verbose=False)
            if st != "ok":
                ctx.fail("fit (one epoch, with validation) raised", case, key=f"fit-error{sfx}", detail=res)
                continue
            if hedger.training:      # not a property failure: the scenario (a loss requested from a hedger in evaluation mode) needs it
                hedger.eval()
        p = hedger.price(d, n_paths=npaths, n_times=k)
        if p.requires_grad or p.grad_fn is not None:
            ctx.fail("price() carries an autograd graph by default", case, key="graph:price" + sfx)
        p2 = hedger.price(d, n_paths=npaths, n_times=k, enable_grad=True)
        if not p2.requires_grad:
            ctx.fail("price(enable_grad=True) carries no graph", case, key=one_key or "graph:price-enable" + sfx)
        l0 = hedger.compute_loss(d, n_paths=npaths, n_times=k, enable_grad=False)
        if l0.requires_grad or l0.grad_fn is not None:
            ctx.fail("compute_loss(enable_grad=False) carries an autograd graph", case, key="graph:compute_loss" + sfx)
        l1 = hedger.compute_loss(d, n_paths=npaths, n_times=k)
        if not l1.requires_grad:
            ctx.fail("compute_loss() carries no graph although gradients are enabled", case, key=one_key or "graph:compute_loss-enable" + sfx)
        price_gradient(hedger, d, stock, model, crit, embed, cname, kind, sfx, one_key, case, k, npaths)
        # ---- gradient of the ensemble loss: autograd vs (a) mean of the k single-batch gradients under the same random seed,
        #      (b) central finite differences of the loss re-evaluated under that seed (same paths)
        params = list(model.parameters()) + list(crit.parameters()) + (list(embed.parameters()) if embed is not None else [])
        seed = g.randint(0, 10 ** 6)

        def flat(gs):
            out = []
            for p_, gr in zip(params, gs):
                out += ([0.0] * p_.numel() if gr is None else [float(x) for x in gr.reshape(-1).tolist()])
            return out

        def grad_of(l_):
            """the gradient training would see: a loss that carries no graph moves no parameter (zero gradient; the finite differences decide
            whether that is right)"""
            if not l_.requires_grad:
                return "ok", [0.0] * sum(p_.numel() for p_ in params)
            st_, gs_, _ = call_impl(torch.autograd.grad, l_, params, allow_unused=True)
            return st_, (flat(gs_) if st_ == "ok" else gs_)
        torch.manual_seed(seed)
        lk = hedger.compute_loss(d, n_paths=npaths, n_times=k)
        st, gk = grad_of(lk)
        if st != "ok":
            ctx.fail("back-propagating the hedging loss raised", case | {"seed": seed}, key=f"grad:simulated:{cname}{sfx}:backward-error", detail=gk)
            continue
        finite = all(math.isfinite(x) for x in gk)
        ctx.traces += 1
        if finite:
            torch.manual_seed(seed)
            singles = []
            for _ in range(k):
                l_ = hedger.compute_loss(d, n_paths=npaths, n_times=1)
                singles.append(grad_of(l_))
            if any(st_ != "ok" for st_, _ in singles):
                ctx.fail("back-propagating the hedging loss raised", case | {"seed": seed}, key=f"grad:simulated:{cname}{sfx}:backward-error",
                         detail=[x for st_, x in singles if st_ != "ok"][0])
                continue
            gm = [sum(col) / k for col in zip(*[x for _, x in singles])]
            scale = max(1.0, max(abs(x) for x in gk + gm))
            ptol = []
            for p_ in params:      # OCE's own parameter w is float32 whatever the market's dtype
                ptol += [1e-9 if p_.dtype == torch.float64 else 1e-5] * p_.numel()
            if not all(abs(a_ - b_) <= t_ * scale for a_, b_, t_ in zip(gk, gm, ptol)):
                ctx.fail("the gradient of an ensemble loss (n_times >= 2) is not the mean of the gradients of its members on the same paths", case | {"seed": seed},
                         key=f"grad:ensemble:{cname}{sfx}", detail={"autograd": gk, "mean_of_members": gm})

        def loss_at():
            torch.manual_seed(seed)
            return float(hedger.compute_loss(d, n_paths=npaths, n_times=k, enable_grad=False))
        if kind in ("ntb-clamp", "ntb-leaky"):
            # generic point?  the clamp, an inverted band and a piecewise-linear width activation have kinks: a case within 2^-16 of one on these
            # paths is rejected for the finite-difference predicate (steps 2^-20, 2^-28) and counted
            model.margin = float("inf")
            loss_at()
            if not model.margin >= 2.0 ** -16:
                ctx.stats["graph:rejected_near_kink"] += 1
                continue
        for h in (2.0 ** -20, 2.0 ** -28):
            fd = []
            with torch.no_grad():
                for p_ in params:
                    fl = p_.view(-1)
                    for i in range(fl.numel()):
                        old = float(fl[i])
                        fl[i] = old + h
                        lp = loss_at()
                        fl[i] = old - h
                        lm = loss_at()
                        fl[i] = old
                        fd.append((lp - lm) / (2 * h))
            if not finite:
                break
            scale = max(1.0, max(abs(x) for x in fd), abs(float(lk.detach())))
            tol = 2e-5 if h > 1e-7 else 1e-3
            badi = [i for i, (a_, b_) in enumerate(zip(gk, fd)) if not abs(a_ - b_) <= tol * scale]
            if not badi:
                break
        if not finite:
            # NaN / infinite entries compare False with everything: they get their own predicate.  The loss and its difference quotients are
            # finite numbers here, so the loss is a differentiable function of the parameters on these paths and its gradient is a finite vector
            if math.isfinite(float(lk.detach())) and all(math.isfinite(x) for x in fd):
                ctx.fail("the back-propagated gradient of the hedging loss has NaN / infinite entries although the loss and its finite differences on the same "
                         "simulated paths are finite", case | {"seed": seed},
                         key="grad:bs-wrapped:batched-nan" if kind == "bs-wrapped-batched" else f"grad:simulated:{cname}{sfx}:non-finite",
                         detail={"autograd": gk, "finite_difference": fd, "loss": float(lk.detach())})
            continue
        if badi:
            ctx.fail("the back-propagated gradient of the hedging loss differs from the derivative of the loss (finite differences on the same simulated paths)",
                     case | {"seed": seed}, key=one_key or f"grad:simulated:{cname}{sfx}", detail={"autograd": gk, "finite_difference": fd, "params": badi})
    return ctx.finish(
        rule="real Hedger (linear / ReLU-MLP with dyadic weights, 1-2 state-independent features +/- prev_hedge) on injected dyadic markets, costs "
             "{0, 1/64, 1/16, 1/8}, criteria ERM / ES / entropic loss / MSE / mean; cases within 2^-20 of a kink (zero position change with cost, ES tie) "
             "are rejected and counted; non-trivial = cost > 0 or recurrent input; distinct = sha1 of canonical case. Additionally, on simulated "
             "Brownian/Heston markets with every built-in criterion (ERM, ES, entropic loss, quadratic CVaR, OCE with its own parameter w, isoelastic "
             "a=0.5 and a=1 behind a user wrapper) and n_times in {1,2,3}: graph presence/absence of price / compute_loss under enable_grad, the "
             "ensemble gradient vs the mean of member gradients under the same seed, and vs finite differences on the re-seeded paths (NaN / infinite "
             "gradient entries with finite loss and difference quotients are failures); the hedger module fresh, after eval() and after "
             "fit(validation=True); besides the linear model (+/- ModuleOutput embedding): a no-transaction-band strategy whose trainable band edges "
             "are the tensor bounds of pfhedge's Clamp / LeakyClamp (relu / leaky-relu / softplus widths; cases within 2^-16 of a clamp / activation "
             "kink rejected and counted) and a Black-Scholes module evaluated at a trainable strike shift and volatility mark-up, step-by-step (with "
             "a trainable partial adjustment of prev_hedge) and all steps at once. "
             "Quantities computed with a graph on request, every simulated-market case (own generator; initial spot in {31/32, 15/16, 17/16, 9/8} as a tensor that "
             "requires grad, Heston: default initial variance): the gradient of price(n_times, enable_grad=True) with respect to all parameters (model, "
             "criterion, feature network) and the initial spot vs the derivative of the price from loss(c 1) = loss(pl), c = -price, member by member under the "
             "same seed: the gradient of compute_loss for ERM / ES / quadratic CVaR, -(d loss(pl) - d loss(c 1)) / d_c loss(c 1) for the entropic loss (1e-9 of "
             "the scale) and for the search-based cash amounts of OCE / isoelastic-behind-a-wrapper (1e-5; one key grad:price:search-cash); central finite "
             "differences (2^-20 at 2e-5, then 2^-28 at 1e-3) of the loss along the initial spot and, closed-form cash amounts, of the price along the initial "
             "spot and along a direction with entries in {+-1, +-1/2} through all float64 parameters (no-transaction-band cases within 2^-16 of a kink "
             "rejected and counted); a backward pass through the simulation that raises: one key per primary class, the case is re-evaluated with a "
             "constant initial spot.  Injected markets (main loop and H in {2,3}): the gradient of -criterion.cash(compute_portfolio, payoff) vs the gradient of "
             "the loss (ERM, ES) resp. grad loss / (a loss) (entropic loss), 1e-9 of the scale. "
             "Op grad_h (the model lossOfH = hedgerPL on every path + applyCritH, the definitions the H >= 1 theorems of Lemmas/C14Multi.lean are "
             "stated about, at Dual Float): every one-instrument scenario above is also sent to it (must agree with the implementation and with "
             "op grad; the model computes the payoff itself); plus 50 (quick) / 500 (thorough) accepted scenarios with H in {2,3} hedging "
             "instruments (the underlier + listed a*S+b derivatives on another / the same underlier + further primaries, each with its own cost "
             "rate in {0, 1/128 .. 1/8}), linear / ReLU-MLP models with H outputs, with and without prev_hedge (width H), criteria ERM / ES / "
             "entropic loss / MSE / mean / isoelastic a in {1, 1/4, 1/2, 3/4} on positive wealth (a payoff-shifting clause of the derivative, "
             "mirrored by the model's clause) / OCE (utilities 1-exp(-a x), a x^2 + b x) with its own float32 parameter w (its gradient entry "
             "compared at 1e-5, the others at 1e-9 of the scale; loss at 1e-10), autograd vs finite differences (predicate) and vs the "
             "eps-parts (correspondence); cases within 2^-20 of a kink of an instrument with a non-zero cost rate / a ReLU / an ES tie, or "
             "with wealth < 1 for the isoelastic loss, are rejected and counted (multi_rejected_near_kink). "
             "Inside fit: 20 (quick) / 240 (thorough) runs of fit over 2-4 epochs with a recording SGD / Adam optimiser (lr 0 and positive) given as an "
             "instance over model + criterion + the network of a ModuleOutput feature (parameters outside hedger.parameters()), as an instance over "
             "hedger.parameters() (incl. OCE's w) or as a class, with and without validation, an explicit hedge list, a backward pass made before fit "
             "(stale .grad); the gradient present at every step() vs autograd of criterion(compute_portfolio, payoff) at that epoch's parameter point on "
             "that epoch's recorded buffers (1e-9 / 1e-5 of the scale), vs central finite differences at the last epoch, and (no feature network, "
             "criterion of CritH, dyadic cost rates) vs the eps-parts of op grad_h on the recorded paths. "
             "Grad mode (82 scenarios on every tier: entry point in {price, price(enable_grad=True), compute_loss(enable_grad=False), compute_loss, fit training step, fit "
             "validation} x exception in {none, hedging instruments of different sizes, invalid init_state, criterion without cash (price), user criterion raising at its "
             "first / a later evaluation, user model raising at a later evaluation, a BaseException from the model} x ambient mode in {gradients enabled, inside "
             "torch.no_grad()}; injected dyadic markets, linear models, ERM / ES / entropic loss / MSE): torch.is_grad_enabled() after the (caught) call equals the mode "
             "before it; the loss criterion(compute_pl) built next carries no graph inside no_grad, and with gradients enabled its autograd gradient (zero without graph) "
             "vs central finite differences (2^-20 at 2e-5, then 2^-30 at 1e-3; cases near a kink rejected and counted) and vs op grad_h (1e-9 / 1e-10); the harness "
             "restores the global grad mode in a finally block after every scenario")
