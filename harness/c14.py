"""C14 — Loss gradients through the hedger are the true gradients.

correspondence: torch.autograd.grad of criterion(compute_portfolio(derivative), payoff) w.r.t. every
model parameter vs the ε-part of the SAME Lean model (computeHedge -> plPath -> criterion)
evaluated at dual numbers (`Dual Float`, forward mode, one pass per parameter) on the same dyadic
market and dyadic parameters; both evaluation modes, costs zero and positive, with and without the
recurrent prev_hedge input.
predicate (real code): autograd gradient vs central finite differences of the real loss on the
same paths; price() and compute_loss(enable_grad=False) carry no graph; validation losses inside fit
carry no graph.  The simulated-market part also runs with the hedger in evaluation mode (after eval(), and
after fit(validation=True) which leaves it there) and with user models built from pfhedge's own modules:
a no-transaction-band strategy whose trainable band edges are the tensor-valued bounds of Clamp /
LeakyClamp, and a Black-Scholes delta evaluated at trainable (shifted / marked-up) inputs.
"""
import math
from fractions import Fraction as F
from common import *  # noqa
from hedge_common import *  # noqa


def check(ctx):
    torch, pfhedge = import_impl()
    import pfhedge.nn as nn
    from pfhedge.nn import Hedger
    g = ctx.gen
    ctx.lean_gate()
    dt = torch.float64
    n = 300 if ctx.tier == "quick" else 3000
    reqs, metas = [], []
    rejected = 0
    for it in range(n):
        mk = gen_market(g, N=g.choice([2, 3, 4, 5]), T=g.choice([2, 3, 4, 5]), primary=g.choice(["BrownianStock", "HestonStock"]))
        mk["cost"] = F(g.choice([0, 0, 4, 16, 32]), 256)
        mk["option"] = g.choice(["EuropeanOption", "LookbackOption"])
        stateful = g.chance(0.5)
        names = [g.choice(["moneyness", "time_to_maturity", "volatility", "max_moneyness", "barrier_up", "underlier_spot", "variance"])
                 for _ in range(g.choice([1, 2]))]
        thr = g.choice([x for p in mk["spot"] for x in p])
        width = len(names) + (1 if stateful else 0)
        relu = g.chance(0.4)
        if relu:
            ms = gen_mlp(g, width, 1)
        else:
            ms = gen_linear(g, width, 1, relu=False)
        critk = g.choice(["erm", "es", "eloss", "mse", "mean"])
        N, T = mk["N"], mk["T"]
        a = g.choice([0.5, 1.0, 2.0])
        k = g.choice([1, 2, 4]) if critk == "es" else None
        if critk == "es":
            k = min(k, N)
        d, u = build_derivative(torch, mk)
        feats = [feature_obj(torch, nm, mk, thr) for nm in names] + (["prev_hedge"] if stateful else [])
        model = model_obj(torch, ms)
        if critk == "erm":
            crit = nn.EntropicRiskMeasure(a)
        elif critk == "eloss":
            crit = nn.EntropicLoss(a)
        elif critk == "es":
            crit = nn.ExpectedShortfall(k / N)
        elif critk == "mse":
            crit = torch.nn.MSELoss()
        else:
            class NegMean(nn.HedgeLoss):
                def forward(self, input, target=0.0):
                    return -(input - target).mean(0)
            crit = NegMean()
        hedger = Hedger(model, feats, criterion=crit)
        case = {"features": names, "stateful": stateful, "model": model_json(ms), "crit": critk, "a": a, "k": k, "option": mk["option"],
                "primary": mk["primary"], "N": N, "T": T, "spot": enc_rat(mk["spot"]), "vol": enc_rat(mk["vol"]), "cost": rat_str(mk["cost"]),
                "strike": rat_str(mk["strike"]), "dt": rat_str(mk["dt"]), "thr": rat_str(thr)}
        params = list(model.parameters())

        def loss_fn():
            pf = hedger.compute_portfolio(d)
            return crit(pf, d.payoff())
        inject(torch, u, mk)
        st, loss, _ = call_impl(loss_fn)
        if st != "ok":
            ctx.case(case, False, tag="grad")
            ctx.fail("computing the hedging loss raised", case, key="grad:loss-error", detail=loss)
            continue
        st, grads, _ = call_impl(torch.autograd.grad, loss, params, allow_unused=True)
        if st != "ok":
            ctx.case(case, False, tag="grad")
            ctx.fail("back-propagating the hedging loss raised", case, key="grad:backward-error", detail=grads)
            continue
        gflat = []
        for p, gr in zip(params, grads):
            gflat += ([0.0] * p.numel() if gr is None else [float(x) for x in gr.reshape(-1).tolist()])
        # generic point?  reject cases within 2^-20 of a kink (|position change|, ReLU, ES tie, max/relu in payoff don't involve params)
        with torch.no_grad():
            unit = hedger.compute_hedge(d)
            dchg = unit.diff(dim=-1).abs()
            kink = bool((dchg[..., :-1] < 2 ** -20).any()) if mk["cost"] > 0 and T > 2 else False
            kink = kink or (mk["cost"] > 0 and bool((unit[..., 0].abs() < 2 ** -20).any()))
            if relu:
                pre_min = [float("inf")]

                def hook(mod, inp):
                    pre_min[0] = min(pre_min[0], float(inp[0].abs().min()))
                hs = [m_.register_forward_pre_hook(hook) for m_ in model.modules() if isinstance(m_, torch.nn.ReLU)]
                hedger.compute_hedge(d)
                for h_ in hs:
                    h_.remove()
                kink = kink or pre_min[0] < 2 ** -20
            if critk == "es" and k < N:
                plv = (hedger.compute_portfolio(d) - d.payoff()).sort().values
                kink = kink or bool((plv[k] - plv[k - 1]).abs() < 2 ** -20)
        ctx.stats[f"crit={critk}"] += 1
        ctx.stats[f"stateful={stateful}"] += 1
        ctx.stats[f"cost>0={mk['cost'] > 0}"] += 1
        ctx.stats[f"relu={relu}"] += 1
        if kink:
            rejected += 1
            ctx.stats["rejected_near_kink"] += 1
            continue
        ctx.case(case, nontrivial=(mk["cost"] > 0 or stateful), tag="grad")
        ctx.traces += 1
        # ---- predicate: central finite differences of the REAL loss on the same paths (h = 2^-20)
        h = 2.0 ** -20
        fd = []
        with torch.no_grad():
            for p in params:
                flat = p.view(-1)
                for i in range(flat.numel()):
                    old = float(flat[i])
                    flat[i] = old + h
                    lp = float(loss_fn())
                    flat[i] = old - h
                    lm = float(loss_fn())
                    flat[i] = old
                    fd.append((lp - lm) / (2 * h))
        scale = max(1.0, max(abs(x) for x in fd), abs(float(loss.detach())))
        badi = [i for i, (a_, b_) in enumerate(zip(gflat, fd)) if abs(a_ - b_) > 2e-5 * scale]
        if badi:
            # a ReLU / |.| kink between theta-h and theta+h makes the difference quotient unreliable: retry with a smaller step
            h2 = 2.0 ** -30
            fd2 = []
            with torch.no_grad():
                for p in params:
                    flat = p.view(-1)
                    for i in range(flat.numel()):
                        old = float(flat[i])
                        flat[i] = old + h2
                        lp = float(loss_fn())
                        flat[i] = old - h2
                        lm = float(loss_fn())
                        flat[i] = old
                        fd2.append((lp - lm) / (2 * h2))
            badi = [i for i in badi if abs(gflat[i] - fd2[i]) > 1e-3 * scale]
        if badi:
            ctx.fail("the back-propagated gradient of the hedging loss differs from the derivative of the loss (finite differences on the same paths)",
                     case, key=f"grad:{'stateful' if stateful else 'batched'}:{critk}", detail={"autograd": gflat, "finite_difference": fd, "params": badi})
        # ---- model (dual numbers)
        crit_spec = {"erm": ["erm", float_bits(a)], "eloss": ["eloss", float_bits(a)], "es": ["es", k], "mse": ["mse"], "mean": ["mean"]}[critk]
        layers = [{"w": enc_flt([[float(x) for x in r] for r in l["w"]]), "b": enc_flt([float(x) for x in l["b"]])}
                  for l in (ms["layers"] if ms["kind"] == "mlp" else [ms])]
        with torch.no_grad():
            pay = [float(x) for x in d.payoff().tolist()]
        reqs.append({"op": "grad", "paths": [market_json(mk, p) for p in range(N)],
                     "features": [feature_json(nm, thr) for nm in names] + ([["prev_hedge"]] if stateful else []),
                     "layers": layers, "cost": float_bits(float(mk["cost"])), "payoffs": enc_flt(pay), "crit": crit_spec, "n": T})
        metas.append((case, float(loss.detach()), gflat))
    ctx.extra["rejected_near_kink"] = rejected
    try:
        outs = ctx.driver(reqs)
    except DriverBroken as e:
        ctx.ties_broken.append({"kind": "driver", "detail": str(e)[:1500]})
        outs = []
    for (case, loss, gflat), mo in zip(metas, outs):
        if "ok" not in mo:
            ctx.disagree("grad", case, gflat, mo)
            continue
        ml, mg = float_of_bits(mo["ok"]["loss"]), dec_flt(mo["ok"]["grad"])
        scale = max(1.0, abs(loss), max([abs(x) for x in gflat] + [0.0]))
        if abs(ml - loss) > 1e-10 * scale:
            ctx.disagree("grad_loss_value", case, loss, ml)
        elif len(mg) != len(gflat) or any(abs(a_ - b_) > 1e-9 * scale for a_, b_ in zip(gflat, mg)):
            ctx.disagree("grad", case, gflat, mg)
    # ---------------- evaluation-only quantities carry no graph; ensembles (n_times >= 2) have the gradient of their mean
    from pfhedge.instruments import BrownianStock, HestonStock, EuropeanOption, LookbackOption
    from pfhedge.nn.modules.loss import OCE

    def exp_utility(x):
        return 1 - (-x).exp()

    class Shifted(nn.HedgeLoss):
        """user criterion wrapping a built-in one (keeps the isoelastic utility on positive wealth)"""
        def __init__(self, inner, shift):
            super().__init__()
            self.inner, self.shift = inner, shift

        def forward(self, input, target=0.0):
            return self.inner(input + self.shift, target)
    CRITS = [("erm", lambda: nn.EntropicRiskMeasure(1.0)), ("es", lambda: nn.ExpectedShortfall(0.5)), ("eloss", lambda: nn.EntropicLoss(2.0)),
             ("qcvar", lambda: nn.QuadraticCVaR(2.0)), ("oce", lambda: OCE(exp_utility)), ("iso", lambda: Shifted(nn.IsoelasticLoss(0.5), 10.0)),
             ("isolog", lambda: Shifted(nn.IsoelasticLoss(1.0), 10.0))]

    class BandNet(torch.nn.Module):
        """no-transaction-band strategy: the previous position clamped by pfhedge's Clamp / LeakyClamp into
        [delta - act(f(x)), delta + act(g(x))] around the Black-Scholes delta.  The trainable parameters of (f, g) reach the loss ONLY through
        the tensor-valued bounds of the clamp (and the recurrent input).  `margin` records the distance to the nearest kink (a position on a band
        edge, an empty/inverted band edge-on-edge, a zero pre-activation of a piecewise-linear activation) over the forward calls since reset"""
        def __init__(self, derivative, clamp, act, hidden):
            super().__init__()
            self.delta = nn.BlackScholes(derivative)
            w = len(self.delta.inputs())
            if hidden:
                self.net = torch.nn.Sequential(torch.nn.Linear(w, 2, dtype=dt), torch.nn.Tanh(), torch.nn.Linear(2, 2, dtype=dt))
            else:
                self.net = torch.nn.Sequential(torch.nn.Linear(w, 2, dtype=dt))
            self.clamp, self.act, self.margin = clamp, act, float("inf")

        def inputs(self):
            return self.delta.inputs() + ["prev_hedge"]

        def forward(self, input):
            prev, x = input[..., [-1]], input[..., :-1]
            delta = self.delta(x)
            pre = self.net(x)
            if self.act == "softplus":
                wd = torch.nn.functional.softplus(pre)
            elif self.act == "leaky_relu":
                wd = torch.nn.functional.leaky_relu(pre, 0.01)
            else:
                wd = torch.relu(pre)
            lower, upper = delta - wd[..., [0]], delta + wd[..., [1]]
            with torch.no_grad():
                ds = [(prev - lower).abs().min(), (prev - upper).abs().min(), (upper - lower).abs().min()]
                if self.act != "softplus":
                    ds.append(pre.abs().min())
                self.margin = min([self.margin] + [float(x_) for x_ in ds])
            return self.clamp(prev, min=lower, max=upper)

    class MarkedUpBS(torch.nn.Module):
        """Black-Scholes delta at a trainable strike shift and volatility mark-up (Leland-type): the parameters reach the loss ONLY through the
        inputs of pfhedge's BlackScholes module; with prev_hedge among the inputs, a trainable partial adjustment towards that delta"""
        def __init__(self, derivative, recurrent, shift, log_markup, mix):
            super().__init__()
            self.bs = nn.BlackScholes(derivative)
            self.names, self.recurrent = list(self.bs.inputs()), recurrent
            self.shift = torch.nn.Parameter(torch.tensor(shift, dtype=dt))
            self.log_markup = torch.nn.Parameter(torch.tensor(log_markup, dtype=dt))
            if recurrent:
                self.mix = torch.nn.Parameter(torch.tensor(mix, dtype=dt))

        def inputs(self):
            return self.names + (["prev_hedge"] if self.recurrent else [])

        def forward(self, input):
            cols = []
            for i, nm in enumerate(self.names):
                c = input[..., [i]]
                if nm.endswith("log_moneyness"):       # log_moneyness and (lookback) max_log_moneyness: the same shift of the strike
                    c = c + self.shift
                elif nm == "volatility":
                    c = c * self.log_markup.exp()
                cols.append(c)
            out = self.bs(torch.cat(cols, dim=-1))
            if self.recurrent:
                prev = input[..., [len(self.names)]]
                out = prev + torch.sigmoid(self.mix) * (out - prev)
            return out
    n_lin = 60 if ctx.tier == "quick" else 450
    NEW_KINDS = ["ntb-clamp", "ntb-leaky", "bs-wrapped", "bs-wrapped-batched"]
    n_new = 20 if ctx.tier == "quick" else 196
    for it in range(n_lin + n_new):
        kind = "linear" if it < n_lin else NEW_KINDS[(it - n_lin) % len(NEW_KINDS)]
        cname, mk_crit = CRITS[it % len(CRITS)]
        crit = mk_crit()
        stateful = g.chance(0.5) if kind == "linear" else kind != "bs-wrapped-batched"
        stock = g.choice([lambda: BrownianStock(cost=g.choice([0.0, 1e-3, 1e-2]), dtype=dt), lambda: HestonStock(cost=1e-3, dtype=dt)])()
        opt = g.choice([EuropeanOption, LookbackOption])
        if kind in ("bs-wrapped", "bs-wrapped-batched"):
            # two rounds in three on the European option; the lookback module is its own input class (key grad:bs-wrapped:lookback below)
            opt = LookbackOption if ((it - n_lin) // len(NEW_KINDS)) % 3 == 2 else EuropeanOption
        elif kind != "linear" and g.chance(0.6):
            opt = EuropeanOption      # (the lookback delta, an autograd call per time step, is ten times dearer)
        d = opt(stock, maturity=g.choice([3, 5]) / 250)
        torch.manual_seed(g.randint(0, 10 ** 6))
        embed = None
        spec = {}
        if kind == "linear":
            feats = ["moneyness", "time_to_maturity"] + (["prev_hedge"] if stateful else [])
            if g.chance(0.35):
                # a trainable embedding as a ModuleOutput feature (its parameters belong to what is trained; with prev_hedge among its
                # inputs the recurrent path runs through it)
                from pfhedge.features import ModuleOutput
                embed = torch.nn.Sequential(torch.nn.Linear(len(feats), 2, dtype=dt), torch.nn.Tanh())
                feats = [ModuleOutput(embed, feats), "volatility"]
            model = torch.nn.Linear(3 if embed is not None else len(feats), 1, dtype=dt)
        elif kind in ("ntb-clamp", "ntb-leaky"):
            spec = {"act": g.choice(["relu", "leaky_relu", "softplus"]), "hidden": g.chance(0.25),
                    "half_widths": [g.choice([0.03, 0.06, 0.125, 0.25]) for _ in range(2)]}
            if kind == "ntb-clamp":
                cl = nn.Clamp()
            else:
                spec |= {"clamped_slope": g.choice([0.01, 0.1]), "inverted_output": g.choice(["mean", "max"])}
                cl = nn.LeakyClamp(spec["clamped_slope"], inverted_output=spec["inverted_output"])
            model = BandNet(d, cl, spec["act"], spec["hidden"])
            with torch.no_grad():      # band half-widths of a realistic size: positions below, inside and above the band all occur
                model.net[-1].bias.copy_(torch.tensor(spec["half_widths"], dtype=dt))
            feats = model.inputs()
        else:
            spec = {"shift": g.choice([-0.02, -0.01, 0.01, 0.02]), "log_markup": g.choice([-0.2, 0.1, 0.3]), "mix": g.choice([-1.0, 0.0, 1.5])}
            model = MarkedUpBS(d, stateful, spec["shift"], spec["log_markup"], spec["mix"])
            feats = model.inputs()
        # the mode of the hedger module when a differentiable loss is requested: fresh (training), after eval(), after fit(validation=True)
        # (which leaves the module in evaluation mode).  bs-wrapped-batched is kept out of fit: see the key grad:bs-wrapped:batched-nan below
        mode = g.choice(["train", "train", "eval", "after-fit"]) if kind != "bs-wrapped-batched" else g.choice(["train", "eval"])
        sfx = ("" if kind == "linear" else ":" + kind) + ("" if mode == "train" else ":" + mode)
        # input classes with one key each, whatever the criterion / mode / predicate (missing graph or wrong gradient value):
        #  * a Black-Scholes module of a LOOKBACK option fed with parameter-dependent inputs (BSLookbackOption.forward -> delta() obtains the
        #    delta by automatic differentiation of the price with create_graph=False: its output carries no graph)
        one_key = "grad:bs-wrapped:lookback" if kind in ("bs-wrapped", "bs-wrapped-batched") and opt is LookbackOption else None
        hedger = Hedger(model, feats, criterion=crit)
        k = g.choice([1, 2, 3])
        npaths = g.choice([4, 7])
        case = {"graph_check": it, "criterion": cname, "stateful": stateful, "n_times": k, "n_paths": npaths, "primary": type(stock).__name__,
                "option": type(d).__name__, "module_output_feature": embed is not None}
        if kind != "linear" or mode != "train":
            case |= {"model_kind": kind, "hedger_mode": mode} | spec
        ctx.case(case, True, tag="graph")
        ctx.stats[f"graph:crit={cname}"] += 1
        ctx.stats[f"graph:model={kind}"] += 1
        ctx.stats[f"graph:mode={mode}"] += 1
        if mode == "eval":
            hedger.eval()
        elif mode == "after-fit":
            st, res, _ = call_impl(hedger.fit, d, n_epochs=1, n_paths=npaths, verbose=False)
            if st != "ok":
                ctx.fail("fit (one epoch, with validation) raised", case, key=f"fit-error{sfx}", detail=res)
                continue
            if hedger.training:      # not a property failure: the scenario (a loss requested from a hedger in evaluation mode) needs it
                hedger.eval()
        p = hedger.price(d, n_paths=npaths, n_times=k)
        if p.requires_grad or p.grad_fn is not None:
            ctx.fail("price() carries an autograd graph by default", case, key="graph:price" + sfx)
        p2 = hedger.price(d, n_paths=npaths, n_times=k, enable_grad=True)
        if not p2.requires_grad:
            ctx.fail("price(enable_grad=True) carries no graph", case, key=one_key or "graph:price-enable" + sfx)
        l0 = hedger.compute_loss(d, n_paths=npaths, n_times=k, enable_grad=False)
        if l0.requires_grad or l0.grad_fn is not None:
            ctx.fail("compute_loss(enable_grad=False) carries an autograd graph", case, key="graph:compute_loss" + sfx)
        l1 = hedger.compute_loss(d, n_paths=npaths, n_times=k)
        if not l1.requires_grad:
            ctx.fail("compute_loss() carries no graph although gradients are enabled", case, key=one_key or "graph:compute_loss-enable" + sfx)
        # ---- gradient of the ensemble loss: autograd vs (a) mean of the k single-batch gradients under the same random seed,
        #      (b) central finite differences of the loss re-evaluated under that seed (same paths)
        params = list(model.parameters()) + list(crit.parameters()) + (list(embed.parameters()) if embed is not None else [])
        seed = g.randint(0, 10 ** 6)

        def flat(gs):
            out = []
            for p_, gr in zip(params, gs):
                out += ([0.0] * p_.numel() if gr is None else [float(x) for x in gr.reshape(-1).tolist()])
            return out

        def grad_of(l_):
            """the gradient training would see: a loss that carries no graph moves no parameter (zero gradient; the finite differences decide
            whether that is right)"""
            if not l_.requires_grad:
                return "ok", [0.0] * sum(p_.numel() for p_ in params)
            st_, gs_, _ = call_impl(torch.autograd.grad, l_, params, allow_unused=True)
            return st_, (flat(gs_) if st_ == "ok" else gs_)
        torch.manual_seed(seed)
        lk = hedger.compute_loss(d, n_paths=npaths, n_times=k)
        st, gk = grad_of(lk)
        if st != "ok":
            ctx.fail("back-propagating the hedging loss raised", case | {"seed": seed}, key=f"grad:simulated:{cname}{sfx}:backward-error", detail=gk)
            continue
        finite = all(math.isfinite(x) for x in gk)
        ctx.traces += 1
        if finite:
            torch.manual_seed(seed)
            singles = []
            for _ in range(k):
                l_ = hedger.compute_loss(d, n_paths=npaths, n_times=1)
                singles.append(grad_of(l_))
            if any(st_ != "ok" for st_, _ in singles):
                ctx.fail("back-propagating the hedging loss raised", case | {"seed": seed}, key=f"grad:simulated:{cname}{sfx}:backward-error",
                         detail=[x for st_, x in singles if st_ != "ok"][0])
                continue
            gm = [sum(col) / k for col in zip(*[x for _, x in singles])]
            scale = max(1.0, max(abs(x) for x in gk + gm))
            ptol = []
            for p_ in params:      # OCE's own parameter w is float32 whatever the market's dtype
                ptol += [1e-9 if p_.dtype == torch.float64 else 1e-5] * p_.numel()
            if not all(abs(a_ - b_) <= t_ * scale for a_, b_, t_ in zip(gk, gm, ptol)):
                ctx.fail("the gradient of an ensemble loss (n_times >= 2) is not the mean of the gradients of its members on the same paths", case | {"seed": seed},
                         key=f"grad:ensemble:{cname}{sfx}", detail={"autograd": gk, "mean_of_members": gm})

        def loss_at():
            torch.manual_seed(seed)
            return float(hedger.compute_loss(d, n_paths=npaths, n_times=k, enable_grad=False))
        if kind in ("ntb-clamp", "ntb-leaky"):
            # generic point?  the clamp, an inverted band and a piecewise-linear width activation have kinks: a case within 2^-16 of one on these
            # paths is rejected for the finite-difference predicate (steps 2^-20, 2^-28) and counted
            model.margin = float("inf")
            loss_at()
            if not model.margin >= 2.0 ** -16:
                ctx.stats["graph:rejected_near_kink"] += 1
                continue
        for h in (2.0 ** -20, 2.0 ** -28):
            fd = []
            with torch.no_grad():
                for p_ in params:
                    fl = p_.view(-1)
                    for i in range(fl.numel()):
                        old = float(fl[i])
                        fl[i] = old + h
                        lp = loss_at()
                        fl[i] = old - h
                        lm = loss_at()
                        fl[i] = old
                        fd.append((lp - lm) / (2 * h))
            if not finite:
                break
            scale = max(1.0, max(abs(x) for x in fd), abs(float(lk.detach())))
            tol = 2e-5 if h > 1e-7 else 1e-3
            badi = [i for i, (a_, b_) in enumerate(zip(gk, fd)) if not abs(a_ - b_) <= tol * scale]
            if not badi:
                break
        if not finite:
            # NaN / infinite entries compare False with everything: they get their own predicate.  The loss and its difference quotients are
            # finite numbers here, so the loss is a differentiable function of the parameters on these paths and its gradient is a finite vector
            if math.isfinite(float(lk.detach())) and all(math.isfinite(x) for x in fd):
                ctx.fail("the back-propagated gradient of the hedging loss has NaN / infinite entries although the loss and its finite differences on the same "
                         "simulated paths are finite", case | {"seed": seed},
                         key="grad:bs-wrapped:batched-nan" if kind == "bs-wrapped-batched" else f"grad:simulated:{cname}{sfx}:non-finite",
                         detail={"autograd": gk, "finite_difference": fd, "loss": float(lk.detach())})
            continue
        if badi:
            ctx.fail("the back-propagated gradient of the hedging loss differs from the derivative of the loss (finite differences on the same simulated paths)",
                     case | {"seed": seed}, key=one_key or f"grad:simulated:{cname}{sfx}", detail={"autograd": gk, "finite_difference": fd, "params": badi})
    return ctx.finish(
        rule="real Hedger (linear / ReLU-MLP with dyadic weights, 1-2 state-independent features +/- prev_hedge) on injected dyadic markets, costs "
             "{0, 1/64, 1/16, 1/8}, criteria ERM / ES / entropic loss / MSE / mean; cases within 2^-20 of a kink (zero position change with cost, ES tie) "
             "are rejected and counted; non-trivial = cost > 0 or recurrent input; distinct = sha1 of canonical case. Additionally, on simulated "
             "Brownian/Heston markets with every built-in criterion (ERM, ES, entropic loss, quadratic CVaR, OCE with its own parameter w, isoelastic "
             "a=0.5 and a=1 behind a user wrapper) and n_times in {1,2,3}: graph presence/absence of price / compute_loss under enable_grad, the "
             "ensemble gradient vs the mean of member gradients under the same seed, and vs finite differences on the re-seeded paths (NaN / infinite "
             "gradient entries with finite loss and difference quotients are failures); the hedger module fresh, after eval() and after "
             "fit(validation=True); besides the linear model (+/- ModuleOutput embedding): a no-transaction-band strategy whose trainable band edges "
             "are the tensor bounds of pfhedge's Clamp / LeakyClamp (relu / leaky-relu / softplus widths; cases within 2^-16 of a clamp / activation "
             "kink rejected and counted) and a Black-Scholes module evaluated at a trainable strike shift and volatility mark-up, step-by-step (with "
             "a trainable partial adjustment of prev_hedge) and all steps at once")
